#!/bin/bash
# run_seeds.sh <seed>... — every check's quick tier on the current tree for each VERIF_SEED given; one line per run
cd "$(dirname "$0")/.."
[ -x tools/bin/gogen ] || ./check --setup > setup.log 2>&1
for s in "$@"; do
  for p in C01 C02 C03 C04 C05 C06 C07 C08 C09 C10 C11 C12 C13 C14 C15 C16; do
    out=$(VERIF_SEED=$s ./check $p --tier quick 2>&1); rc=$?
    echo "seed=$s $p rc=$rc $(echo "$out" | grep -E "^C[0-9]+ quick" | tail -1)"
    echo "$out" | grep -E "VIOLATION|KNOWN-FINDING|broken:" | head -5
  done
done
