package main

import (
	"fmt"
	"go/ast"
	"go/constant"
	"go/token"
	"go/types"
	"sort"
	"strings"
)

// ---- translation of straight-line integer Go code to Lean BitVec terms ----

type untranslatable struct{ msg string }

func (u untranslatable) Error() string { return u.msg }

func bail(p *Pkg, n ast.Node, f string, a ...interface{}) {
	pos := p.Fset.Position(n.Pos())
	panic(untranslatable{fmt.Sprintf("%s:%d: %s", pos.Filename, pos.Line, fmt.Sprintf(f, a...))})
}

type ity struct {
	w      int
	signed bool
	isBool bool
}

func basicOf(t types.Type) (ity, bool) {
	b, ok := t.Underlying().(*types.Basic)
	if !ok {
		return ity{}, false
	}
	switch b.Kind() {
	case types.Bool, types.UntypedBool:
		return ity{isBool: true}, true
	case types.Int8:
		return ity{8, true, false}, true
	case types.Int16:
		return ity{16, true, false}, true
	case types.Int32:
		return ity{32, true, false}, true
	case types.Int64, types.Int, types.UntypedInt:
		return ity{64, true, false}, true
	case types.Uint8:
		return ity{8, false, false}, true
	case types.Uint16:
		return ity{16, false, false}, true
	case types.Uint32:
		return ity{32, false, false}, true
	case types.Uint64, types.Uint, types.Uintptr:
		return ity{64, false, false}, true
	}
	return ity{}, false
}

func leanLit(v constant.Value, t ity) string {
	s := v.ExactString()
	if strings.HasPrefix(s, "-") {
		return fmt.Sprintf("(BitVec.ofInt %d (%s))", t.w, s)
	}
	return fmt.Sprintf("%s#%d", s, t.w)
}

// cellRef describes X[c*i+k] (lane mode)
type cellRef struct {
	arr    string
	stride int64
	off    int64
}

type ftr struct {
	p        *Pkg
	fn       *ast.FuncDecl
	loopVar  string              // lane mode: name of the loop counter ("" otherwise)
	strides  map[string]int64    // lane mode: array -> stride
	assigned map[string]bool     // names (vars / cells) assigned so far
	inputs   []string            // lane mode: cells read before being written, in first-use order
	inputTy  map[string]ity
	outCells map[string]ity      // cells written
	outParam map[string]bool     // pointer out-params (*a0)
	local    map[string]string   // callable local functions: go name -> lean name
	localOut map[string][]string // go name -> out param names
}

func sanitize(s string) string {
	switch s {
	case "end", "at", "from", "in", "let", "do", "then", "else", "if", "fun", "open", "by", "have", "show", "with":
		return s + "_"
	}
	return s
}

func (t *ftr) typeOf(e ast.Expr) ity {
	ty := t.p.Info.TypeOf(e)
	if ty == nil {
		bail(t.p, e, "no type")
	}
	it, ok := basicOf(ty)
	if !ok {
		bail(t.p, e, "unsupported type %s", ty)
	}
	return it
}

func (t *ftr) constNat(e ast.Expr) (int64, bool) {
	tv, ok := t.p.Info.Types[e]
	if !ok || tv.Value == nil {
		return 0, false
	}
	v, ok := constant.Int64Val(constant.ToInt(tv.Value))
	return v, ok
}

// affine index c*i+k in the loop variable
func (t *ftr) affine(e ast.Expr) (c, k int64) {
	if v, ok := t.constNat(e); ok {
		return 0, v
	}
	switch x := e.(type) {
	case *ast.ParenExpr:
		return t.affine(x.X)
	case *ast.Ident:
		if x.Name == t.loopVar {
			return 1, 0
		}
	case *ast.BinaryExpr:
		switch x.Op {
		case token.ADD:
			c1, k1 := t.affine(x.X)
			c2, k2 := t.affine(x.Y)
			return c1 + c2, k1 + k2
		case token.MUL:
			c1, k1 := t.affine(x.X)
			c2, k2 := t.affine(x.Y)
			if c1 == 0 {
				return k1 * c2, k1 * k2
			}
			if c2 == 0 {
				return c1 * k2, k1 * k2
			}
		}
	}
	bail(t.p, e, "index is not affine in the loop counter")
	return
}

func (t *ftr) arrName(e ast.Expr) string {
	switch x := e.(type) {
	case *ast.Ident:
		return x.Name
	case *ast.SelectorExpr:
		if id, ok := x.X.(*ast.Ident); ok && x.Sel.Name == "coeffs" {
			return id.Name
		}
	}
	bail(t.p, e, "unsupported array expression")
	return ""
}

func (t *ftr) cell(x *ast.IndexExpr) string {
	if t.loopVar == "" {
		bail(t.p, x, "indexing outside lane mode")
	}
	arr := t.arrName(x.X)
	c, k := t.affine(x.Index)
	if old, ok := t.strides[arr]; ok && old != c && !(old == 0 || c == 0) {
		bail(t.p, x, "inconsistent stride for %s", arr)
	}
	if c != 0 || t.strides[arr] == 0 {
		t.strides[arr] = c
	}
	return fmt.Sprintf("%s_%d", arr, k)
}

func (t *ftr) readName(name string, e ast.Expr) string {
	if !t.assigned[name] {
		if t.loopVar == "" {
			return sanitize(name) // function parameter
		}
		if _, ok := t.inputTy[name]; !ok {
			t.inputs = append(t.inputs, name)
			t.inputTy[name] = t.typeOf(e)
		}
	}
	return sanitize(name)
}

func (t *ftr) expr(e ast.Expr) string {
	if tv, ok := t.p.Info.Types[e]; ok && tv.Value != nil && !tv.IsType() {
		it := t.typeOf(e)
		if it.isBool {
			if constant.BoolVal(tv.Value) {
				return "true"
			}
			return "false"
		}
		return leanLit(constant.ToInt(tv.Value), it)
	}
	switch x := e.(type) {
	case *ast.ParenExpr:
		return t.expr(x.X)
	case *ast.Ident:
		return t.readName(x.Name, x)
	case *ast.StarExpr:
		if id, ok := x.X.(*ast.Ident); ok {
			return t.readName(id.Name, x)
		}
	case *ast.IndexExpr:
		return t.readName(t.cell(x), x)
	case *ast.UnaryExpr:
		switch x.Op {
		case token.SUB:
			return "(-" + t.expr(x.X) + ")"
		case token.XOR:
			return "(~~~" + t.expr(x.X) + ")"
		case token.NOT:
			return "(!" + t.expr(x.X) + ")"
		case token.ADD:
			return t.expr(x.X)
		}
	case *ast.BinaryExpr:
		return t.binary(x)
	case *ast.CallExpr:
		if tv, ok := t.p.Info.Types[x.Fun]; ok && tv.IsType() {
			return t.conv(x)
		}
		if id, ok := x.Fun.(*ast.Ident); ok {
			if ln, ok := t.local[id.Name]; ok && len(t.localOut[id.Name]) == 0 {
				var args []string
				for _, a := range x.Args {
					args = append(args, t.expr(a))
				}
				return "(" + ln + " " + strings.Join(args, " ") + ")"
			}
		}
	}
	bail(t.p, e, "unsupported expression %T", e)
	return ""
}

func (t *ftr) conv(x *ast.CallExpr) string {
	from := t.typeOf(x.Args[0])
	to := t.typeOf(x)
	a := t.expr(x.Args[0])
	if from.isBool || to.isBool {
		bail(t.p, x, "bool conversion")
	}
	switch {
	case to.w == from.w:
		return a
	case to.w < from.w:
		return fmt.Sprintf("(BitVec.setWidth %d %s)", to.w, a)
	case from.signed:
		return fmt.Sprintf("(BitVec.signExtend %d %s)", to.w, a)
	default:
		return fmt.Sprintf("(BitVec.setWidth %d %s)", to.w, a)
	}
}

func (t *ftr) binary(x *ast.BinaryExpr) string {
	switch x.Op {
	case token.LAND:
		return "(" + t.expr(x.X) + " && " + t.expr(x.Y) + ")"
	case token.LOR:
		return "(" + t.expr(x.X) + " || " + t.expr(x.Y) + ")"
	}
	lt := t.typeOf(x.X)
	l := t.expr(x.X)
	switch x.Op {
	case token.SHL, token.SHR:
		n, ok := t.constNat(x.Y)
		if !ok {
			bail(t.p, x, "shift by a non-constant")
		}
		if x.Op == token.SHL {
			return fmt.Sprintf("(%s <<< %d)", l, n)
		}
		if lt.signed {
			return fmt.Sprintf("(BitVec.sshiftRight %s %d)", l, n)
		}
		return fmt.Sprintf("(%s >>> %d)", l, n)
	}
	r := t.expr(x.Y)
	switch x.Op {
	case token.ADD:
		return "(" + l + " + " + r + ")"
	case token.SUB:
		return "(" + l + " - " + r + ")"
	case token.MUL:
		return "(" + l + " * " + r + ")"
	case token.AND:
		return "(" + l + " &&& " + r + ")"
	case token.OR:
		return "(" + l + " ||| " + r + ")"
	case token.XOR:
		return "(" + l + " ^^^ " + r + ")"
	case token.AND_NOT:
		return "(" + l + " &&& ~~~" + r + ")"
	case token.EQL:
		return "(" + l + " == " + r + ")"
	case token.NEQ:
		return "(" + l + " != " + r + ")"
	case token.LSS, token.LEQ, token.GTR, token.GEQ:
		if x.Op == token.GTR || x.Op == token.GEQ {
			l, r = r, l
		}
		strict := x.Op == token.LSS || x.Op == token.GTR
		fn := map[[2]bool]string{{true, true}: "BitVec.slt", {true, false}: "BitVec.sle", {false, true}: "BitVec.ult", {false, false}: "BitVec.ule"}[[2]bool{lt.signed, strict}]
		return fmt.Sprintf("(%s %s %s)", fn, l, r)
	}
	bail(t.p, x, "unsupported operator %s", x.Op)
	return ""
}

func (t *ftr) lhsName(e ast.Expr) string {
	switch x := e.(type) {
	case *ast.Ident:
		return x.Name
	case *ast.StarExpr:
		if id, ok := x.X.(*ast.Ident); ok {
			return id.Name
		}
	case *ast.IndexExpr:
		c := t.cell(x)
		arr := t.arrName(x.X)
		if t.isParam(arr) {
			t.outCells[c] = t.typeOf(x)
		}
		return c
	}
	bail(t.p, e, "unsupported assignment target")
	return ""
}

func (t *ftr) isParam(name string) bool {
	for _, f := range t.fn.Type.Params.List {
		for _, n := range f.Names {
			if n.Name == name {
				return true
			}
		}
	}
	return false
}

var opOf = map[token.Token]token.Token{token.ADD_ASSIGN: token.ADD, token.SUB_ASSIGN: token.SUB, token.MUL_ASSIGN: token.MUL,
	token.AND_ASSIGN: token.AND, token.OR_ASSIGN: token.OR, token.XOR_ASSIGN: token.XOR, token.SHL_ASSIGN: token.SHL, token.SHR_ASSIGN: token.SHR}

// stmts renders a statement list as a Lean term; `tail` is the term used when control falls off the end.
func (t *ftr) stmts(list []ast.Stmt, tail func() string, ind string) string {
	if len(list) == 0 {
		return ind + tail()
	}
	s, rest := list[0], list[1:]
	switch x := s.(type) {
	case *ast.DeclStmt:
		gd := x.Decl.(*ast.GenDecl)
		out := ""
		for _, sp := range gd.Specs {
			vs := sp.(*ast.ValueSpec)
			for i, n := range vs.Names {
				ty := t.p.Info.TypeOf(n)
				it, ok := basicOf(ty)
				if !ok {
					if _, isArr := ty.Underlying().(*types.Array); isArr {
						continue // local scratch array: cells are introduced on first write
					}
					bail(t.p, n, "unsupported local type %s", ty)
				}
				val := fmt.Sprintf("0#%d", it.w)
				if i < len(vs.Values) {
					val = t.expr(vs.Values[i])
				}
				t.assigned[n.Name] = true
				out += fmt.Sprintf("%slet %s : BitVec %d := %s\n", ind, sanitize(n.Name), it.w, val)
			}
		}
		return out + t.stmts(rest, tail, ind)
	case *ast.AssignStmt:
		if len(x.Lhs) != 1 || len(x.Rhs) != 1 {
			bail(t.p, x, "multi-assignment")
		}
		// call with out-parameters: a1 = decompose(&a0, a)
		if call, ok := x.Rhs[0].(*ast.CallExpr); ok {
			if id, ok := call.Fun.(*ast.Ident); ok && len(t.localOut[id.Name]) > 0 {
				var args, outs []string
				for _, a := range call.Args {
					if u, ok := a.(*ast.UnaryExpr); ok && u.Op == token.AND {
						outs = append(outs, t.lhsName(u.X))
					} else {
						args = append(args, t.expr(a))
					}
				}
				ret := t.lhsName(x.Lhs[0])
				t.assigned[ret] = true
				pat := sanitize(ret)
				for _, o := range outs {
					t.assigned[o] = true
					pat += ", " + sanitize(o)
				}
				return fmt.Sprintf("%slet (%s) := %s %s\n", ind, pat, t.local[id.Name], strings.Join(args, " ")) + t.stmts(rest, tail, ind)
			}
		}
		var rhs string
		if op, ok := opOf[x.Tok]; ok {
			rhs = t.binary(&ast.BinaryExpr{X: x.Lhs[0], Op: op, Y: x.Rhs[0], OpPos: x.TokPos})
		} else {
			rhs = t.expr(x.Rhs[0])
		}
		name := t.lhsName(x.Lhs[0])
		it := t.typeOf(x.Lhs[0])
		t.assigned[name] = true
		return fmt.Sprintf("%slet %s : BitVec %d := %s\n", ind, sanitize(name), it.w, rhs) + t.stmts(rest, tail, ind)
	case *ast.IncDecStmt:
		bail(t.p, x, "inc/dec")
	case *ast.ReturnStmt:
		return ind + t.ret(x)
	case *ast.IfStmt:
		if x.Init != nil {
			bail(t.p, x, "if with init")
		}
		cond := t.expr(x.Cond)
		saved := t.snapshot()
		var thenT string
		if n := len(x.Body.List); n > 0 && isReturn(x.Body.List[n-1]) {
			thenT = t.stmts(x.Body.List, func() string { bail(t.p, x, "if-branch falls through"); return "" }, ind+"  ")
		} else {
			// the branch falls through: what follows the `if` is translated once more behind the branch's own statements
			thenT = t.stmts(append(append([]ast.Stmt{}, x.Body.List...), rest...), tail, ind+"  ")
		}
		t.restore(saved)
		var elseT string
		if x.Else != nil {
			eb, ok := x.Else.(*ast.BlockStmt)
			if !ok {
				eb = &ast.BlockStmt{List: []ast.Stmt{x.Else}}
			}
			elseT = t.stmts(append(append([]ast.Stmt{}, eb.List...), rest...), tail, ind+"  ")
		} else {
			elseT = t.stmts(rest, tail, ind+"  ")
		}
		return fmt.Sprintf("%sif %s then\n%s\n%selse\n%s", ind, cond, thenT, ind, elseT)
	}
	bail(t.p, s, "unsupported statement %T", s)
	return ""
}

func isReturn(s ast.Stmt) bool {
	_, ok := s.(*ast.ReturnStmt)
	return ok
}

func (t *ftr) snapshot() map[string]bool {
	m := map[string]bool{}
	for k, v := range t.assigned {
		m[k] = v
	}
	return m
}
func (t *ftr) restore(m map[string]bool) { t.assigned = m }

func (t *ftr) ret(x *ast.ReturnStmt) string {
	var parts []string
	for _, r := range x.Results {
		parts = append(parts, t.expr(r))
	}
	var outs []string
	for o := range t.outParam {
		outs = append(outs, o)
	}
	sort.Strings(outs)
	for _, o := range outs {
		parts = append(parts, sanitize(o))
	}
	if t.loopVar != "" {
		return "some (" + strings.Join(parts, ", ") + ")"
	}
	if len(parts) == 1 {
		return parts[0]
	}
	return "(" + strings.Join(parts, ", ") + ")"
}

func newFtr(p *Pkg, fn *ast.FuncDecl, local map[string]string, localOut map[string][]string) *ftr {
	return &ftr{p: p, fn: fn, strides: map[string]int64{}, assigned: map[string]bool{}, inputTy: map[string]ity{},
		outCells: map[string]ity{}, outParam: map[string]bool{}, local: local, localOut: localOut}
}

func leanTy(it ity) string {
	if it.isBool {
		return "Bool"
	}
	return fmt.Sprintf("BitVec %d", it.w)
}

// scalarFunc translates a whole straight-line function.
func scalarFunc(p *Pkg, name, leanName string, local map[string]string, localOut map[string][]string) (string, []string) {
	fn := p.Funcs[name]
	if fn == nil {
		panic(untranslatable{"function " + name + " not found in " + p.Path})
	}
	t := newFtr(p, fn, local, localOut)
	var params, outs []string
	for _, f := range fn.Type.Params.List {
		ty := p.Info.TypeOf(f.Type)
		for _, n := range f.Names {
			if ptr, ok := ty.Underlying().(*types.Pointer); ok {
				if _, ok := basicOf(ptr.Elem()); !ok {
					bail(p, f, "unsupported pointer parameter")
				}
				t.outParam[n.Name] = true
				outs = append(outs, n.Name)
				continue
			}
			it, ok := basicOf(ty)
			if !ok {
				bail(p, f, "unsupported parameter type %s", ty)
			}
			params = append(params, fmt.Sprintf("(%s : %s)", sanitize(n.Name), leanTy(it)))
		}
	}
	var rts []string
	if fn.Type.Results != nil {
		for _, f := range fn.Type.Results.List {
			it, ok := basicOf(p.Info.TypeOf(f.Type))
			if !ok {
				bail(p, f, "unsupported result type")
			}
			rts = append(rts, leanTy(it))
		}
	}
	sort.Strings(outs)
	for _, o := range outs {
		for _, f := range fn.Type.Params.List {
			for _, n := range f.Names {
				if n.Name == o {
					it, _ := basicOf(p.Info.TypeOf(f.Type).Underlying().(*types.Pointer).Elem())
					rts = append(rts, leanTy(it))
				}
			}
		}
	}
	body := t.stmts(fn.Body.List, func() string { bail(p, fn, "function falls off the end"); return "" }, "  ")
	return fmt.Sprintf("def %s %s : %s :=\n%s\n", leanName, strings.Join(params, " "), strings.Join(rts, " × "), body), outs
}

// laneFunc translates the body of the single counting loop of a function into a lane function.
type laneInfo struct {
	Name              string
	Iters             int64
	InArr, OutArr     string
	InStride, OutStride int64
	NIn, NOut         int
	HasExit           bool
}

func laneFunc(p *Pkg, name, leanName string) (string, laneInfo) {
	fn := p.Funcs[name]
	if fn == nil {
		panic(untranslatable{"function " + name + " not found in " + p.Path})
	}
	t := newFtr(p, fn, map[string]string{}, map[string][]string{})
	var loop *ast.ForStmt
	var pre []ast.Stmt
	for _, s := range fn.Body.List {
		if f, ok := s.(*ast.ForStmt); ok {
			if loop != nil {
				bail(p, s, "more than one loop")
			}
			loop = f
			continue
		}
		if loop == nil {
			pre = append(pre, s)
		}
	}
	if loop == nil {
		bail(p, fn, "no loop")
	}
	// for i := 0; i < C; i++
	init, ok := loop.Init.(*ast.AssignStmt)
	if !ok || len(init.Lhs) != 1 {
		bail(p, loop, "loop init")
	}
	t.loopVar = init.Lhs[0].(*ast.Ident).Name
	if v, ok := t.constNat(init.Rhs[0]); !ok || v != 0 {
		bail(p, loop, "loop does not start at 0")
	}
	cond, ok := loop.Cond.(*ast.BinaryExpr)
	if !ok || cond.Op != token.LSS {
		bail(p, loop, "loop condition")
	}
	iters, ok := t.constNat(cond.Y)
	if !ok {
		bail(p, loop, "loop bound is not constant")
	}
	if inc, ok := loop.Post.(*ast.IncDecStmt); !ok || inc.Tok != token.INC {
		bail(p, loop, "loop post")
	}
	// pre-loop statements: only declarations (scratch) and guards of the form `if c { return k }` are allowed;
	// guards are emitted separately as <name>_guard.
	var guards []string
	var scal []string
	for _, f := range fn.Type.Params.List {
		if it, ok := basicOf(p.Info.TypeOf(f.Type)); ok {
			for _, n := range f.Names {
				scal = append(scal, fmt.Sprintf("(%s : %s)", sanitize(n.Name), leanTy(it)))
			}
		}
	}
	for _, s := range pre {
		switch x := s.(type) {
		case *ast.DeclStmt:
		case *ast.IfStmt:
			lv := t.loopVar
			t.loopVar = ""
			guards = append(guards, t.expr(x.Cond))
			t.loopVar = lv
		default:
			bail(p, s, "unsupported pre-loop statement")
		}
	}
	hasExit := false
	body := t.stmts(loop.Body.List, func() string { return "@@TAIL@@" }, "  ")
	if strings.Contains(body, "some (") {
		hasExit = true
	}
	// outputs
	var outNames []string
	outArr := ""
	for c := range t.outCells {
		outNames = append(outNames, c)
		a := c[:strings.LastIndex(c, "_")]
		if outArr != "" && outArr != a {
			bail(p, fn, "more than one output array")
		}
		outArr = a
	}
	sort.Slice(outNames, func(i, j int) bool { return cellOff(outNames[i]) < cellOff(outNames[j]) })
	for i, c := range outNames {
		if cellOff(c) != int64(i) {
			bail(p, fn, "output cells are not contiguous")
		}
	}
	inArr := ""
	ins := append([]string{}, t.inputs...)
	var cellIns []string
	for _, c := range ins {
		if i := strings.LastIndex(c, "_"); i > 0 && t.isParam(c[:i]) {
			a := c[:i]
			if inArr != "" && inArr != a {
				bail(p, fn, "more than one input array")
			}
			inArr = a
			cellIns = append(cellIns, c)
		} else if !t.isParam(c) {
			bail(p, fn, "read of unassigned local %s", c)
		}
	}
	sort.Slice(cellIns, func(i, j int) bool { return cellOff(cellIns[i]) < cellOff(cellIns[j]) })
	for i, c := range cellIns {
		if cellOff(c) != int64(i) {
			bail(p, fn, "input cells are not contiguous")
		}
	}
	var params []string
	params = append(params, scal...)
	for _, c := range cellIns {
		params = append(params, fmt.Sprintf("(%s : %s)", sanitize(c), leanTy(t.inputTy[c])))
	}
	var sb strings.Builder
	if hasExit {
		// body returns Option of the early-return value
		fmt.Fprintf(&sb, "def %s_exit %s : Option (BitVec 64) :=\n%s\n\n", leanName, strings.Join(params, " "), strings.Replace(body, "@@TAIL@@", "none", -1))
	}
	if len(outNames) > 0 {
		if hasExit {
			bail(p, fn, "lane with both outputs and an early exit")
		}
		var outs []string
		for _, c := range outNames {
			outs = append(outs, sanitize(c))
		}
		oty := leanTy(t.outCells[outNames[0]])
		b2 := strings.Replace(body, "@@TAIL@@", "["+strings.Join(outs, ", ")+"]", -1)
		fmt.Fprintf(&sb, "def %s_lane %s : List (%s) :=\n%s\n\n", leanName, strings.Join(params, " "), oty, b2)
	}
	for i, g := range guards {
		fmt.Fprintf(&sb, "def %s_guard%d %s : Bool := %s\n\n", leanName, i, strings.Join(scal, " "), g)
	}
	li := laneInfo{Name: leanName, Iters: iters, InArr: inArr, OutArr: outArr, InStride: t.strides[inArr], OutStride: t.strides[outArr],
		NIn: len(cellIns), NOut: len(outNames), HasExit: hasExit}
	fmt.Fprintf(&sb, "def %s_iters : Nat := %d\ndef %s_inStride : Nat := %d\ndef %s_outStride : Nat := %d\n", leanName, iters, leanName, li.InStride, leanName, li.OutStride)
	return sb.String(), li
}

func cellOff(c string) int64 {
	var k int64
	fmt.Sscanf(c[strings.LastIndex(c, "_")+1:], "%d", &k)
	return k
}
