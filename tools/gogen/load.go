package main

import (
	"fmt"
	"go/ast"
	"go/build"
	"go/importer"
	"go/parser"
	"go/token"
	"go/types"
	"os"
	"path/filepath"
	"sort"
	"strings"
)

// Pkg is one type-checked package of the repository (non-test files, no build tags).
type Pkg struct {
	Path  string
	Dir   string
	Fset  *token.FileSet
	Files []*ast.File
	Info  *types.Info
	Types *types.Package
	Funcs map[string]*ast.FuncDecl // "name" or "Recv.name"
}

type repoImporter struct {
	root   string
	fset   *token.FileSet
	cache  map[string]*Pkg
	std    types.Importer
	module string
}

func (ri *repoImporter) Import(path string) (*types.Package, error) {
	if strings.HasPrefix(path, ri.module) {
		p, err := ri.load(path)
		if err != nil {
			return nil, err
		}
		return p.Types, nil
	}
	return ri.std.Import(path)
}

func (ri *repoImporter) load(path string) (*Pkg, error) {
	if p, ok := ri.cache[path]; ok {
		return p, nil
	}
	rel := strings.TrimPrefix(strings.TrimPrefix(path, ri.module), "/")
	dir := filepath.Join(ri.root, rel)
	ents, err := os.ReadDir(dir)
	if err != nil {
		return nil, err
	}
	var files []*ast.File
	var names []string
	for _, e := range ents {
		n := e.Name()
		if !strings.HasSuffix(n, ".go") || strings.HasSuffix(n, "_test.go") {
			continue
		}
		names = append(names, n)
	}
	sort.Strings(names)
	ctx := build.Default
	for _, n := range names {
		ok, err := ctx.MatchFile(dir, n) // honours build tags: files guarded by `verif` are excluded
		if err != nil || !ok {
			continue
		}
		f, err := parser.ParseFile(ri.fset, filepath.Join(dir, n), nil, parser.ParseComments)
		if err != nil {
			return nil, err
		}
		files = append(files, f)
	}
	info := &types.Info{
		Types: map[ast.Expr]types.TypeAndValue{},
		Defs:  map[*ast.Ident]types.Object{},
		Uses:  map[*ast.Ident]types.Object{},
	}
	conf := types.Config{Importer: ri, Error: func(err error) {}}
	tp, err := conf.Check(path, ri.fset, files, info)
	if err != nil {
		return nil, fmt.Errorf("type-check %s: %v", path, err)
	}
	p := &Pkg{Path: path, Dir: dir, Fset: ri.fset, Files: files, Info: info, Types: tp, Funcs: map[string]*ast.FuncDecl{}}
	for _, f := range files {
		for _, d := range f.Decls {
			if fd, ok := d.(*ast.FuncDecl); ok {
				name := fd.Name.Name
				if fd.Recv != nil && len(fd.Recv.List) == 1 {
					t := fd.Recv.List[0].Type
					if s, ok := t.(*ast.StarExpr); ok {
						t = s.X
					}
					if id, ok := t.(*ast.Ident); ok {
						name = id.Name + "." + name
					}
				}
				p.Funcs[name] = fd
			}
		}
	}
	ri.cache[path] = p
	return p, nil
}

func newImporter(root string) *repoImporter {
	fset := token.NewFileSet()
	return &repoImporter{root: root, fset: fset, cache: map[string]*Pkg{},
		std: importer.ForCompiler(fset, "source", nil), module: "github.com/theQRL/go-qrllib"}
}
