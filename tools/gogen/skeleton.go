package main

import (
	"fmt"
	"go/ast"
	"go/constant"
	"go/token"
	"go/types"
	"strings"
)

// skeleton prints a canonical listing of a function: one line per statement with callee names,
// constant-folded arguments, comparison operators and loop bounds. Local identifiers are not printed,
// so renames do not change it; constants are printed by value, so `Q-1` and `8380416` coincide.
func skeleton(p *Pkg, fn *ast.FuncDecl) []string {
	var out []string
	var ex func(e ast.Expr) string
	ex = func(e ast.Expr) string {
		if e == nil {
			return ""
		}
		if tv, ok := p.Info.Types[e]; ok && tv.Value != nil && !tv.IsType() {
			if tv.Value.Kind() == constant.String {
				return "\"" + constant.StringVal(tv.Value) + "\""
			}
			return tv.Value.ExactString()
		}
		switch x := e.(type) {
		case *ast.ParenExpr:
			return ex(x.X)
		case *ast.Ident:
			if obj := p.Info.Uses[x]; obj != nil && obj.Parent() == p.Types.Scope() {
				return x.Name // package-level object
			}
			return "_"
		case *ast.SelectorExpr:
			if id, ok := x.X.(*ast.Ident); ok {
				if _, isPkg := p.Info.Uses[id].(*types.PkgName); isPkg {
					return id.Name + "." + x.Sel.Name
				}
			}
			return ex(x.X) + "." + x.Sel.Name
		case *ast.BasicLit:
			return x.Value
		case *ast.StarExpr:
			return "*" + ex(x.X)
		case *ast.UnaryExpr:
			return x.Op.String() + ex(x.X)
		case *ast.BinaryExpr:
			return "(" + ex(x.X) + x.Op.String() + ex(x.Y) + ")"
		case *ast.IndexExpr:
			return ex(x.X) + "[" + ex(x.Index) + "]"
		case *ast.SliceExpr:
			return ex(x.X) + "[" + ex(x.Low) + ":" + ex(x.High) + "]"
		case *ast.CallExpr:
			var as []string
			for _, a := range x.Args {
				as = append(as, ex(a))
			}
			return calleeName(p, x.Fun) + "(" + strings.Join(as, ",") + ")"
		case *ast.CompositeLit:
			var as []string
			for _, a := range x.Elts {
				as = append(as, ex(a))
			}
			return "lit{" + strings.Join(as, ",") + "}"
		case *ast.KeyValueExpr:
			return ex(x.Key) + ":" + ex(x.Value)
		case *ast.ArrayType:
			return "[" + ex(x.Len) + "]" + ex(x.Elt)
		case *ast.FuncLit:
			return "func"
		case *ast.TypeAssertExpr:
			return ex(x.X) + ".(type)"
		}
		return fmt.Sprintf("<%T>", e)
	}
	var st func(s ast.Stmt, d int)
	block := func(b *ast.BlockStmt, d int) {
		if b == nil {
			return
		}
		for _, s := range b.List {
			st(s, d)
		}
	}
	emit := func(d int, f string, a ...interface{}) {
		out = append(out, strings.Repeat(" ", d)+fmt.Sprintf(f, a...))
	}
	st = func(s ast.Stmt, d int) {
		switch x := s.(type) {
		case nil:
		case *ast.BlockStmt:
			block(x, d)
		case *ast.ExprStmt:
			emit(d, "%s", ex(x.X))
		case *ast.AssignStmt:
			var l, r []string
			for _, e := range x.Lhs {
				l = append(l, ex(e))
			}
			for _, e := range x.Rhs {
				r = append(r, ex(e))
			}
			tok := x.Tok.String()
			if x.Tok == token.DEFINE {
				tok = "="
			}
			emit(d, "%s %s %s", strings.Join(l, ","), tok, strings.Join(r, ","))
		case *ast.IncDecStmt:
			emit(d, "%s%s", ex(x.X), x.Tok)
		case *ast.DeclStmt:
			if gd, ok := x.Decl.(*ast.GenDecl); ok {
				for _, sp := range gd.Specs {
					if vs, ok := sp.(*ast.ValueSpec); ok {
						var r []string
						for _, v := range vs.Values {
							r = append(r, ex(v))
						}
						ty := ""
						if vs.Type != nil {
							ty = p.Info.TypeOf(vs.Type).String()
							ty = strings.ReplaceAll(ty, "github.com/theQRL/go-qrllib/", "")
						}
						emit(d, "var*%d %s = %s", len(vs.Names), ty, strings.Join(r, ","))
					}
				}
			}
		case *ast.ReturnStmt:
			var r []string
			for _, e := range x.Results {
				r = append(r, ex(e))
			}
			emit(d, "return %s", strings.Join(r, ","))
		case *ast.IfStmt:
			st(x.Init, d)
			emit(d, "if %s", ex(x.Cond))
			block(x.Body, d+1)
			if x.Else != nil {
				emit(d, "else")
				st(x.Else, d+1)
			}
		case *ast.ForStmt:
			init, post := "", ""
			if a, ok := x.Init.(*ast.AssignStmt); ok && len(a.Rhs) == 1 {
				init = ex(a.Rhs[0])
			}
			switch q := x.Post.(type) {
			case *ast.IncDecStmt:
				post = q.Tok.String()
			case *ast.AssignStmt:
				post = q.Tok.String() + ex(q.Rhs[0])
			}
			emit(d, "for %s; %s; %s", init, ex(x.Cond), post)
			block(x.Body, d+1)
		case *ast.RangeStmt:
			emit(d, "range %s", ex(x.X))
			block(x.Body, d+1)
		case *ast.SwitchStmt:
			st(x.Init, d)
			emit(d, "switch %s", ex(x.Tag))
			for _, c := range x.Body.List {
				cc := c.(*ast.CaseClause)
				var r []string
				for _, e := range cc.List {
					r = append(r, ex(e))
				}
				if cc.List == nil {
					emit(d+1, "default")
				} else {
					emit(d+1, "case %s", strings.Join(r, ","))
				}
				for _, s := range cc.Body {
					st(s, d+2)
				}
			}
		case *ast.BranchStmt:
			l := ""
			if x.Label != nil {
				l = x.Label.Name
			}
			emit(d, "%s %s", x.Tok, l)
		case *ast.LabeledStmt:
			emit(d, "label %s", x.Label.Name)
			st(x.Stmt, d)
		case *ast.EmptyStmt:
		default:
			emit(d, "<%T>", s)
		}
	}
	block(fn.Body, 0)
	return out
}

func calleeName(p *Pkg, e ast.Expr) string {
	switch x := e.(type) {
	case *ast.Ident:
		return x.Name
	case *ast.SelectorExpr:
		if id, ok := x.X.(*ast.Ident); ok {
			if _, isPkg := p.Info.Uses[id].(*types.PkgName); isPkg {
				return id.Name + "." + x.Sel.Name
			}
		}
		return "." + x.Sel.Name
	case *ast.ParenExpr:
		return calleeName(p, x.X)
	case *ast.ArrayType:
		return "[]T"
	}
	return "?"
}
