module gogen

go 1.18
