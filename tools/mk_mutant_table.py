#!/usr/bin/env python3
"""mk_mutant_table.py — rewrite the table of §11 of DESIGN.md from seeded/*/meta.json (between the two marker lines)."""
import json, os, re
V = os.path.dirname(os.path.dirname(os.path.abspath(__file__)))
rows = []
for mid in sorted(os.listdir(os.path.join(V, "seeded"))):
    mp = os.path.join(V, "seeded", mid, "meta.json")
    if not os.path.exists(mp): continue
    m = json.load(open(mp))
    title = re.sub(r"^(C\d+ ?/ ?)?(mutant )?m\d\s*[—-]\s*", "", m["title"], flags=re.I).strip()
    title = re.sub(r"^(C\d+ mutant m\d|Mutant m\d)\s*[—-]\s*", "", title).strip()
    for c in m.get("checks", []) or [dict(check="—", exit_code="—", reported=[], concrete_failing_input=None, first_broken_obligation=None)]:
        if c.get("concrete_failing_input"):
            how = "concrete input: " + ", ".join(sorted(set(re.sub(r"^C\d+-|-seed\d+\.json$", "", r) for r in c.get("reported", [])))[:3])
        elif c.get("exit_code") == 1:
            how = "no-failing-input-found"
        else:
            how = "not run / missed"
        br = c.get("first_broken_obligation") or ""
        br = re.sub(r"\(QrlModel/[^)]*\)", "", br).strip()
        rows.append("| %s | %s | %s | %s | %s |" % (mid, title[:90], c.get("check"), how, br[:60]))
tab = "| id | change | check | reported as | first broken obligation |\n|---|---|---|---|---|\n" + "\n".join(rows)
p = os.path.join(V, "DESIGN.md")
s = open(p).read()
a, b = "<!-- mutant-table:begin -->", "<!-- mutant-table:end -->"
if a in s:
    s = s[:s.index(a) + len(a)] + "\n" + tab + "\n" + s[s.index(b):]
else:
    s = s.replace("(table: see the end of this section after the latest sweep)", a + "\n" + tab + "\n" + b)
open(p, "w").write(s)
print(len(rows), "rows")
