#!/bin/bash
# confirm_mutant.sh <srcdir with patch.diff + demo|demo_test.go> <id>
# Confirms in a fresh scratch worktree of /repo: patch applies, builds, whole suite passes, demo fails with it, passes without.
# On success copies the mutant to /verif/seeded/<id>/ and writes meta.json skeleton (ran= fields).
set -u
src=$1; id=$2
export GOFLAGS=-mod=mod GOPROXY=off GOSUMDB=off GOTOOLCHAIN=local
wt=/tmp/confirm-$id
git -C /repo worktree remove --force $wt >/dev/null 2>&1; rm -rf $wt
git -C /repo worktree add -q --detach $wt HEAD || exit 2
cd $wt
rundemo() {
  if [ -d $src/demo ]; then mkdir -p _mutant/x && cp -r $src/demo _mutant/x/ && go run ./_mutant/x/demo >/tmp/confirm-$id.demo.log 2>&1; rc=$?; rm -rf _mutant; return $rc
  else pkg=$(grep -o 'directory  *[a-z/-]*/' $src/demo_test.go | head -1 | awk '{print $2}'); [ -z "$pkg" ] && pkg=xmss/; cp $src/demo_test.go $pkg/zz_demo_test.go; go test -vet=off -count=1 -run 'Test(C[0-9]+[mM]|M[0-9])' ./$pkg >/tmp/confirm-$id.demo.log 2>&1; rc=$?; rm -f $pkg/zz_demo_test.go; return $rc; fi
}
res=ok
rundemo; clean_rc=$?
[ $clean_rc -ne 0 ] && res="demo-fails-on-clean-tree"
git apply $src/patch.diff || res="patch-does-not-apply"
go build ./... >/dev/null 2>&1 || res="does-not-build"
go test -vet=off -count=1 ./... >/tmp/confirm-$id.suite.log 2>&1 || res="suite-fails"
rundemo; mut_rc=$?
[ $mut_rc -eq 0 ] && res="demo-passes-with-mutant"
cd /; git -C /repo worktree remove --force $wt
echo "$id: $res (demo clean rc=$clean_rc, mutant rc=$mut_rc)"
if [ "$res" = ok ]; then
  mkdir -p /verif/seeded/$id && cp -r $src/patch.diff $src/notes.md /verif/seeded/$id/ && { [ -d $src/demo ] && cp -r $src/demo /verif/seeded/$id/ || cp $src/demo_test.go /verif/seeded/$id/; }
fi
