#!/bin/bash
# regenerate the generated Lean layer from /repo's current working tree (what ./check does first)
exec /verif/tools/bin/gogen -repo "${VERIF_REPO:-/repo}" -out /verif/lean/QrlModel/Gen
