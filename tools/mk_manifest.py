#!/usr/bin/env python3
"""Writes /verif/MANIFEST.json from the table below (kept next to the checks so it stays current)."""
import json, os, subprocess
V = os.path.dirname(os.path.dirname(os.path.abspath(__file__)))
props = [json.loads(l) for l in open(os.path.join(V, "properties.jsonl"))]

CLAIMS = {
 "C10": dict(technique="Lean 4 proof (induction over byte strings / phrases; kernel evaluation of the whole regenerated 4096-word table) + correspondence check",
   text="Theorems (all byte strings, all phrases): dec(enc b)=b for every non-empty b with length a multiple of 3 (48 and 51 are instances, through the sized entry points), enc injective, enc(dec p)=p for every phrase of an even number of list words, refusal of odd word counts and of any token outside the list (empty tokens from irregular spacing, upper case, tabs, non-ASCII), decoder never faults. Word-list facts (4096 entries, a..z, duplicate-free) are decide+kernel over the table regenerated from /repo on every run. The model is tied to the code by skeleton digests and by a differential run (every 12-bit value at word positions, malformed phrases).",
   note="Lean kernel; axioms propext, Classical.choice, Quot.sound; strings.Split/map semantics modelled; model↔code tie = gogen (word list regenerated) + skeleton digests + correspondence run", ref="§7 C10"),
 "C11": dict(technique="Lean 4 proof (arithmetic/omega over all descriptor values; hash functions as parameters) + correspondence check",
   text="Theorems for arbitrary hash functions: address = re-encoded descriptor ‖ SHAKE256(pk)[15..32] (XMSS) / 0x10 ‖ SHAKE256(pk)[13..32] (Dilithium); own-valid and other-invalid in both directions; the two address spaces are disjoint; decode(encode d)=d for every nibble-valued field combination and even height ≤ 30; legacy validity ⇔ format nibble 0 ∧ checksum; derived legacy addresses validate. Differential run over all 65 536 descriptor byte pairs, random keys, checksum bit flips.",
   note="Lean kernel; axioms propext, Classical.choice, Quot.sound; SHAKE-256/SHA-256 are parameters; little-endian host", ref="§7 C11"),
 "C16": dict(technique="Lean 4 proof (induction over byte strings; core functions as parameters) + correspondence check",
   text="Theorems for every core function: hexDecode(hexEncode b)=b; prefix stripping is the identity on encoder output and removes exactly one leading 0x; for exact-length well-formed hex in either spelling the verify/address/validity wrappers return exactly what the core returns on the decoded bytes; anything that does not decode gives false / empty string. Differential run on the real wrappers (both spellings, upper case, non-hex strings). Found and repaired: XMSS wrappers rejected 0x-prefixed input (fix: eb2db25).",
   note="Lean kernel; axioms propext, Classical.choice, Quot.sound; encoding/hex modelled; GopherJS object glue out of scope", ref="§7 C16"),
 "C01": dict(technique="Lean 4 proof (kernel evaluation of the label-level BDS traversal per height, WOTS chain-completion theorem by induction, history-independence by induction over operation lists) + correspondence check",
   text="Proved: for h ∈ {4,6,8,10} the traversal stores the true authentication path at every index and key generation returns the root (decide +kernel on the node-value-independent label model, so for every seed and hash function); WOTS: the verifier's chains reproduce the key-generation public key for every hash function, seed, index and digest (w ∈ {4,16,256}); every Sign/forward-SetIndex history reaches the same state (C08). Partial: the composition into Verify(Sign(m)) = true and heights above 10 rest on the correspondence run — whole-life signing at h=4 (3 hash functions, byte-exact against the model), all sign-jump-sign histories at h=4, sampled at h=6/8, and label-mode traversal dumps compared state-by-state with the Lean label model up to h=10 (12 in the thorough tier).",
   note="Lean kernel; axioms propext, Classical.choice, Quot.sound; hash functions are parameters; C01_partial: end-to-end composition and h>10 not yet theorems", ref="§7 C01"),
 "C02": dict(technique="Lean 4 proof (refinement of the key-object state machine to the counter automaton; induction over operation histories) + correspondence check",
   text="Theorems for every key, every 32-byte-output hash function and every history of Sign / SetIndex(j ∈ uint32): the observable outputs (embedded index, refusal) equal those of the counter automaton idx ∈ [0,2^h]; emitted indices are strictly increasing and < 2^h; nothing is emitted after exhaustion; a refused operation returns the identical key object; public key, seed and descriptor never change. Differential run: random and adversarial histories on real keys (h=4,6,8; jumps around 255/256; exhaustion and beyond) with full-state snapshots before/after each refusal.",
   note="Lean kernel; axioms propext, Classical.choice, Quot.sound; guards-before-writes in xmssFastUpdate is modelled and tied by snapshot comparison", ref="§7 C02"),
 "C04": dict(technique="Lean 4 proof (acceptance decision of the verifier stated outright, for all byte strings) + correspondence check with exhaustive bit flips",
   text="Theorem accept_iff: Verify returns true exactly when the descriptor names XMSS, a supported hash function and an even height 4..30, the signature has the exact size for that height, and the recomputed root equals all 32 root bytes; corollaries: unsupported hash ids, height/size mismatches, foreign signature types are never accepted; the verifier reads only the interpreted public-key bits. Bit-flip rejection is a hash property and is covered by exhaustive single-bit-flip runs on the real code (every bit of signature, message, public key). Found and repaired: universal forgery under hash ids 3..15 (fix: 509d77a).",
   note="Lean kernel; axioms propext, Classical.choice, Quot.sound; collision resistance is not a theorem about this code", ref="§7 C04"),
 "C06": dict(technique="Lean 4 executable full-Merkle-tree reference specification compared byte-for-byte with the implementation + Lean theorems on layout/seed expansion",
   text="Spec/XmssRef.lean builds all 2^h leaves and the whole tree with no traversal state; the correspondence run compares PK and signatures (every index at h=4 for SHA2-256, SHAKE-128, SHAKE-256; more heights in the thorough tier; the suite's zero-seed known answers) between the real library and this reference in another language with its own SHA-256/Keccak. Theorems so far: signature layout/index field, seed expansion offsets, Verify = VerifyWithCustomWOTSParamW(16); the traversal theorems of C01 (h ≤ 10) give auth = true path at the label level. Partial: model = reference as a theorem is not finished.",
   note="Lean kernel; axioms propext, Quot.sound; equality with the reference is established by differential execution, not yet by proof (C06_partial)", ref="§7 C06"),
 "C08": dict(technique="Lean 4 proof (state after any history is a function of the index: induction over operation histories) + correspondence check",
   text="Theorems for every key, hash function and history: the whole key object after any sequence of Sign/SetIndex calls equals keyAt(index) — the traversal state is fastForward^{min(i,2^h-1)} of the key-generation state — hence two objects from the same seed driven by any two histories ending at the same index are equal and all later outputs identical (rebuild_continues). The two Go copies of the traversal step (post-signature and fast-forward loop) are tied by skeleton digests and by comparing complete state snapshots of original and rebuilt real objects at every crash index (h=4 all, h=6/8 selected, reached by one jump / several / mixed).",
   note="Lean kernel; axioms propext, Classical.choice, Quot.sound", ref="§7 C08"),
 "C09": dict(technique="Lean 4 proof (composition of the descriptor, mnemonic and hex round-trip theorems) + correspondence check",
   text="Theorems for every seed, even height ≤ 30, hash id and format < 16 and arbitrary hash functions: NewXMSSFromExtendedSeed(GetExtendedSeed(k)) = k and the mnemonic route likewise, as equalities of whole model keys; Dilithium FromHexSeed(GetHexSeed()[2:]) = FromMnemonic(GetMnemonic()) = FromSeed(seed). Differential run: real keys rebuilt from extended seed and mnemonic (PK, address, signatures compared), all heights × hash functions at the descriptor level, random-constructor keys rebuilt from GetSeed.",
   note="Lean kernel; axioms propext, Classical.choice, Quot.sound; crypto/rand is a parameter", ref="§7 C09"),
}

checks = []
for p in props:
    pid = p["id"]
    if pid not in CLAIMS:
        continue
    c = CLAIMS[pid]
    checks.append({
        "property_id": pid,
        "quick_cmd": "./check %s --tier quick" % pid,
        "thorough_cmd": "./check %s --tier thorough" % pid,
        "evidence_file": "/verif/evidence/%s.json" % pid,
        "replay_cmd_template": "./check %s --replay {path}" % pid,
        "engine": "lean-proof+correspondence",
        "level_claimed": {"category": "proof", "text": c["text"], "design_ref": c["ref"]},
        "level_note": c["note"],
        "technique": c["technique"],
    })
na = [{"property_id": p["id"], "reason": "check under construction in this session; not claimed until its theorems and correspondence run exist"} for p in props if p["id"] not in CLAIMS]
hooks = subprocess.run(["git", "-C", "/repo", "log", "--format=%h %s"], capture_output=True, text=True).stdout.splitlines()
hook_commits = [l.split()[0] for l in hooks if "verif hooks" in l]
m = {
 "version": 1,
 "setup_cmd": "./check --setup",
 "hooks": {"guard": "verif", "enable": "go build -tags verif (the harness in /verif/tools/harness is built with it against /repo)",
           "baseline_off_cmd": "cd /repo && go test -vet=off -count=1 ./...", "source_commits": hook_commits, "add_only": True},
 "engines": [{"name": "lean-proof+correspondence", "path": "/verif/check",
              "serves_properties": [c["property_id"] for c in checks],
              "kind_free_text": "Lean 4 theorems about a model of the library (generated layer regenerated from /repo by tools/gogen on every run, hand-written structural layer tied by skeleton digests) + differential correspondence run between the compiled Lean model and the real Go code"}],
 "checks": checks,
 "not_applicable": na,
 "notes": "See DESIGN.md. known_findings.json lists repaired defects (fixed:) and recorded findings.",
}
json.dump(m, open(os.path.join(V, "MANIFEST.json"), "w"), indent=1)
print("claimed:", [c["property_id"] for c in checks])
