#!/usr/bin/env python3
"""Writes /verif/MANIFEST.json from the table below (kept next to the checks so it stays current)."""
import json, os, subprocess
V = os.path.dirname(os.path.dirname(os.path.abspath(__file__)))
props = [json.loads(l) for l in open(os.path.join(V, "properties.jsonl"))]

CLAIMS = {
 "C10": dict(technique="Lean 4 proof (induction over byte strings / phrases; kernel evaluation of the whole regenerated 4096-word table) + correspondence check",
   text="Theorems (all byte strings, all phrases): dec(enc b)=b for every non-empty b with length a multiple of 3 (48 and 51 are instances, through the sized entry points), enc injective, enc(dec p)=p for every phrase of an even number of list words, refusal of odd word counts and of any token outside the list (empty tokens from irregular spacing, upper case, tabs, non-ASCII), decoder never faults. Word-list facts (4096 entries, a..z, duplicate-free) are decide+kernel over the table regenerated from /repo on every run. The model is tied to the code by skeleton digests and by a differential run (every 12-bit value at word positions, malformed phrases).",
   note="Lean kernel; axioms propext, Classical.choice, Quot.sound; strings.Split/map semantics modelled; model↔code tie = gogen (word list regenerated) + skeleton digests + correspondence run", ref="§7 C10"),
 "C11": dict(technique="Lean 4 proof (arithmetic/omega over all descriptor values; hash functions as parameters) + correspondence check",
   text="Theorems for arbitrary hash functions: address = re-encoded descriptor ‖ SHAKE256(pk)[15..32] (XMSS) / 0x10 ‖ SHAKE256(pk)[13..32] (Dilithium); own-valid and other-invalid in both directions; the two address spaces are disjoint; decode(encode d)=d for every nibble-valued field combination and even height ≤ 30; legacy validity ⇔ format nibble 0 ∧ checksum; derived legacy addresses validate. Differential run over all 65 536 descriptor byte pairs, random keys, checksum bit flips.",
   note="Lean kernel; axioms propext, Classical.choice, Quot.sound; SHAKE-256/SHA-256 are parameters; little-endian host", ref="§7 C11"),
 "C16": dict(technique="Lean 4 proof (induction over byte strings; core functions as parameters) + correspondence check",
   text="Theorems for every core function: hexDecode(hexEncode b)=b; prefix stripping is the identity on encoder output and removes exactly one leading 0x; for exact-length well-formed hex in either spelling the verify/address/validity wrappers return exactly what the core returns on the decoded bytes; anything that does not decode gives false / empty string. Differential run on the real wrappers (both spellings, upper case, non-hex strings). Found and repaired: XMSS wrappers rejected 0x-prefixed input (fix: eb2db25).",
   note="Lean kernel; axioms propext, Classical.choice, Quot.sound; encoding/hex modelled; GopherJS object glue out of scope", ref="§7 C16"),
}

checks = []
for p in props:
    pid = p["id"]
    if pid not in CLAIMS:
        continue
    c = CLAIMS[pid]
    checks.append({
        "property_id": pid,
        "quick_cmd": "./check %s --tier quick" % pid,
        "thorough_cmd": "./check %s --tier thorough" % pid,
        "evidence_file": "/verif/evidence/%s.json" % pid,
        "replay_cmd_template": "./check %s --replay {path}" % pid,
        "engine": "lean-proof+correspondence",
        "level_claimed": {"category": "proof", "text": c["text"], "design_ref": c["ref"]},
        "level_note": c["note"],
        "technique": c["technique"],
    })
na = [{"property_id": p["id"], "reason": "check under construction in this session; not claimed until its theorems and correspondence run exist"} for p in props if p["id"] not in CLAIMS]
hooks = subprocess.run(["git", "-C", "/repo", "log", "--format=%h %s"], capture_output=True, text=True).stdout.splitlines()
hook_commits = [l.split()[0] for l in hooks if "verif hooks" in l]
m = {
 "version": 1,
 "setup_cmd": "./check --setup",
 "hooks": {"guard": "verif", "enable": "go build -tags verif (the harness in /verif/tools/harness is built with it against /repo)",
           "baseline_off_cmd": "cd /repo && go test -vet=off -count=1 ./...", "source_commits": hook_commits, "add_only": True},
 "engines": [{"name": "lean-proof+correspondence", "path": "/verif/check",
              "serves_properties": [c["property_id"] for c in checks],
              "kind_free_text": "Lean 4 theorems about a model of the library (generated layer regenerated from /repo by tools/gogen on every run, hand-written structural layer tied by skeleton digests) + differential correspondence run between the compiled Lean model and the real Go code"}],
 "checks": checks,
 "not_applicable": na,
 "notes": "See DESIGN.md. known_findings.json lists repaired defects (fixed:) and recorded findings.",
}
json.dump(m, open(os.path.join(V, "MANIFEST.json"), "w"), indent=1)
print("claimed:", [c["property_id"] for c in checks])
