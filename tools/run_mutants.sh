#!/bin/bash
# run_mutants.sh [ids...] — apply each seeded mutant to a scratch copy of the repository and run the checks of
# the property it targets (plus any listed in seeded/<id>/also) at the quick tier. Never touches /repo.
# Intended for `vp run --with-repo -- tools/run_mutants.sh` (uses $VP_RUN_REPO) or a manual scratch copy in $MUT_REPO.
set -u
V=$(cd "$(dirname "$0")/.." && pwd)
SRC=${VP_RUN_REPO:-${MUT_REPO:-}}
if [ -z "$SRC" ]; then echo "need VP_RUN_REPO or MUT_REPO (a scratch copy of /repo)"; exit 2; fi
export VERIF_REPO=$SRC
export VERIF_EVIDENCE_DIR=$V/mutant_results/evidence   # never overwrite /verif/evidence with a run against a changed tree
cd "$V"
[ -x tools/bin/gogen ] || ./check --setup > setup.log 2>&1
ids=${@:-$(ls seeded)}
mkdir -p mutant_results
for id in $ids; do
  prop=${id%%-*}
  props="$prop $(cat seeded/$id/also 2>/dev/null)"
  git -C "$SRC" checkout -q -- . 2>/dev/null
  if ! git -C "$SRC" apply "$V/seeded/$id/patch.diff" 2>/dev/null; then echo "$id: patch does not apply (tree has moved on)"; continue; fi
  for p in $props; do
    out=$(timeout ${MUT_TIMEOUT:-2700} ./check $p --tier quick 2>&1); rc=$?   # a seeded change can make the library spin: never wait for ever
    v=$(echo "$out" | grep -c "^VIOLATION")
    nf=$(echo "$out" | grep -c "no-failing-input-found")
    echo "$id check=$p rc=$rc violations=$v no-failing-input=$nf :: $(echo "$out" | grep -E "^VIOLATION" | head -2 | sed 's/replay=.*replays.//' | tr '\n' ' ') $(echo "$out" | grep "broken:" | head -2 | cut -c1-120 | tr '\n' ' ')" | tee -a mutant_results/summary.txt
  done
  git -C "$SRC" checkout -q -- .
done
