#!/usr/bin/env python3
"""Regenerates lean/QrlModel/Tie/Cnn.lean from the *current* Gen/Skeleton.lean digests.
Run by hand when the hand-written model has been (re)validated against the current source
(e.g. after a fix: commit); the outputs are committed. Never run by ./check."""
import os, re, sys
V = os.path.dirname(os.path.dirname(os.path.abspath(__file__)))
sys.path.insert(0, os.path.join(V, "tools", "lib"))
from props import PROPS
import subprocess
subprocess.run([os.path.join(V, "tools/bin/gogen"), "-repo", os.environ.get("VERIF_REPO", "/repo"), "-out", os.path.join(V, "lean/QrlModel/Gen")], check=True)
skel = dict(re.findall(r'def (\S+) : String := "([0-9a-f]+)"', open(os.path.join(V, "lean/QrlModel/Gen/Skeleton.lean")).read()))
for p, cfg in PROPS.items():
    with open(os.path.join(V, "lean/QrlModel/Tie", p + ".lean"), "w") as f:
        f.write("import QrlModel.Gen.Skeleton\n/-! Tie obligations of %s: the canonical skeleton of every hand-modelled Go function this property's model\ndepends on must equal the digest the model was written against (tools/mk_tie.py). -/\nnamespace Qrl.Tie.%s\n" % (p, p))
        for fn in cfg.get("tie", []):
            if fn not in skel:
                raise SystemExit("unknown function %s for %s" % (fn, p))
            f.write('theorem %s : Gen.Skel.%s = "%s" := by decide\n' % (fn, fn, skel[fn]))
        f.write("end Qrl.Tie.%s\n" % p)
print("ok")
