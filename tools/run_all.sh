#!/bin/bash
# run every check's quick (or $1) tier on the current tree; summary on stdout
tier=${1:-quick}
cd "$(dirname "$0")/.."
for p in C01 C02 C03 C04 C05 C06 C07 C08 C09 C10 C11 C12 C13 C14 C15 C16; do
  out=$(./check $p --tier $tier 2>&1); rc=$?
  echo "$p rc=$rc $(echo "$out" | grep -E "^C[0-9]+ (quick|thorough)" | tail -1)"
  echo "$out" | grep -E "VIOLATION|KNOWN-FINDING|broken:" | head -5
done
