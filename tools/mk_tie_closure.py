#!/usr/bin/env python3
"""mk_tie_closure.py — close every property's tie list under the call graph of the library.

A property's behaviour depends on every library function reachable from the functions its model is about, not only on
those the model names (seeded change C08-m11 put a new error return into hMsg, which the C08 list did not contain: the
change went unreported). The call graph is read from Gen/skeleton.txt (regenerated from /repo): same-package calls,
`misc.F(...)`-style calls, and method calls (over-approximated: a call `_.M(...)` reaches every method M of the library).
Writes tools/lib/tie_extra.json: {property: [functions to add]}; tools/lib/props.py appends them. Run on the unchanged
tree, then tools/mk_tie.py."""
import json, os, re, sys
V = os.path.dirname(os.path.dirname(os.path.abspath(__file__)))
sys.path.insert(0, os.path.join(V, "tools", "lib"))
import props
sk = open(os.path.join(V, "lean", "QrlModel", "Gen", "skeleton.txt")).read()
blocks = {}
cur = None
for line in sk.split("\n"):
    if line.startswith("## "):
        cur = line[3:].strip(); blocks[cur] = []
    elif cur:
        blocks[cur].append(line)
names = set(blocks)
pkgs = sorted({n.split("_")[0] for n in names})
methods = {}   # method name -> skeleton names
for n in names:
    parts = n.split("_")
    if len(parts) >= 3:
        methods.setdefault(parts[-1], []).append(n)
graph = {}
for n, body in blocks.items():
    pkg = n.split("_")[0]
    text = "\n".join(body)
    out = set()
    for m in re.finditer(r"(?:(\w+)\.)?([A-Za-z]\w*)\(", text):
        q, f = m.group(1), m.group(2)
        if q is None:
            if pkg + "_" + f in names: out.add(pkg + "_" + f)
        elif q in pkgs and q + "_" + f in names:
            out.add(q + "_" + f)
        elif q == "_" or q not in pkgs:
            for mm in methods.get(f, []): out.add(mm)
    graph[n] = out
# entry points: the API functions each property's statement is about. The closure is taken from these only, so that
# e.g. C01 does not start to depend on address derivation merely because XMSS.GetAddress is in the key-object group,
# and C16 (wrapper = core, for any core) does not depend on the core's internals.
X = "xmss_"; D = "dilithium_"; M = "misc_"
ENTRY = {
 "C01": [X+"NewXMSSFromSeed", X+"XMSS_Sign", X+"XMSS_SetIndex", X+"XMSS_GetPK", X+"Verify"],
 "C02": [X+"NewXMSSFromSeed", X+"XMSS_Sign", X+"XMSS_SetIndex", X+"XMSS_GetIndex"],
 "C03": [D+"NewDilithiumFromSeed", D+"Dilithium_Sign", D+"Dilithium_Seal", D+"Verify", D+"Open", D+"ExtractMessage", D+"ExtractSignature", D+"Dilithium_GetPK"],
 "C04": [X+"Verify", X+"VerifyWithCustomWOTSParamW"],
 "C05": [D+"Verify", D+"Open"],
 "C06": [X+"NewXMSSFromSeed", X+"XMSS_Sign", X+"XMSS_SetIndex", X+"XMSS_GetPK", X+"Verify"],
 "C07": [D+"NewDilithiumFromSeed", D+"Dilithium_Sign", D+"Dilithium_Seal", D+"Dilithium_GetPK", D+"Dilithium_GetSK"],
 "C08": [X+"NewXMSSFromSeed", X+"NewXMSSFromExtendedSeed", X+"XMSS_Sign", X+"XMSS_SetIndex", X+"XMSS_GetIndex", X+"XMSS_GetExtendedSeed", X+"XMSS_GetPK"],
 "C09": [X+"NewXMSSFromSeed", X+"NewXMSSFromExtendedSeed", X+"NewXMSSFromHeight", X+"XMSS_GetExtendedSeed", X+"XMSS_GetMnemonic", X+"XMSS_GetHexSeed", X+"XMSS_GetSeed", X+"XMSS_GetPK",
         X+"XMSS_GetAddress", D+"New", D+"NewDilithiumFromSeed", D+"NewDilithiumFromMnemonic", D+"NewDilithiumFromHexSeed", D+"Dilithium_GetSeed", D+"Dilithium_GetHexSeed",
         D+"Dilithium_GetMnemonic", D+"Dilithium_GetPK", D+"Dilithium_GetSK", D+"Dilithium_GetAddress",
         # "recovered" is observed through what the recovered key does: its signatures must be those of the original
         X+"XMSS_Sign", X+"XMSS_SetIndex", D+"Dilithium_Sign", D+"Dilithium_Seal"],
 "C10": [M+"MnemonicToSeedBin", M+"MnemonicToExtendedSeedBin", M+"SeedBinToMnemonic", M+"ExtendedSeedBinToMnemonic"],
 "C11": [],
 "C12": [],
 "C13": [],
 "C14": [X+"Verify", X+"VerifyWithCustomWOTSParamW", D+"Verify", D+"Open", D+"ExtractMessage", D+"ExtractSignature", M+"MnemonicToSeedBin", M+"MnemonicToExtendedSeedBin",
         X+"IsValidXMSSAddress", X+"IsValidLegacyXMSSAddress", D+"IsValidDilithiumAddress", X+"NewQRLDescriptorFromBytes", X+"GetXMSSAddressFromPK"],
 "C15": [],
 "C16": [],
}
extra = {}
for p, cfg in props.BASE_PROPS.items():
    missing = [e for e in ENTRY.get(p, []) if e not in names]
    if missing: print("unknown entry points for", p, missing)
    seen = set(e for e in ENTRY.get(p, []) if e in names)
    todo = list(seen)
    while todo:
        f = todo.pop()
        for g in graph.get(f, ()):
            if g not in seen:
                seen.add(g); todo.append(g)
    if p == "C14":
        # "never crashes" can only be broken by code that can fault: indexing / slicing, division, allocation, an explicit
        # panic; pure scalar arithmetic (decompose, useHint, montgomeryReduce, …) is left to the properties it belongs to
        canfault = lambda f: any(t in "\n".join(blocks[f]) for t in ("[", "/", "%", "panic(", "make("))
        seen = {f for f in seen if canfault(f)}
    add = sorted(seen - set(cfg.get("tie", [])))
    if add: extra[p] = add
json.dump(extra, open(os.path.join(V, "tools", "lib", "tie_extra.json"), "w"), indent=1)
for p, a in sorted(extra.items()):
    print(p, len(a), " ".join(a))
