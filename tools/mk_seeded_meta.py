#!/usr/bin/env python3
"""mk_seeded_meta.py [summary.txt] — write seeded/<id>/meta.json from the mutation agent's notes.md
(what the change is, what it needs to manifest, what was run) and, when a sweep summary produced by
tools/run_mutants.sh is given, which check reported it and how."""
import json, os, re, sys
V = os.path.dirname(os.path.dirname(os.path.abspath(__file__)))
res = {}
if len(sys.argv) > 1:
    for line in open(sys.argv[1]):
        m = re.match(r"(\S+) check=(\S+) rc=(\d+) violations=(\d+) no-failing-input=(\d+) :: (.*)", line)
        if not m: continue
        mid, chk, rc, v, nf, rest = m.groups()
        res.setdefault(mid, []).append(dict(check=chk, exit_code=int(rc), violation_lines=int(v),
            concrete_failing_input=(int(v) > 0 and int(nf) < int(v)) or (int(v) > int(nf)),
            no_failing_input_found=int(nf) > 0 and int(nf) == int(v),
            reported=re.findall(r"VIOLATION property=\S+ (\S+)", rest),
            first_broken_obligation=(re.search(r"broken: (.*?\))", rest) or [None, None])[1]))
def section(text, pat):
    hs = list(re.finditer(r"^##+ (.*)$", text, re.M))
    for i, h in enumerate(hs):
        if re.search(pat, h.group(1), re.I):
            end = hs[i+1].start() if i+1 < len(hs) else len(text)
            return text[h.end():end].strip()
    return ""
for mid in sorted(os.listdir(os.path.join(V, "seeded"))):
    d = os.path.join(V, "seeded", mid)
    if not os.path.isdir(d): continue
    notes = open(os.path.join(d, "notes.md")).read() if os.path.exists(os.path.join(d, "notes.md")) else ""
    title = (re.search(r"^# (.*)$", notes, re.M) or [None, mid])[1]
    patch = open(os.path.join(d, "patch.diff")).read()
    files = sorted(set(re.findall(r"^\+\+\+ b/(\S+)", patch, re.M)))
    old = {}
    mp = os.path.join(d, "meta.json")
    if os.path.exists(mp):
        try: old = json.load(open(mp))
        except Exception: old = {}
    meta = dict(
        id=mid, property=mid.split("-")[0], title=title.strip(), files_changed=files,
        change=section(notes, r"^change|what the change does"),
        breaks_property_because=section(notes, r"effect|why it breaks|property broken|why it is subtle"),
        needs_to_manifest=section(notes, r"need"),
        why_existing_tests_pass=section(notes, r"existing tests"),
        demonstration=[f for f in sorted(os.listdir(d)) if f.startswith("demo")],
        what_was_run=section(notes, r"commands run"),
        origin="written by a fresh sub-agent that saw only the property text and a scratch worktree of the repository (nothing from /verif); confirmed afterwards in a scratch worktree: compiles, the 36 pinned tests pass, the demonstration fails on the mutant and passes on the unchanged tree",
        apply="git -C /repo apply /verif/seeded/%s/patch.diff   # undo: git -C /repo checkout -- ." % mid,
        checks=res.get(mid, old.get("checks", [])),
    )
    json.dump(meta, open(mp, "w"), indent=1, ensure_ascii=False)
    print(mid, "needs:", len(meta["needs_to_manifest"]), "run:", len(meta["what_was_run"]), "checks:", len(meta["checks"]))
