"""Per-property configuration of ./check: tie obligations (skeleton digests of the hand-modelled Go
functions each property's model depends on) and evidence texts."""

G = {
 "XMSS_HASH": ["xmss_coreHash", "xmss_prf", "xmss_hashF", "xmss_hashH", "xmss_hMsg", "misc_SHAKE128", "misc_SHAKE256", "misc_SHA256",
               "misc_AddrToByte", "misc_ToByteLittleEndian", "misc_SetType", "misc_SetOTSAddr", "misc_SetChainAddr", "misc_SetHashAddr",
               "misc_SetLTreeAddr", "misc_SetTreeHeight", "misc_SetTreeIndex", "misc_SetKeyAndMask", "misc_GetEndian"],
 "XMSS_WOTS": ["xmss_genChain", "xmss_expandSeed", "xmss_wOTSPKGen", "xmss_wotsSign", "xmss_wotsPKFromSig", "xmss_CalcBaseW", "xmss_lTree",
               "xmss_genLeafWOTS", "xmss_getSeed", "xmss_NewWOTSParams", "xmss_NewXMSSParams"],
 "XMSS_BDS": ["xmss_treeHashSetup", "xmss_bdsRound", "xmss_bdsTreeHashUpdate", "xmss_treeHashMinHeightOnStack", "xmss_treeHashUpdate",
              "xmss_NewBDSState", "xmss_XMSSFastGenKeyPair"],
 "XMSS_KEY": ["xmss_initializeTree", "xmss_NewXMSSFromSeed", "xmss_NewXMSSFromExtendedSeed", "xmss_NewXMSSFromHeight", "xmss_XMSS_SetIndex", "xmss_XMSS_Sign",
              "xmss_XMSS_GetIndex", "xmss_XMSS_GetPK", "xmss_XMSS_GetRoot", "xmss_XMSS_GetPKSeed", "xmss_XMSS_GetSeed", "xmss_XMSS_GetExtendedSeed",
              "xmss_XMSS_GetMnemonic", "xmss_XMSS_GetAddress", "xmss_XMSS_GetHexSeed", "xmss_XMSS_GetSK", "xmss_XMSS_GetHeight", "xmss_XMSS_GetLegacyAddress", "xmss_xmssFastUpdate", "xmss_xmssFastSignMessage", "xmss_getSignatureSize",
              "xmss_calculateSignatureBaseSize"],
 "XMSS_VERIFY": ["xmss_Verify", "xmss_VerifyWithCustomWOTSParamW", "xmss_xmssVerifySig", "xmss_validateAuthPath", "xmss_getHeightFromSigSize",
                 "xmss_calculateSignatureBaseSize"],
 "DESC": ["xmss_NewQRLDescriptor", "xmss_NewQRLDescriptorFromBytes", "xmss_LegacyQRLDescriptorFromBytes", "xmss_NewQRLDescriptorFromExtendedPK",
          "xmss_NewQRLDescriptorFromExtendedSeed", "xmss_LegacyQRLDescriptorFromExtendedPK", "xmss_QRLDescriptor_GetBytes", "xmss_QRLDescriptor_GetHeight",
          "xmss_QRLDescriptor_GetHashFunction", "xmss_QRLDescriptor_GetSignatureType", "xmss_QRLDescriptor_GetAddrFormatType"],
 "ADDR": ["xmss_GetXMSSAddressFromPK", "xmss_IsValidXMSSAddress", "xmss_GetLegacyXMSSAddressFromPK", "xmss_IsValidLegacyXMSSAddress",
          "dilithium_GetDilithiumAddressFromPK", "dilithium_IsValidDilithiumAddress", "dilithium_GetDilithiumDescriptor", "misc_SHAKE256", "misc_SHA256"],
 "MNEMONIC": ["misc_binToMnemonic", "misc_mnemonicToBin", "misc_MnemonicToSeedBin", "misc_MnemonicToExtendedSeedBin", "misc_SeedBinToMnemonic",
              "misc_ExtendedSeedBinToMnemonic"],
 "JS": ["xmssjs_XMSSVerify", "xmssjs_GetXMSSAddressFromPK", "xmssjs_IsValidXMSSAddress", "dilithiumjs_DilithiumVerify",
        "dilithiumjs_GetDilithiumAddressFromPK", "dilithiumjs_IsValidDilithiumAddress", "dilithiumjs_clearPrefix0x", "xmssjs_clearPrefix0x"],
 "DIL_POLY": ["dilithium_polyCAddQ", "dilithium_polyReduce", "dilithium_polyAdd", "dilithium_polySub", "dilithium_polyShiftL", "dilithium_polyNTT",
              "dilithium_polyInvNTTToMont", "dilithium_polyPointWiseMontgomery", "dilithium_polyPower2Round", "dilithium_polyDecompose",
              "dilithium_polyMakeHint", "dilithium_polyUseHint", "dilithium_polyChkNorm", "dilithium_ntt", "dilithium_invNTTToMont"],
 "DIL_VEC": ["dilithium_polyVecLUniformGamma1", "dilithium_polyVecLReduce", "dilithium_polyVecLAdd", "dilithium_polyVecLNTT", "dilithium_polyVecLInvNTTToMont",
             "dilithium_polyVecLPointWisePolyMontgomery", "dilithium_polyVecMatrixExpand", "dilithium_polyVecLChkNorm", "dilithium_polyVecKAdd",
             "dilithium_polyVecKSub", "dilithium_polyVecKShiftL", "dilithium_polyVecKNTT", "dilithium_polyVecKInvNTTToMont",
             "dilithium_polyVecKPointWisePolyMontgomery", "dilithium_polyVecKChkNorm", "dilithium_polyVecKPower2Round", "dilithium_polyVecKDecompose",
             "dilithium_polyVecKMakeHint", "dilithium_polyVecKUseHint", "dilithium_polyVecLPointWiseAccMontgomery",
             "dilithium_polyVecMatrixPointWiseMontgomery", "dilithium_polyVecLUniformETA", "dilithium_polyVecKUniformETA", "dilithium_polyVecKReduce",
             "dilithium_polyVecKCAddQ", "dilithium_polyVecKPackW1"],
 "DIL_SAMPLE": ["dilithium_polyUniform", "dilithium_rejUniform", "dilithium_rejEta", "dilithium_polyUniformEta", "dilithium_polyUniformGamma1",
                "dilithium_polyChallenge"],
 "DIL_PACK": ["dilithium_polyEtaPack", "dilithium_polyEtaUnpack", "dilithium_polyT1Pack", "dilithium_polyT1Unpack", "dilithium_polyT0Pack",
              "dilithium_polyT0Unpack", "dilithium_polyZPack", "dilithium_polyZUnpack", "dilithium_polyW1Pack", "dilithium_packPk", "dilithium_unpackPk",
              "dilithium_packSk", "dilithium_unpackSk", "dilithium_packSig", "dilithium_unpackSig"],
 "DIL_SIGN": ["dilithium_cryptoSignKeypair", "dilithium_cryptoSignSignature", "dilithium_cryptoSign", "dilithium_Dilithium_Sign", "dilithium_Dilithium_Seal",
              "dilithium_NewDilithiumFromSeed", "dilithium_ExtractMessage", "dilithium_ExtractSignature"],
 "DIL_VERIFY": ["dilithium_cryptoSignVerify", "dilithium_cryptoSignOpen", "dilithium_Verify", "dilithium_Open"],
 "DIL_SCALAR": ["dilithium_montgomeryReduce", "dilithium_reduce32", "dilithium_cAddQ", "dilithium_power2Round", "dilithium_decompose",
                "dilithium_makeHint", "dilithium_useHint"],
 "DIL_CTOR": ["dilithium_New", "dilithium_NewDilithiumFromMnemonic", "dilithium_NewDilithiumFromHexSeed", "dilithium_Dilithium_GetHexSeed",
              "dilithium_Dilithium_GetMnemonic", "dilithium_Dilithium_GetSeed", "dilithium_Dilithium_GetPK", "dilithium_Dilithium_GetSK",
              "dilithium_Dilithium_GetAddress"],
}


def tie(*groups, extra=()):
    out = []
    for g in groups:
        for f in G[g]:
            if f not in out:
                out.append(f)
    for f in extra:
        if f not in out:
            out.append(f)
    return out


COMMON_ASSUME = [
    "Go compiler/runtime, crypto/sha256, x/crypto/sha3, encoding/hex, strings, fmt are parameters of the model",
    "hand-written structural model is tied to the source by skeleton digests (any edit to a modelled function breaks a tie obligation) and by the correspondence run; it is as strong as the generators, whose distribution is recorded under coverage.distribution",
]

PROPS = {
 "C01": dict(tie=tie("XMSS_HASH", "XMSS_WOTS", "XMSS_BDS", "XMSS_KEY", "XMSS_VERIFY"),
             thorough_modules=["C01Thorough"],
             timeout={"quick": 1500, "thorough": 7200},
             assumptions=COMMON_ASSUME + ["heights above those listed in coverage.explanation are covered by the general lemmas plus label-mode runs only (C01_partial)"]),
 "C02": dict(tie=tie("XMSS_KEY", extra=["xmss_XMSSFastGenKeyPair"]), assumptions=COMMON_ASSUME),
 "C03": dict(allow_bv_decide=True, tie=tie("DIL_SIGN", "DIL_VERIFY", "DIL_PACK", "DIL_VEC", "DIL_POLY", "DIL_SAMPLE"), assumptions=COMMON_ASSUME + ["termination of the XOF-driven rejection loop is not provable; theorems are of the form 'if sign returns then …'"]),
 "C04": dict(extra_modules=["C04Craft"], oracle_ops=["x.verify"], tie=tie("XMSS_VERIFY", "XMSS_HASH", "XMSS_WOTS", "DESC"), assumptions=COMMON_ASSUME + ["that a flipped bit is rejected is a collision-resistance statement; it is covered by exhaustive single-bit-flip runs on the real code (tests, labelled as such)"]),
 "C05": dict(oracle_ops=["dl.verify", "dl.open", "dl.unpacksig"], tie=tie("DIL_VERIFY", "DIL_PACK", "DIL_POLY", "DIL_VEC", "DIL_SAMPLE"), allow_bv_decide=True, assumptions=COMMON_ASSUME),
 "C06": dict(oracle_ops=["xs.pk", "xs.sign", "x.verify"], tie=tie("XMSS_HASH", "XMSS_WOTS", "XMSS_BDS", "XMSS_KEY", "XMSS_VERIFY"), thorough_modules=["C01Thorough"], timeout={"quick": 1500, "thorough": 7200}, assumptions=COMMON_ASSUME),
 "C07": dict(oracle_ops=["dl.keypair", "dl.signsk", "dl.sign", "dl.new", "dl.rejuniform", "dl.rejeta", "dl.uniform", "dl.eta", "dl.gamma1", "dl.challenge"], tie=tie("DIL_SIGN", "DIL_SAMPLE", "DIL_VEC", "DIL_POLY", "DIL_PACK", "DIL_SCALAR"), assumptions=COMMON_ASSUME),
 "C08": dict(tie=tie("XMSS_KEY", "XMSS_BDS"), timeout={"quick": 1500, "thorough": 7200}, assumptions=COMMON_ASSUME),
 "C09": dict(tie=tie("DESC", "XMSS_KEY", "DIL_CTOR", "MNEMONIC"), assumptions=COMMON_ASSUME),
 "C10": dict(tie=tie("MNEMONIC"), assumptions=COMMON_ASSUME + ["strings.Split and Go map semantics are modelled (split on the single byte 0x20; later duplicate wins)"]),
 "C11": dict(oracle_ops=["a.xmss", "a.xmssvalid", "a.legacy", "a.legacyvalid", "a.dil", "a.dilvalid", "d.new", "d.frombytes"], tie=tie("ADDR", "DESC"), assumptions=COMMON_ASSUME + ["host byte order is little-endian"]),
 "C12": dict(oracle_ops=["dl.mont", "dl.red", "dl.caddq", "dl.p2r", "dl.decomp", "dl.mkhint", "dl.usehint", "dl.chknorm"], tie=tie("DIL_POLY", "DIL_SCALAR"), allow_bv_decide=True, assumptions=COMMON_ASSUME),
 "C13": dict(tie=tie("DIL_PACK"), allow_bv_decide=True, assumptions=COMMON_ASSUME + ["bv_decide (CaDiCaL + verified LRAT checker, native evaluation) is accepted for the bit-lane identities only; its axioms are listed under coverage.axioms_by_theorem"]),
 "C14": dict(tie=tie("XMSS_VERIFY", "ADDR", "DESC", "MNEMONIC", "DIL_VERIFY", extra=["dilithium_unpackSig"]), assumptions=COMMON_ASSUME + ["'no Go runtime.Error' and 'inputs unmodified' are runtime facts: the model shows every access it makes is in range, the harness checks panic types and input buffers on every malformed call"]),
 "C15": dict(tie=[], race=True, assumptions=COMMON_ASSUME + ["Go memory model, race-freedom of x/crypto/sha3, hex, fmt on distinct objects are not modelled (partial)"]),
 "C16": dict(oracle_ops=["js.xverify", "js.xaddr", "js.xvalid", "js.dverify", "js.daddr", "js.dvalid"], tie=tie("JS"), assumptions=COMMON_ASSUME + ["GopherJS object glue is not modelled; only the pure string wrappers are"]),
}

# functions reachable from a property's tie list through the library's call graph (tools/mk_tie_closure.py)
import copy as _copy, json as _json, os as _os
BASE_PROPS = _copy.deepcopy(PROPS)
_tx = _os.path.join(_os.path.dirname(_os.path.abspath(__file__)), "tie_extra.json")
if _os.path.exists(_tx):
    for _p, _fs in _json.load(open(_tx)).items():
        for _f in _fs:
            if _f not in PROPS[_p]["tie"]:
                PROPS[_p]["tie"].append(_f)

PARTIAL = {
 "C01": "theorems per height: 4..12 in the default build, 14 and 16 in the thorough tier (18 opt-in); heights 20..30 have the height-generic lemmas with the per-height label check as a hypothesis (C01_partial). The hand-written model is tied to the Go code by skeleton digests and the correspondence run.",
 "C02": "nothing is left unproved about the model (all heights ≤ 30, all histories, all uint32 arguments); the tie of the hand-written key-object model is skeleton digests + correspondence.",
 "C03": "the theorem is about the model; hypotheses: XOF output lengths, Expanded(seed) (evaluated on every seed of a run), and that the signing loop returned (termination depends on the XOF and is not provable).",
 "C04": "that a flipped bit is rejected is collision resistance of the hash function, not a theorem about this code: exhaustive single-bit flips are run on the real code.",
 "C05": "cryptographic soundness (unforgeability) is not claimed; the strictness of each individual check is exercised on the real code by a key-holding malicious signer and byte-level edits.",
 "C06": "same per-height structure as C01 (C06_partial for heights 20..30).",
 "C07": "key generation = specification is a theorem; 'signature bytes = a separately written specification-level signer' is not a single theorem (the signer is characterised by sign_w_spec, sign_z_spec and C03.verify_sign; the library is byte-compared with the executable model and an independent Go reference).",
 "C08": "nothing is left unproved about the model (all heights ≤ 30, all histories).",
 "C09": "nothing is left unproved about the model; randomness of New()/NewXMSSFromHeight is a parameter.",
 "C10": "nothing is left unproved about the model; Go strings.Split and map semantics are modelled (splitOnSpace, later duplicate wins).",
 "C11": "nothing is left unproved about the model; hash outputs are arbitrary parameters.",
 "C12": "the scalar functions, the zetas table and montgomeryReduce are the regenerated ones; the transform loops are a hand-written halving recursion tied by skeleton digests and the dl.ntt / dl.invntt correspondence.",
 "C13": "lane identities rest on bv_decide axioms (listed); everything else kernel-only.",
 "C14": "'no Go runtime.Error' and 'inputs unmodified' are runtime facts checked by the harness; the model shows every access it makes is in range.",
 "C15": "partial by nature: the Go memory model and race-freedom inside x/crypto/sha3, encoding/hex, fmt are not modelled; the effect table is syntactic.",
 "C16": "GopherJS object glue is not modelled; only the six pure string wrappers are.",
}
for _k, _v in PARTIAL.items():
    PROPS[_k]["partial"] = _v
