package main

import (
	"crypto/sha256"
	"encoding/binary"
	"fmt"
	"os"
	"sort"
	"strconv"
	"sync"

	"golang.org/x/crypto/sha3"
)

// wotsscan <hf> <trials>: messages for the zero-seed height-4 key at index 0 whose message digest has an extreme WOTS
// checksum (far below / above the mean of 480: a leading checksum digit of 0 or 3) or extreme digit patterns. The
// digest is H(2 ‖ R ‖ root ‖ idx ‖ msg) with R and root of that key (taken from the independent reference). Output
// lines "<kind>-<hf> <hex message>" go into corpus/xmss_boundary.txt.
func wotsScanMain(args []string) {
	hf, _ := strconv.Atoi(args[0])
	trials, _ := strconv.ParseInt(args[1], 10, 64)
	k := rxNewKey(make([]byte, 48), 4, hf)
	ib := make([]byte, 32)
	r := rxPRF(k.hash, ib, k.skPRF)
	prefix := make([]byte, 32, 32+96+12)
	prefix[31] = 2
	prefix = append(append(append(prefix, r...), k.root...), ib...)
	type hit struct {
		csum int
		msg  []byte
	}
	var mu sync.Mutex
	var low, high []hit
	workers := 16
	var wg sync.WaitGroup
	for w := 0; w < workers; w++ {
		wg.Add(1)
		go func(w int) {
			defer wg.Done()
			buf := append(append([]byte{}, prefix...), make([]byte, 12)...)
			msg := buf[len(prefix):]
			copy(msg, "wots")
			var out [32]byte
			for i := int64(w); i < trials; i += int64(workers) {
				binary.LittleEndian.PutUint64(msg[4:], uint64(i))
				switch hf {
				case 0:
					out = sha256.Sum256(buf)
				case 1:
					sha3.ShakeSum128(out[:], buf)
				default:
					sha3.ShakeSum256(out[:], buf)
				}
				s := 0
				for _, b := range out {
					s += 30 - int(b>>4) - int(b&15)
				}
				if s < 272 || s > 688 {
					mu.Lock()
					h := hit{s, append([]byte{}, msg...)}
					if s < 272 {
						low = append(low, h)
					} else {
						high = append(high, h)
					}
					mu.Unlock()
				}
			}
		}(w)
	}
	wg.Wait()
	sort.Slice(low, func(i, j int) bool { return low[i].csum < low[j].csum })
	sort.Slice(high, func(i, j int) bool { return high[i].csum > high[j].csum })
	for i, h := range low {
		if i < 6 {
			fmt.Printf("csum-low-%d-%d %x\n", hf, h.csum, h.msg)
		}
	}
	for i, h := range high {
		if i < 6 {
			fmt.Printf("csum-high-%d-%d %x\n", hf, h.csum, h.msg)
		}
	}
	fmt.Fprintf(os.Stderr, "hf=%d trials=%d low=%d high=%d\n", hf, trials, len(low), len(high))
}

// challengescan <trials>: 32-byte challenge seeds whose SampleInBall expansion rejects unusually many candidate positions
// (consumes far more than the usual ~76 XOF bytes); lines "challenge-long <hex seed>" for corpus/dilithium_boundary.txt
func challengeScanMain(args []string) {
	trials, _ := strconv.ParseInt(args[0], 10, 64)
	type hit struct {
		used int
		seed []byte
	}
	var mu sync.Mutex
	var hits []hit
	var wg sync.WaitGroup
	for w := 0; w < 16; w++ {
		wg.Add(1)
		go func(w int) {
			defer wg.Done()
			seed := make([]byte, 32)
			copy(seed, "challenge seed ")
			buf := make([]byte, 8+8*136)
			for i := int64(w); i < trials; i += 16 {
				binary.LittleEndian.PutUint64(seed[16:], uint64(i))
				sha3.ShakeSum256(buf[:272], seed)
				pos := 8
				for k := 256 - 60; k < 256; k++ {
					for int(buf[pos]) > k {
						pos++
						if pos >= 270 {
							break
						}
					}
					pos++
					if pos >= 270 {
						break
					}
				}
				if pos >= 100 {
					mu.Lock()
					hits = append(hits, hit{pos, append([]byte{}, seed...)})
					mu.Unlock()
				}
			}
		}(w)
	}
	wg.Wait()
	sort.Slice(hits, func(i, j int) bool { return hits[i].used > hits[j].used })
	for i, h := range hits {
		if i < 8 {
			fmt.Printf("challenge-long %x\n", h.seed)
			fmt.Fprintf(os.Stderr, "used=%d\n", h.used)
		}
	}
}
