package main

import (
	"bytes"
	"fmt"
	"os"
	"os/exec"
	"path/filepath"
	"strings"
	"sync"

	"github.com/theQRL/go-qrllib/dilithium"
	"github.com/theQRL/go-qrllib/qrl"
	"github.com/theQRL/go-qrllib/xmss"
)

func init() {
	generators["C14"] = genC14
	generators["C15"] = genC15
}

var knownRefusals = map[string]bool{"index-high": true, "rewind": true, "sig-size": true, "sig-type": true, "params": true, "addr-format": true,
	"mnemonic-odd": true, "mnemonic-word": true, "mnemonic-size": true, "mnemonic-bytes": true, "logW": true, "height": true}

// total checks that an outcome line is a value or one of the library's own explicit refusals.
func (g *gen) total(out, line string) {
	switch {
	case strings.HasPrefix(out, "ok"):
		g.check(true, "no-fault", "")
	case strings.HasPrefix(out, "refuse:"):
		cls := strings.TrimPrefix(out, "refuse:")
		g.check(knownRefusals[cls], "explicit-refusal", "panic with a message that is not one of the library's rejection messages: "+trunc(out, 100), line)
	default:
		g.check(false, "no-fault", "runtime fault on untrusted input: "+trunc(out, 160), line)
	}
}

func genC14(g *gen) {
	// a verification that succeeds, followed by untrusted bytes sized for the other Winternitz parameters (and back), in
	// several orders: what an accepted signature leaves behind must not make the next call fault
	g.note("XMSS verification: an accepted signature, then well-sized garbage for other parameters")
	{
		kx := newKey(g.bytes(48), 4, g.rng.Intn(3))
		kpk := kx.GetPK()
		km := g.bytes(7)
		ksig, _ := kx.Sign(km)
		seq := []string{fmt.Sprintf("x.verify 16 %s %s %s", hx(km), hx(ksig), hx(kpk[:]))}
		for _, w := range []int{4, 256, 16} {
			ks := map[int]int{4: 133 * 32, 256: 34 * 32, 16: 67 * 32}[w]
			seq = append(seq, fmt.Sprintf("x.verify %d %s %s %s", w, hx(km), hx(g.bytes(36+ks+32*4)), hx(kpk[:])))
		}
		for round := 0; round < 5; round++ {
			for _, i := range append([]int{0}, g.rng.Perm(len(seq))...) {
				out := execOp(g.st, seq[i])
				g.total(out, seq[i])
				if round == 0 {
					g.total(g.op("%s", seq[i]), seq[i])
				}
				if i != 0 {
					g.total(execOp(g.st, seq[0]), seq[0])
				}
			}
		}
	}
	// challenge seeds whose expansion rejects unusually many candidates (found with `harness challengescan`): put in front
	// of an otherwise genuine signature, Verify and Open must turn it away without a fault
	g.note("Dilithium: challenge seeds with long expansions")
	{
		zk := zeroKey()
		zpk := zk.GetPK()
		zm := []byte("challenge")
		zs, _ := zk.Sign(zm)
		for _, cs := range loadCorpus("challenge-long")["challenge-long"] {
			b := append([]byte{}, zs[:]...)
			copy(b, cs)
			l1 := fmt.Sprintf("dl.verify %s %s %s", hx(zm), hx(b), hx(zpk[:]))
			g.total(g.op("%s", l1), l1)
			l2 := fmt.Sprintf("dl.open %s %s", hx(append(append([]byte{}, b...), zm...)), hx(zpk[:]))
			g.total(g.op("%s", l2), l2)
			l3 := "dl.challenge " + hx(cs)
			g.total(g.op("%s", l3), l3)
		}
	}
	g.note("XMSS verification: sizes around every boundary, w in {4,16,256}")
	msg := g.bytes(5)
	pk := g.bytes(67)
	pk[0], pk[1] = 0, 2
	for _, w := range []int{4, 16, 256} {
		_, _, _, _, ks := xmss.VerifWOTSParams(32, uint32(w))
		base := 36 + int(ks)
		max := base + 30*32
		sizes := []int{0, 1, 3, 4, 35, 36, base - 33, base - 32, base - 1, base, base + 1, max - 1, max, max + 1, max + 32, 2 * max}
		for k := 1; k <= 31; k++ {
			sizes = append(sizes, base+32*k-1, base+32*k, base+32*k+1)
		}
		// sizes that are valid for *another* w
		for _, w2 := range []int{4, 16, 256} {
			_, _, _, _, ks2 := xmss.VerifWOTSParams(32, uint32(w2))
			for _, h := range []int{4, 6, 8, 30} {
				sizes = append(sizes, 36+int(ks2)+32*h)
			}
		}
		for i, n := range sizes {
			for _, hn := range []int{2, n / 64 % 16} {
				p := append([]byte{}, pk...)
				p[1] = byte(hn)
				if n >= base && (n-base)%32 == 0 {
					p[1] = byte(((n - base) / 32 / 2) & 0x0f) // descriptor agrees with the size: reaches the hashing code
				}
				sig := g.bytes(n)
				if i%3 == 0 {
					sig = make([]byte, n)
				}
				line := fmt.Sprintf("x.verify %d %s %s %s", w, hx(msg), hx(sig), hx(p))
				var out string
				if n <= max+64 && (i%2 == 0 || n < base) {
					out = g.op("%s", line)
				} else {
					out = execOp(g.st, line)
					g.counts["implonly-ops"]++
				}
				g.total(out, line)
			}
		}
	}
	g.note("every value of descriptor bytes 0 and 1 (valid-size signature), all entry points taking a public key or address")
	var mu sync.Mutex
	sig := g.bytes(2308)
	step := 1
	parallel(65536/step, func(i int) {
		v := i * step
		p := append([]byte{}, pk...)
		p[0], p[1] = byte(v>>8), byte(v)
		st := newState()
		lines := []string{
			fmt.Sprintf("x.verify 16 %s %s %s", hx(msg), hx(sig), hx(p)),
			fmt.Sprintf("a.xmss %s", hx(p)), fmt.Sprintf("a.legacy %s", hx(p)),
			fmt.Sprintf("a.xmssvalid %s", hx(p[:20])), fmt.Sprintf("a.legacyvalid %s", hx(p[:39])), fmt.Sprintf("a.dilvalid %s", hx(p[:20])),
		}
		outs := make([]string, len(lines))
		for k, l := range lines {
			outs[k] = execOp(st, l)
		}
		mu.Lock()
		for k := range lines {
			g.total(outs[k], lines[k])
		}
		for _, m := range st.mutations {
			g.check(false, "input-mutated", "a call modified one of its input buffers", m)
		}
		mu.Unlock()
	})
	for v := 0; v < 65536; v += 257 {
		p := append([]byte{}, pk...)
		p[0], p[1] = byte(v>>8), byte(v)
		g.op("x.verify 16 %s %s %s", hx(msg), hx(sig[:2308]), hx(p))
		g.op("a.xmss %s", hx(p))
		g.op("a.legacy %s", hx(p))
	}
	g.note("Dilithium Verify / Open: never refuse, never fault")
	dpk := g.bytes(2592)
	nd := 60
	if g.thorough {
		nd = 480
	}
	for i := 0; i < nd; i++ {
		s := g.bytes(4595)
		hoff := 32 + 7*640
		switch i % 6 {
		case 0: // increasing indices with count bytes walking past the hint section
			for j := 0; j < 75; j++ {
				s[hoff+j] = byte(j)
			}
			s[hoff+75] = byte(84 + i%100)
			for k := 1; k < 8; k++ {
				s[hoff+75+k] = byte(85 + k + i%100)
			}
		case 1:
			for j := 0; j < 83; j++ {
				s[hoff+j] = 0xff
			}
		case 2:
			for j := 0; j < 75; j++ {
				s[hoff+j] = byte(j * 3)
			}
			for k := 0; k < 8; k++ {
				s[hoff+75+k] = byte(9*k + 9)
			}
		case 3:
			for j := 0; j < 83; j++ {
				s[hoff+j] = 0
			}
		}
		line := fmt.Sprintf("dl.verify %s %s %s", hx(msg), hx(s), hx(dpk))
		out := g.op("%s", line)
		g.check(out == "ok true" || out == "ok false", "dil-verify-total", "dilithium.Verify did not return a boolean: "+trunc(out, 120), line)
	}
	for _, n := range []int{0, 1, 31, 4594, 4595, 4596, 4600, 9190, 20000} {
		sm := g.bytes(n)
		line := fmt.Sprintf("dl.open %s %s", hx(sm), hx(dpk))
		out := g.op("%s", line)
		g.check(strings.HasPrefix(out, "ok"), "dil-open-total", fmt.Sprintf("dilithium.Open on a %d-byte string did not return: %s", n, trunc(out, 120)), line)
	}
	g.note("mnemonic decoding of arbitrary strings")
	var strs []string
	ns := 40
	if g.thorough {
		ns = 4000
	}
	// tokens around the ends of the sorted word list and with non-ASCII bytes, in phrases of even length
	for _, w := range []string{"zurich", "zuricha", "zzz", "{", "aaaa", "A", "aback\x00", "\xff\xfe", "école", "aback\t"} {
		strs = append(strs, w+" aback", "aback "+w, w+" "+w)
	}
	for i := 0; i < ns; i++ {
		n := g.rng.Intn(400)
		b := g.bytes(n)
		if i%2 == 0 {
			for j := range b {
				b[j] = " abcdefghijklmnopqrstuvwxyz"[int(b[j])%27]
			}
		}
		strs = append(strs, string(b))
	}
	for _, nw := range []int{1, 2, 3, 31, 32, 33, 34, 35, 36, 64, 200} {
		ws := make([]string, nw)
		for j := range ws {
			ws[j] = qrl.WordList[g.rng.Intn(4096)]
		}
		strs = append(strs, strings.Join(ws, " "))
	}
	strs = append(strs, "", " ", "  ", strings.Repeat(" ", 33), strings.Repeat("aback ", 34), strings.Repeat("a", 100000))
	for _, s := range strs {
		for _, dec := range []string{"m.dec48", "m.dec51"} {
			line := fmt.Sprintf("%s %s", dec, hx([]byte(s)))
			g.total(g.op("%s", line), line)
		}
	}
}

// genC15: every stateless call returns what it returns alone — whatever ran before it and alongside it.
func genC15(g *gen) {
	seed := g.bytes(48)
	x := newKey(seed, 4, 1)
	xpk := x.GetPK()
	msg := g.bytes(9)
	sig, _ := x.Sign(msg)
	mn := hx([]byte(x.GetMnemonic()))
	dseed := hx(g.bytes(48))
	var lines []string
	lines = append(lines,
		fmt.Sprintf("x.verify 16 %s %s %s", hx(msg), hx(sig), hx(xpk[:])),
		fmt.Sprintf("x.verify 16 %s %s %s", hx(g.bytes(3)), hx(sig), hx(xpk[:])),
		fmt.Sprintf("x.verify 4 %s %s %s", hx(msg), hx(g.bytes(4420)), hx(xpk[:])),
		fmt.Sprintf("a.xmss %s", hx(xpk[:])), fmt.Sprintf("a.legacy %s", hx(xpk[:])),
		fmt.Sprintf("m.dec51 %s", mn), fmt.Sprintf("m.enc %s", hx(g.bytes(48))), fmt.Sprintf("m.dec48 %s", hx([]byte("aback abbey"))),
		"d.new 10 2 0 0", "d.frombytes 120500", "x.wparams 16", "x.wparams 4", "x.wparams 256",
		fmt.Sprintf("a.dil %s", hx(g.bytes(2592))), fmt.Sprintf("a.xmssvalid %s", hx(g.bytes(20))),
		fmt.Sprintf("js.xvalid %s", hx([]byte("0x0102"+strings.Repeat("00", 18)))),
	)
	// Dilithium verification: a genuine signature and the ways a signature is turned away early (after some or all hints
	// were decoded, at the norm test, at the final comparison) — a verifier that keeps anything from one call to the
	// next shows when a genuine signature is verified right after one of those
	dk, _ := dilithium.NewDilithiumFromSeed(func() (a [48]uint8) { copy(a[:], unhex(dseed)); return }())
	dpk := dk.GetPK()
	dmsg := g.bytes(11)
	dsig, _ := dk.Sign(dmsg)
	// the rejected ones are made from a second genuine signature (other message, hence other hints): what a verifier
	// might keep from them differs from what the first signature brings along
	dmsg2 := g.bytes(12)
	dsig2, _ := dk.Sign(dmsg2)
	edit := func(f func(b []byte)) string { b := append([]byte{}, dsig2[:]...); f(b); return hx(b) }
	hs := len(dsig2) - 83 // hint section: 75 position bytes, 8 cumulative counters
	total := int(dsig2[len(dsig2)-1])
	goodV := fmt.Sprintf("dl.verify %s %s %s", hx(dmsg), hx(dsig[:]), hx(dpk[:]))
	goodO := fmt.Sprintf("dl.open %s %s", hx(dsig[:])+hx(dmsg), hx(dpk[:]))
	badV := []string{
		fmt.Sprintf("dl.verify %s %s %s", hx(g.bytes(11)), hx(dsig2[:]), hx(dpk[:])),                                          // other message
		fmt.Sprintf("dl.verify %s %s %s", hx(dmsg2), edit(func(b []byte) { b[3] ^= 0x10 }), hx(dpk[:])),                        // challenge bit
		fmt.Sprintf("dl.verify %s %s %s", hx(dmsg2), edit(func(b []byte) { b[32], b[33], b[34] = 0, 0, b[34]&0xf0 }), hx(dpk[:])), // z = γ1: norm test, hints already decoded
		fmt.Sprintf("dl.verify %s %s %s", hx(dmsg2), edit(func(b []byte) { b[32+6*640+637] = 0; b[32+6*640+638] = 0; b[32+6*640+639] = 0 }), hx(dpk[:])),
		fmt.Sprintf("dl.verify %s %s %s", hx(dmsg2), edit(func(b []byte) { b[len(b)-1] = 76 }), hx(dpk[:])),                     // last counter > ω: seven rows decoded
		fmt.Sprintf("dl.verify %s %s %s", hx(dmsg2), edit(func(b []byte) { b[len(b)-1] = byte(total - 1); b[len(b)-2] = byte(total) }), hx(dpk[:])), // counters decrease
		fmt.Sprintf("dl.verify %s %s %s", hx(dmsg2), edit(func(b []byte) {
			if total < 75 {
				b[hs+74] = 9 // non-zero padding: every row decoded
			}
		}), hx(dpk[:])),
		fmt.Sprintf("dl.verify %s %s %s", hx(dmsg2), edit(func(b []byte) {
			if total >= 2 {
				b[hs+total-1] = b[hs+total-2] // repeated position at the very end of the last non-empty row
			}
		}), hx(dpk[:])),
		fmt.Sprintf("dl.verify %s %s %s", hx(dmsg2), edit(func(b []byte) {
			if total >= 2 {
				b[hs], b[hs+1] = b[hs+1], b[hs] // first two positions swapped (unordered inside a row, or moved across rows)
			}
		}), hx(dpk[:])),
		fmt.Sprintf("dl.open %s %s", edit(func(b []byte) { b[len(b)-1] = 76 })+hx(dmsg2), hx(dpk[:])),
		fmt.Sprintf("dl.open %s %s", edit(func(b []byte) { b[32], b[33], b[34] = 0, 0, b[34]&0xf0 })+hx(dmsg2), hx(dpk[:])),
	}
	// a second XMSS key (other height, other hash function): genuine, wrong-message and cut-short signatures
	x2 := newKey(g.bytes(48), 6, 0)
	x2pk := x2.GetPK()
	x2.SetIndex(37)
	sig2, _ := x2.Sign(dmsg)
	lines = append(lines,
		fmt.Sprintf("x.verify 16 %s %s %s", hx(dmsg), hx(sig2), hx(x2pk[:])),
		fmt.Sprintf("x.verify 16 %s %s %s", hx(dmsg2), hx(sig2), hx(x2pk[:])),
		fmt.Sprintf("x.verify 16 %s %s %s", hx(dmsg), hx(sig2[:len(sig2)-32]), hx(x2pk[:])),
		fmt.Sprintf("x.verify 16 %s %s %s", hx(dmsg), hx(sig2), hx(xpk[:])),
		fmt.Sprintf("a.xmss %s", hx(x2pk[:])))
	// a message above one MiB, verified by many goroutines at once later on (large inputs take other paths through a
	// hash wrapper than small ones)
	{
		bigMsg := bytes.Repeat([]byte{0xa7, 0x01}, 600000)
		xb := newKey(g.bytes(48), 4, 0)
		xbpk := xb.GetPK()
		sb, _ := xb.Sign(bigMsg)
		lines = append(lines, fmt.Sprintf("x.verify 16 %s %s %s", hx(bigMsg), hx(sb), hx(xbpk[:])))
	}
	lines = append(lines, goodV, goodO)
	lines = append(lines, badV...)
	// shared Dilithium key: created once, then signed with from every goroutine
	shared := newState()
	execOp(shared, "dl.new s "+dseed)
	dl := []string{"dl.sign s " + hx(msg), "dl.seal s " + hx(g.bytes(40)), "dl.sign s 01", "dl.seal s 0203", "dl.sign s " + hx(g.bytes(40)), "dl.seal s -"}
	// per-goroutine private XMSS keys
	priv := func(id int) []string {
		k := fmt.Sprintf("p%d", id)
		return []string{fmt.Sprintf("x.new %s %s 4 %d 0", k, hx(seed), id%3), "x.sign " + k + " 00", fmt.Sprintf("x.setidx %s 5", k), "x.sign " + k + " 01", "x.info " + k}
	}
	// sequential reference (these lines are also compared with the Lean model)
	g.note("sequential reference")
	want := map[string]string{}
	g.op("dl.new s %s", dseed)
	for _, l := range append(append([]string{}, lines...), dl...) {
		want[l] = g.op("%s", l)
	}
	for id := 0; id < 3; id++ {
		for _, l := range priv(id) {
			want[l] = g.op("%s", l)
		}
	}
	// history: a different order, with unrelated calls in between (including unusual Winternitz parameters)
	g.note("history independence")
	perturb := []string{
		fmt.Sprintf("x.verify 17 %s %s %s", hx(msg), hx(sig), hx(xpk[:])), fmt.Sprintf("x.verify 5 %s %s %s", hx(msg), hx(sig), hx(xpk[:])),
		fmt.Sprintf("x.verify 255 %s %s %s", hx(msg), hx(g.bytes(1124)), hx(xpk[:])), "x.wparams 17", "m.dec48 " + hx([]byte("zzzz")), "m.dec48 -",
	}
	hst := newState()
	execOp(hst, "dl.new s "+dseed)
	for round := 0; round < 3; round++ {
		for _, p := range perturb {
			execOp(hst, p)
		}
		order := g.rng.Perm(len(lines))
		for _, i := range order {
			got := execOp(hst, lines[i])
			g.check(got == want[lines[i]], "history-free", "a stateless call returns a different result after other calls: "+trunc(lines[i], 60), append(append([]string{}, perturb...), lines[i])...)
		}
		for _, l := range dl {
			got := execOp(hst, l)
			g.check(got == want[l], "history-free", "signing / sealing with the Dilithium key gives a different result after other calls: "+trunc(l, 60), l)
		}
		for id := 0; id < 3; id++ {
			for _, l := range priv(id) {
				got := execOp(hst, l)
				g.check(got == want[l], "history-free", "a fresh XMSS key behaves differently after other calls: "+trunc(l, 60), append(append([]string{}, perturb...), priv(id)...)...)
			}
		}
	}
	// a genuine signature right after each early rejection (and after two of them)
	g.note("verification after a rejected signature")
	for _, b := range badV {
		for _, good := range []string{goodV, goodO} {
			execOp(hst, b)
			got := execOp(hst, good)
			g.check(got == want[good], "history-free", "a genuine Dilithium signature is judged differently right after a rejected one: "+trunc(b, 40), b, good)
			execOp(hst, b)
			execOp(hst, b)
			got = execOp(hst, good)
			g.check(got == want[good], "history-free", "a genuine Dilithium signature is judged differently after two rejected ones: "+trunc(b, 40), b, b, good)
			gotb := execOp(hst, b)
			g.check(gotb == want[b], "history-free", "a rejected Dilithium signature is judged differently after a genuine one: "+trunc(b, 40), good, b)
		}
	}
	for _, ch := range hst.changedLater() {
		g.check(false, "result-changed-later", "bytes the library returned from one call were changed by a later call: "+ch, ch)
	}
	// history across processes: a fresh process that makes unusual (but accepted) calls FIRST must then give the
	// same answers as this one (state that is initialised lazily by the first caller shows only this way)
	g.note("history independence across fresh processes")
	if exe, err := os.Executable(); err == nil {
		for variant := 0; variant < 2; variant++ {
			var script []string
			if variant == 0 {
				script = append(script, perturb...)
			} else {
				script = append(script, fmt.Sprintf("x.new q %s 4 2 0", hx(seed)), "m.dec48 "+hx([]byte("zzzz")), fmt.Sprintf("x.verify 300 %s %s %s", hx(msg), hx(sig), hx(xpk[:])))
			}
			npre := len(script)
			script = append(script, lines...)
			for id := 0; id < 3; id++ {
				script = append(script, priv(id)...)
			}
			dir, _ := os.MkdirTemp("", "c15hist")
			opsFile := filepath.Join(dir, "ops.txt")
			writeLines(opsFile, script)
			outb, err := exec.Command(exe, "run", opsFile).Output()
			os.RemoveAll(dir)
			got := strings.Split(strings.TrimRight(string(outb), "\n"), "\n")
			g.check(err == nil && len(got) >= len(script), "history-free-process", fmt.Sprintf("fresh process running the history script failed: %v", err), script...)
			if err != nil || len(got) < len(script) {
				continue
			}
			for i := npre; i < len(script); i++ {
				g.check(got[i] == want[script[i]], "history-free-process", "in a fresh process, after unusual first calls, a stateless call / fresh key answers differently: "+trunc(script[i], 60), append(append([]string{}, script[:npre]...), script[i])...)
			}
		}
	}
	// two key objects built one after the other from the same seed at height 10 (taller trees take other paths through
	// key generation than the small ones above), used side by side: each behaves like a key that is alone
	g.note("two objects of one seed, height 10")
	{
		tseed := g.bytes(48)
		ref := newKey(tseed, 10, 1)
		var wantSigs [][]byte
		for i := 0; i < 4; i++ {
			sg, _ := ref.Sign([]byte{byte(i)})
			wantSigs = append(wantSigs, sg)
		}
		a, b := newKey(tseed, 10, 1), newKey(tseed, 10, 1)
		ops := []string{fmt.Sprintf("x.new a %s 10 1 0", hx(tseed)), fmt.Sprintf("x.new b %s 10 1 0", hx(tseed))}
		for i := 0; i < 4; i++ {
			sa, _ := a.Sign([]byte{byte(i)})
			g.check(bytes.Equal(sa, wantSigs[i]), "history-free", fmt.Sprintf("a second key object of the same seed (height 10) signs index %d differently from the first", i), append(ops, "x.sign a …")...)
		}
		var wg2 sync.WaitGroup
		c, d := newKey(tseed, 10, 1), newKey(tseed, 10, 1)
		res := make([][][]byte, 3)
		for t, k := range []*xmss.XMSS{b, c, d} {
			wg2.Add(1)
			go func(t int, k *xmss.XMSS) {
				defer wg2.Done()
				defer func() { recover() }()
				for i := 0; i < 4; i++ {
					sg, _ := k.Sign([]byte{byte(i)})
					res[t] = append(res[t], sg)
				}
			}(t, k)
		}
		wg2.Wait()
		for t := range res {
			okAll := len(res[t]) == 4
			for i := 0; okAll && i < 4; i++ {
				okAll = bytes.Equal(res[t][i], wantSigs[i])
			}
			g.check(okAll, "concurrent-private-xmss", "distinct XMSS key objects of the same seed (height 10) used in parallel do not sign like a key that is alone", ops...)
		}
	}
	// concurrency: N goroutines, stateless calls + the shared Dilithium key + private XMSS keys
	g.note("concurrent execution")
	N := 16
	rounds := 3
	if g.thorough {
		rounds = 12
	}
	var mu sync.Mutex
	var wg sync.WaitGroup
	start := make(chan struct{})
	for t := 0; t < N; t++ {
		wg.Add(1)
		order := g.rng.Perm(len(lines))
		go func(t int, order []int) {
			defer wg.Done()
			<-start
			st := newState()
			st.dkeys = shared.dkeys // the shared key object (read-only map)
			for r := 0; r < rounds; r++ {
				for _, i := range order {
					got := execOp(st, lines[i])
					mu.Lock()
					g.check(got == want[lines[i]], "concurrent-result", "a stateless call returned a different result when run alongside others: "+trunc(lines[i], 60), lines[i])
					mu.Unlock()
				}
				for _, l := range dl {
					got := execOp(st, l)
					mu.Lock()
					g.check(got == want[l], "concurrent-shared-dilithium", "signing with a shared Dilithium key from several goroutines gave a different signature", l)
					mu.Unlock()
				}
				for _, l := range priv(t % 3) {
					got := execOp(st, l)
					mu.Lock()
					g.check(got == want[l], "concurrent-private-xmss", "a private XMSS key used in parallel with others behaved differently: "+trunc(l, 50), priv(t%3)...)
					mu.Unlock()
				}
			}
			for _, ch := range st.changedLater() {
				mu.Lock()
				g.check(false, "result-changed-later", "bytes returned to one goroutine were changed afterwards (by a later call or by another goroutine): "+ch, ch)
				mu.Unlock()
			}
		}(t, order)
	}
	close(start)
	wg.Wait()
}
