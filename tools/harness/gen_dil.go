package main

import (
	"bufio"
	"bytes"
	"encoding/binary"
	"fmt"
	"os"
	"os/exec"
	"strings"
	"sync"

	"github.com/theQRL/go-qrllib/dilithium"
	"golang.org/x/crypto/sha3"
)

func init() {
	generators["C03"] = genC03
	generators["C05"] = genC05
	generators["C07"] = genC07
	generators["C12"] = genC12
	generators["C13"] = genC13
}

const (
	dK      = 8
	dL      = 7
	dQ      = 8380417
	dGamma1 = 1 << 19
	dGamma2 = (dQ - 1) / 32
	dBeta   = 120
	dOmega  = 75
	dD      = 13
)

// corpus of messages (under the zero-seed key) that meet a rejection bound with equality
func loadCorpus(kinds ...string) map[string][][]byte {
	out := map[string][][]byte{}
	dir := os.Getenv("VERIF_DIR")
	if dir == "" {
		dir = "/verif"
	}
	f, err := os.Open(dir + "/corpus/dilithium_boundary.txt")
	if err != nil {
		return out
	}
	defer f.Close()
	sc := bufio.NewScanner(f)
	want := map[string]bool{}
	for _, k := range kinds {
		want[k] = true
	}
	for sc.Scan() {
		p := strings.Fields(sc.Text())
		if len(p) == 2 && (len(kinds) == 0 || want[p[0]]) {
			out[p[0]] = append(out[p[0]], unhex(p[1]))
		}
	}
	return out
}

func zeroKey() *dilithium.Dilithium {
	var seed [48]byte
	d, _ := dilithium.NewDilithiumFromSeed(seed)
	return d
}

// ---------------------------------------------------------------- C03

func (g *gen) signVerifyRoundtrip(id string, d *dilithium.Dilithium, msg []byte, diffed bool) {
	pk := d.GetPK()
	sig, err := d.Sign(msg)
	line := fmt.Sprintf("dl.sign %s %s", id, hx(msg))
	g.check(err == nil, "sign-returns", "Sign returned an error", line)
	v := dilithium.Verify(msg, sig, &pk)
	g.check(v, "verify-sign", fmt.Sprintf("Verify(msg, Sign(msg), PK) = false for msg=%s", hx(msg)), line, fmt.Sprintf("dl.verify %s %s %s", hx(msg), hx(sig[:]), hx(pk[:])))
	sm, err2 := d.Seal(msg)
	g.st.hold("dl.seal "+id+" "+hx(msg), sm)
	g.check(err2 == nil && bytes.Equal(dilithium.Open(sm, &pk), msg) && (len(msg) > 0 || dilithium.Open(sm, &pk) != nil), "open-seal", "Open(Seal(msg)) != msg for msg="+hx(msg), line)
	g.check(bytes.Equal(dilithium.ExtractSignature(sm), sig[:]), "extract-signature", "ExtractSignature(Seal(msg)) != Sign(msg)", line)
	g.check(bytes.Equal(dilithium.ExtractMessage(sm), msg), "extract-message", "ExtractMessage(Seal(msg)) != msg", line)
	if diffed {
		s := g.op("%s", line)
		sv, _ := okval(s)
		g.op("dl.verify %s %s %s", hx(msg), sv, hx(pk[:]))
		g.op("dl.open %s %s", hx(append(append([]byte{}, sig[:]...), msg...)), hx(pk[:]))
		sk := d.GetSK()
		g.op("dl.exits %s %s", hx(sk[:]), hx(msg))
	}
}

func genC03(g *gen) {
	g.note("corpus: signatures that meet a rejection bound with equality (zero-seed key)")
	z := zeroKey()
	g.op("dl.new z %s", hx(make([]byte, 48)))
	g.op("dl.filled %s", hx(make([]byte, 48)))
	corpus := loadCorpus("corner-pos", "corner-neg-zero", "corner-neg-nonzero", "hint-75", "hint-reject-edge", "z-accept-edge", "w0-accept-edge", "empty-hint-row",
		"many-attempts", "nonce-ge-256", "attempts-ge-45", "attempts-ge-50")
	for kind, msgs := range corpus {
		lim := 1
		if g.thorough {
			lim = 4
		}
		if strings.Contains(kind, "attempts") || kind == "nonce-ge-256" {
			lim = 0 // 15 … 54 iterations of the rejection loop: implementation only (about a second each in the Lean model)
		}
		for i, m := range msgs {
			g.signVerifyRoundtrip("z", z, m, i < lim)
			g.counts["corpus:"+kind]++
		}
	}
	g.note("seeds × messages (empty, short, long)")
	nseeds, nmsgs := 2, 6
	if g.thorough {
		nseeds, nmsgs = 6, 12
	}
	lens := []int{0, 1, 7, 32, 1000, 100000}
	for s := 0; s < nseeds; s++ {
		var seed [48]byte
		copy(seed[:], g.bytes(48))
		d, _ := dilithium.NewDilithiumFromSeed(seed)
		id := fmt.Sprintf("d%d", s)
		g.op("dl.new %s %s", id, hx(seed[:]))
		g.op("dl.filled %s", hx(seed[:])) // hypothesis `Expanded` of C03.verify_sign on this seed (evaluated by the model)
		for k := 0; k < nmsgs; k++ {
			n := lens[k%len(lens)]
			g.signVerifyRoundtrip(id, d, g.bytes(n), k < 2 && n <= 1000)
		}
	}
	// implementation only, many more: every signature must verify (covers rejection-loop paths the model run is too slow to cover)
	n := 3000
	if g.thorough {
		n = 40000
	}
	var mu sync.Mutex
	pk := z.GetPK()
	parallel(n, func(i int) {
		var m [12]byte
		binary.LittleEndian.PutUint64(m[:], uint64(i)+uint64(g.seed)<<32)
		sig, _ := z.Sign(m[:])
		ok := dilithium.Verify(m[:], sig, &pk)
		mu.Lock()
		g.check(ok, "verify-sign", "Verify(Sign(m)) = false for msg="+hx(m[:]), "dl.new z "+hx(make([]byte, 48)), "dl.sign z "+hx(m[:]))
		mu.Unlock()
	})
	// implementation only, many keys: a defect of key generation that matters for some seeds only (a rounding tie, a rare
	// sampler path) shows as signatures that do not verify under that key
	nk := 1500
	if g.thorough {
		nk = 20000
	}
	parallel(nk, func(i int) {
		var seed [48]byte
		binary.LittleEndian.PutUint64(seed[:], uint64(i))
		binary.LittleEndian.PutUint64(seed[40:], uint64(g.seed))
		d, err := dilithium.NewDilithiumFromSeed(seed)
		if err != nil {
			return
		}
		kpk := d.GetPK()
		for j := 0; j < 2; j++ {
			m := []byte{byte(i), byte(i >> 8), byte(j)}
			if j == 1 {
				m = nil
			}
			sig, e1 := d.Sign(m)
			ok := e1 == nil && dilithium.Verify(m, sig, &kpk)
			sm, e2 := d.Seal(m)
			o := dilithium.Open(sm, &kpk)
			mu.Lock()
			g.check(ok, "verify-sign", fmt.Sprintf("Verify(Sign(m)) = false for the key of seed %s, msg=%s", hx(seed[:]), hx(m)), "dl.new k "+hx(seed[:]), "dl.sign k "+hx(m))
			g.check(e2 == nil && o != nil && bytes.Equal(o, m), "open-seal", fmt.Sprintf("Open(Seal(m)) != m for the key of seed %s, msg=%s", hx(seed[:]), hx(m)), "dl.new k "+hx(seed[:]), "dl.seal k "+hx(m))
			mu.Unlock()
		}
	})
}

// ---------------------------------------------------------------- C05

// modelLines asks the Lean model (compiled driver) to evaluate protocol lines; used for the malicious signer.
func modelLines(lines []string) []string {
	drv := os.Getenv("VERIF_DRIVER")
	if drv == "" {
		drv = "/verif/lean/.lake/build/bin/qrldriver"
		if d := os.Getenv("VERIF_DIR"); d != "" {
			drv = d + "/lean/.lake/build/bin/qrldriver"
		}
	}
	cmd := exec.Command(drv)
	cmd.Stdin = strings.NewReader(strings.Join(lines, "\n") + "\n")
	out, err := cmd.Output()
	if err != nil {
		return nil
	}
	return strings.Split(strings.TrimRight(string(out), "\n"), "\n")
}

func (g *gen) mustReject(what string, msg []byte, sig []byte, pk [2592]byte, diffed bool) {
	var s [4595]byte
	copy(s[:], sig)
	line := fmt.Sprintf("dl.verify %s %s %s", hx(msg), hx(sig), hx(pk[:]))
	v := dilithium.Verify(msg, s, &pk)
	o := dilithium.Open(append(append([]byte{}, sig...), msg...), &pk)
	g.check(!v, "strict:"+what, "Verify accepts a signature with "+what, line)
	g.check(o == nil, "strict-open:"+what, "Open returns a message for a signature with "+what, line)
	if diffed {
		g.op("%s", line)
	}
}

func genC05(g *gen) {
	z := zeroKey()
	pk, sk := z.GetPK(), z.GetSK()
	msg := []byte("strictness")
	sig, _ := z.Sign(msg)
	g.note("honest signature accepted")
	g.check(g.op("dl.verify %s %s %s", hx(msg), hx(sig[:]), hx(pk[:])) == "ok true", "honest-accepted", "honest signature rejected")
	// the accepting direction, for Verify and Open alike: Open must return the message (not "nothing") exactly when Verify
	// accepts — for the empty message, one byte, a message as long as a signature, a long one
	g.note("accepted triples: Verify and Open agree")
	for _, m := range [][]byte{{}, nil, {0}, {0xff}, g.bytes(31), make([]byte, 4595), g.bytes(4595), g.bytes(20000)} {
		sg, err := z.Sign(m)
		if err != nil {
			continue
		}
		sm := append(append([]byte{}, sg[:]...), m...)
		v := dilithium.Verify(m, sg, &pk)
		o := dilithium.Open(sm, &pk)
		line := fmt.Sprintf("dl.open %s %s", hx(sm), hx(pk[:]))
		g.check(v, "honest-accepted", fmt.Sprintf("honest signature on a %d-byte message rejected by Verify", len(m)), line)
		g.check(v == (o != nil), "open-iff-verify", fmt.Sprintf("Verify accepts a signature on a %d-byte message and Open returns nothing for the same bytes (or the reverse)", len(m)), line)
		g.check(o == nil || string(o) == string(m), "open-returns-message", fmt.Sprintf("Open returns something other than the %d-byte message", len(m)), line)
		if len(m) < 100 {
			g.op("%s", line)
		}
		// sealed by the library itself
		if sm2, err := z.Seal(m); err == nil {
			o2 := dilithium.Open(sm2, &pk)
			g.check(o2 != nil && string(o2) == string(m), "open-iff-verify", fmt.Sprintf("Open(Seal(m)) returns nothing / another message for a %d-byte message", len(m)), fmt.Sprintf("dl.open %s %s", hx(sm2), hx(pk[:])))
		}
	}
	// implementation only: thousands of honest signatures (empty hint rows, hint counts up to 75, rows ending in 255, every
	// shape the signer produces) must be accepted by Verify and by Open
	{
		nh := 3000
		if g.thorough {
			nh = 40000
		}
		var hmu sync.Mutex
		parallel(nh, func(i int) {
			var m [10]byte
			binary.LittleEndian.PutUint64(m[:], uint64(i)+uint64(g.seed)<<40)
			sg, err := z.Sign(m[:])
			v := err == nil && dilithium.Verify(m[:], sg, &pk)
			o := dilithium.Open(append(append([]byte{}, sg[:]...), m[:]...), &pk)
			hmu.Lock()
			g.check(v, "honest-accepted", "an honest signature is rejected by Verify: msg="+hx(m[:]), "dl.new z "+hx(make([]byte, 48)), "dl.sign z "+hx(m[:]))
			g.check(v == (o != nil), "open-iff-verify", "Verify and Open disagree on an honest signature: msg="+hx(m[:]), "dl.new z "+hx(make([]byte, 48)), "dl.sign z "+hx(m[:]))
			hmu.Unlock()
		})
	}
	// keys and signatures made OUTSIDE the library (independent reference key generation and signer, many seeds): valid by
	// the specification, so Verify and Open must accept them — a verifier that expands the matrix or decodes the key
	// differently from the specification for some keys only is found here, although its own signatures still verify
	{
		nr := 1500
		if g.thorough {
			nr = 20000
		}
		var rmu sync.Mutex
		parallel(nr, func(i int) {
			var seed [48]byte
			binary.LittleEndian.PutUint64(seed[:], uint64(i))
			binary.LittleEndian.PutUint64(seed[16:], uint64(g.seed))
			xi := make([]byte, 32)
			sha3.ShakeSum256(xi, seed[:])
			rk := refKeyFull(xi)
			m := []byte{byte(i), byte(i >> 8), 0x5a}
			rs, _, _ := refSign(rk, m)
			if rs == nil {
				return
			}
			var rpk [2592]byte
			var rsig [4595]byte
			copy(rpk[:], rk.pk)
			copy(rsig[:], rs)
			v := dilithium.Verify(m, rsig, &rpk)
			o := dilithium.Open(append(append([]byte{}, rs...), m...), &rpk)
			line := fmt.Sprintf("dl.verify %s %s %s", hx(m), hx(rs), hx(rk.pk))
			rmu.Lock()
			g.check(v, "reference-signature-accepted", "a signature made by the independent reference signer under the reference key for seed "+hx(seed[:])+" (valid by the specification) is rejected by Verify", line)
			g.check(v == (o != nil), "open-iff-verify", "Verify and Open disagree on a reference signature", line)
			rmu.Unlock()
		})
	}
	hoff := 32 + 7*640
	// ---- hint-section edits that isolate one decoder check ----
	g.note("hint section edits")
	hs := sig[hoff:]
	cnt := func(i int) int { return int(hs[dOmega+i]) }
	total := cnt(7)
	// (1) swap two adjacent indices inside one row (same hint set, only the ordering check can reject)
	for i := 0; i < 8; i++ {
		lo := 0
		if i > 0 {
			lo = cnt(i - 1)
		}
		if cnt(i)-lo >= 2 {
			s := sig
			s[hoff+lo], s[hoff+lo+1] = s[hoff+lo+1], s[hoff+lo]
			g.mustReject("unordered hint indices", msg, s[:], pk, i < 2)
			s = sig
			s[hoff+lo+1] = s[hoff+lo] // duplicate index
			g.mustReject("a duplicated hint index", msg, s[:], pk, i < 2)
		}
	}
	// (1') the same at every adjacent pair of every row, over several signatures (rows ending in index 255, long rows, …)
	for m := 0; m < 24; m++ {
		mm := []byte(fmt.Sprintf("strictness %d", m))
		sg, _ := z.Sign(mm)
		h2 := sg[hoff:]
		for i := 0; i < 8; i++ {
			lo := 0
			if i > 0 {
				lo = int(h2[dOmega+i-1])
			}
			for p := lo; p+1 < int(h2[dOmega+i]); p++ {
				s := sg
				s[hoff+p], s[hoff+p+1] = s[hoff+p+1], s[hoff+p]
				g.mustReject(fmt.Sprintf("unordered hint indices (%d before %d)", s[hoff+p], s[hoff+p+1]), mm, s[:], pk, false)
			}
			// duplicate the last index of the row into the next slot when the row is the last non-empty one and padding is free:
			// same hint set, one repeated index (accepted iff the ordering test is not strict there)
			if i == 7 && int(h2[dOmega+7]) < dOmega && int(h2[dOmega+7]) > lo {
				s := sg
				t := int(h2[dOmega+7])
				s[hoff+t] = s[hoff+t-1]
				s[hoff+dOmega+7]++
				g.mustReject(fmt.Sprintf("a repeated last hint index (%d)", s[hoff+t]), mm, s[:], pk, false)
			}
		}
	}
	// (2) non-zero padding at every padding position
	for j := total; j < dOmega; j++ {
		s := sig
		s[hoff+j] = byte(1 + g.rng.Intn(255))
		g.mustReject(fmt.Sprintf("non-zero hint padding at slot %d", j), msg, s[:], pk, j == total || j == dOmega-1)
	}
	// (3) repeat the last index in the first padding slot and bump the last counter (accepted iff ordering uses <)
	if total < dOmega && total > 0 {
		s := sig
		s[hoff+total] = s[hoff+total-1]
		s[hoff+dOmega+7]++
		g.mustReject("a repeated last hint index", msg, s[:], pk, true)
	}
	// (4) counts: decreasing, over OMEGA, and a count byte that walks past the hint section with increasing indices
	for i := 0; i < 8; i++ {
		s := sig
		s[hoff+dOmega+i] = byte(dOmega + 1 + g.rng.Intn(100))
		g.mustReject("a hint count above OMEGA", msg, s[:], pk, i%4 == 0)
		if i > 0 && cnt(i-1) > 0 {
			s = sig
			s[hoff+dOmega+i] = byte(cnt(i-1) - 1)
			g.mustReject("decreasing hint counts", msg, s[:], pk, i%4 == 1)
		}
	}
	{
		s := sig
		for j := 0; j < dOmega; j++ {
			s[hoff+j] = byte(j)
		}
		s[hoff+dOmega] = 84
		for i := 1; i < 8; i++ {
			s[hoff+dOmega+i] = byte(84 + i)
		}
		g.mustReject("hint counts running past the hint section", msg, s[:], pk, true)
	}
	// ---- every single-bit flip of signature and public key (implementation, all cores) ----
	g.note("single-bit flips")
	var mu sync.Mutex
	parallel(4595*8, func(b int) {
		s := sig
		s[b/8] ^= 1 << (b % 8)
		v := dilithium.Verify(msg, s, &pk)
		mu.Lock()
		g.check(!v, "sig-bitflip-rejected", fmt.Sprintf("flipping signature bit %d (byte %d) is accepted", b, b/8), fmt.Sprintf("dl.verify %s %s %s", hx(msg), hx(s[:]), hx(pk[:])))
		mu.Unlock()
	})
	nb := 2592 * 8
	parallel(nb, func(b int) {
		p := pk
		p[b/8] ^= 1 << (b % 8)
		v := dilithium.Verify(msg, sig, &p)
		mu.Lock()
		g.check(!v, "pk-bitflip-rejected", fmt.Sprintf("flipping public-key bit %d is accepted", b), fmt.Sprintf("dl.verify %s %s %s", hx(msg), hx(sig[:]), hx(p[:])))
		mu.Unlock()
	})
	for k := 0; k < 6; k++ {
		s := sig
		b := g.rng.Intn(4595 * 8)
		s[b/8] ^= 1 << (b % 8)
		g.op("dl.verify %s %s %s", hx(msg), hx(s[:]), hx(pk[:]))
	}
	g.mustReject("another message", []byte("strictnesS"), sig[:], pk, true)
	{
		var seed2 [48]byte
		seed2[0] = 1
		d2, _ := dilithium.NewDilithiumFromSeed(seed2)
		g.mustReject("another key", msg, sig[:], d2.GetPK(), true)
	}
	// ---- a signer that holds the key but skips one signing-side check (Lean model as the malicious signer) ----
	g.note("malicious signer: one signing-side check skipped")
	corpus := loadCorpus("z-reject-edge", "w0-reject-edge", "hint-reject-edge", "hint-reject")
	type mal struct {
		cfg  string
		msgs [][]byte
	}
	mals := []mal{{"z", corpus["z-reject-edge"]}, {"hint", append(corpus["hint-reject-edge"], corpus["hint-reject"]...)}, {"w0", corpus["w0-reject-edge"]}}
	var lines []string
	var meta []struct {
		cfg string
		msg []byte
	}
	lim := 2
	if g.thorough {
		lim = 4
	}
	for _, m := range mals {
		for i, mm := range m.msgs {
			if i >= lim {
				break
			}
			lines = append(lines, fmt.Sprintf("dl.malsign %s %s %s", m.cfg, hx(sk[:]), hx(mm)))
			meta = append(meta, struct {
				cfg string
				msg []byte
			}{m.cfg, mm})
		}
	}
	outs := modelLines(lines)
	g.check(len(outs) == len(lines), "malicious-signer-available", "the Lean model did not produce the malicious signatures")
	for i, o := range outs {
		if i >= len(meta) {
			break
		}
		v, ok := okval(o)
		if !ok {
			continue
		}
		parts := strings.Fields(v)
		if len(parts) != 2 {
			continue
		}
		ms := unhex(parts[0])
		viol := parts[1] // which skipped checks were violated in the accepted attempt
		g.counts["malicious:"+meta[i].cfg+":"+viol]++
		switch {
		case meta[i].cfg == "z" && strings.Contains(viol, "z"):
			g.mustReject("an out-of-range response (|z| >= GAMMA1-BETA, produced by a key-holding signer)", meta[i].msg, ms, pk, true)
		case meta[i].cfg == "hint" && strings.Contains(viol, "hint"):
			g.mustReject("more than OMEGA hints", meta[i].msg, ms, pk, true)
		default:
			// the skipped check was not the binding one (e.g. w0 bound: verification is unaffected by construction); compare only
			g.op("dl.verify %s %s %s", hx(meta[i].msg), hx(ms), hx(pk[:]))
		}
	}
	// z exactly at the bound, built directly: take the honest signature and re-encode one coefficient as ±(GAMMA1-BETA)
	for _, val := range []int32{dGamma1 - dBeta, -(dGamma1 - dBeta), dGamma1 - dBeta - 1} {
		s := sig
		zb := dilithium.VerifUnpack("z", s[32:32+640])
		zb[5] = val
		copy(s[32:], dilithium.VerifPack("z", &zb))
		line := fmt.Sprintf("dl.verify %s %s %s", hx(msg), hx(s[:]), hx(pk[:]))
		g.op("%s", line)
	}
	g.op("dl.chknorm %d %s", dGamma1-dBeta, polyStr(func() []int32 { p := make([]int32, 256); p[9] = dGamma1 - dBeta; return p }()))
	g.op("dl.chknorm %d %s", dGamma1-dBeta, polyStr(func() []int32 { p := make([]int32, 256); p[9] = -(dGamma1 - dBeta); return p }()))
	g.op("dl.chknorm %d %s", dGamma1-dBeta, polyStr(func() []int32 { p := make([]int32, 256); p[9] = -(dGamma1 - dBeta) + 1; return p }()))
}

// ---------------------------------------------------------------- C07

func genC07(g *gen) {

	// ---- search: the library's key generation against an independent specification-level key generation (plain
	// modular arithmetic, ref_dil.go), over many seeds in parallel: boundary conditions of probability 10^-4 per key
	g.note("key generation vs an independent specification-level reference, many seeds")
	{
		n := 4000 // the search after a broken obligation runs the thorough size
		if g.thorough {
			n = 120000
		}
		var mu sync.Mutex
		parallel(n, func(i int) {
			var seed [48]byte
			binary.BigEndian.PutUint64(seed[40:], uint64(i)+uint64(g.seed)<<32)
			d, err := dilithium.NewDilithiumFromSeed(seed)
			if err != nil {
				return
			}
			xi := make([]byte, 32)
			sha3.ShakeSum256(xi, seed[:])
			pkR, skR := refKeygen(xi)
			pk, sk := d.GetPK(), d.GetSK()
			ok := bytes.Equal(pk[:], pkR) && bytes.Equal(sk[:], skR)
			mu.Lock()
			g.check(ok, "keygen-vs-reference", "key pair differs from the specification-level reference for seed "+hx(seed[:]), "dl.new k "+hx(seed[:]))
			mu.Unlock()
		})
	}
	// signatures against the independent reference signer: thousands of (key, message) pairs, the boundary corpus of
	// the zero-seed key included — rare paths of the signer (a hint at the −γ2 corner, an empty hint row, many
	// rejections, nonces beyond 255) are compared byte for byte
	g.note("signing vs an independent specification-level reference signer")
	{
		n := 3000
		nkeys := 12
		if g.thorough {
			n, nkeys = 40000, 60
		}
		type kp struct {
			d *dilithium.Dilithium
			r *refKey
			s [48]byte
		}
		keys := make([]kp, nkeys)
		parallel(nkeys, func(i int) {
			var seed [48]byte
			if i > 0 { // key 0 is the zero-seed key of the corpus
				binary.LittleEndian.PutUint64(seed[:], uint64(i))
				binary.LittleEndian.PutUint64(seed[8:], uint64(g.seed))
			}
			d, _ := dilithium.NewDilithiumFromSeed(seed)
			xi := make([]byte, 32)
			sha3.ShakeSum256(xi, seed[:])
			keys[i] = kp{d, refKeyFull(xi), seed}
		})
		var cm [][]byte
		for _, ms := range loadCorpus() {
			cm = append(cm, ms...)
		}
		var mu sync.Mutex
		parallel(n+len(cm), func(i int) {
			k := keys[i%nkeys]
			var m []byte
			if i >= n {
				k, m = keys[0], cm[i-n]
			} else {
				m = make([]byte, 4+i%40)
				copy(m, []byte{byte(i), byte(i >> 8), byte(i >> 16), byte(g.seed)})
			}
			sig, err := k.d.Sign(m)
			ref, att, fd := refSign(k.r, m)
			ok := err == nil && bytes.Equal(sig[:], ref)
			mu.Lock()
			g.check(ok, "sign-vs-reference", fmt.Sprintf("the signature differs from the specification-level reference signer for the key of seed %s, msg=%s (reference: %d attempts)", hx(k.s[:]), hx(m), att),
				"dl.new k "+hx(k.s[:]), "dl.sign k "+hx(m))
			g.counts[fmt.Sprintf("ref-sign-attempts:%d", att)]++
			if fd > 0 {
				g.counts["ref-sign-lowbits-formulations-differ"] += fd
			}
			mu.Unlock()
		})
	}
	g.note("key generation and deterministic signing against the model")
	nseeds := 2
	if g.thorough {
		nseeds = 8
	}
	for s := 0; s < nseeds; s++ {
		seed := g.bytes(32)
		out := g.op("dl.keypair %s", hx(seed))
		sk := field(out, "sk")
		m := g.bytes(1 + g.rng.Intn(50))
		a := g.op("dl.signsk %s %s", sk, hx(m))
		// same message again, after another call: identical
		var skb [4864]byte
		copy(skb[:], unhex(sk))
		dilithium.VerifSignWithSK(g.bytes(3), &skb)
		sm, _ := dilithium.VerifSignWithSK(m, &skb)
		g.check("ok "+hx(sm[:4595]) == a, "sign-deterministic", "signing the same message again gives a different signature")
	}
	g.note("boundary corpus (zero-seed key): rejection tests met with equality")
	z := zeroKey()
	g.op("dl.new z %s", hx(make([]byte, 48)))
	kinds := []string{"z-accept-edge", "z-reject-edge", "w0-accept-edge", "w0-reject-edge", "hint-75", "hint-reject-edge", "corner-pos", "corner-neg-zero", "corner-neg-nonzero", "empty-hint-row"}
	if g.thorough {
		kinds = append(kinds, "nonce-ge-256", "many-attempts", "hint-74")
	}
	corpus := loadCorpus(kinds...)
	lim := 1
	if g.thorough {
		lim = 4
	}
	for _, k := range kinds {
		for i, m := range corpus[k] {
			if i >= lim {
				break
			}
			s1 := g.op("dl.sign z %s", hx(m))
			sig, _ := z.Sign(m)
			g.check(s1 == "ok "+hx(sig[:]), "sign-deterministic", "Sign is not repeatable for corpus message "+hx(m))
			g.counts["corpus:"+k]++
		}
	}
	g.note("samplers at their acceptance boundaries")
	tri := func(t uint32) []byte { return []byte{byte(t), byte(t >> 8), byte(t >> 16)} }
	var buf []byte
	for _, t := range []uint32{dQ - 1, dQ, dQ + 1, 0, 0x7fffff, dQ | 0x800000, (dQ - 1) | 0x800000, 1, dQ - 2} {
		buf = append(buf, tri(t)...)
	}
	g.op("dl.rejuniform 256 %s", hx(buf))
	g.op("dl.rejuniform 4 %s", hx(buf))
	g.op("dl.rejuniform 256 %s", hx(buf[:len(buf)-1]))
	g.op("dl.rejuniform 256 %s", hx(g.bytes(840)))
	g.op("dl.rejuniform 0 %s", hx(g.bytes(9)))
	eb := []byte{}
	for v := 0; v < 256; v++ {
		eb = append(eb, byte(v))
	}
	g.op("dl.rejeta 600 %s", hx(eb))
	g.op("dl.rejeta 7 %s", hx(eb))
	g.op("dl.rejeta 256 %s", hx([]byte{0xff, 0xfe, 0xef, 0xee, 0x0f, 0xf0, 0x4a}))
	g.op("dl.rejeta 1 %s", hx([]byte{0x21}))
	for _, nonce := range []int{0, 1, 255, 256, 257, 0x0706, 0xffff} {
		g.op("dl.uniform %s %d", hx(g.bytes(32)), nonce)
		g.op("dl.eta %s %d", hx(g.bytes(64)), nonce)
		g.op("dl.gamma1 %s %d", hx(g.bytes(64)), nonce)
	}
	for i := 0; i < 6; i++ {
		g.op("dl.challenge %s", hx(g.bytes(32)))
	}
	for _, cs := range loadCorpus("challenge-long")["challenge-long"] { // expansions that reject unusually many candidates
		g.op("dl.challenge %s", hx(cs))
	}
	// seeds whose matrix expansion meets t == q exactly cannot be crafted; a long random sweep of the sampler itself:
	if g.thorough {
		for i := 0; i < 200; i++ {
			g.op("dl.uniform %s %d", hx(g.bytes(32)), g.rng.Intn(65536))
		}
	}
}

// ---------------------------------------------------------------- C12

func cmod(a int64, m int64) int64 { // centred representative in (-m/2, m/2]
	r := ((a % m) + m) % m
	if r > m/2 {
		r -= m
	}
	return r
}

func specDecompose(a int32) (int32, int32) {
	r0 := int32(cmod(int64(a), 2*dGamma2))
	if a-r0 == dQ-1 {
		return 0, r0 - 1
	}
	return (a - r0) / (2 * dGamma2), r0
}

func specPower2Round(a int32) (int32, int32) {
	r0 := int32(cmod(int64(a), 1<<dD))
	return (a - r0) >> dD, r0
}

func specUseHint(a int32, h int) int32 {
	a1, a0 := specDecompose(a)
	if h == 0 {
		return a1
	}
	if a0 > 0 {
		return (a1 + 1) % 16
	}
	return (a1 + 15) % 16
}

func genC12(g *gen) {
	g.note("scalar functions: boundary and random operands against the generated Lean definitions")
	for _, a := range []int64{0, 1, -1, dQ, -dQ, dQ - 1, 1 << 31, -(1 << 31), (1 << 31) * dQ, -(1 << 31) * dQ, (1<<31)*dQ - 1, 1 << 62, -(1 << 62), 58728449, 4193792, 1<<63 - 1, -(1 << 63)} {
		g.op("dl.mont %d", a)
	}
	for i := 0; i < 60; i++ {
		g.op("dl.mont %d", g.rng.Int63n(2*(1<<31)*dQ)-(1<<31)*dQ)
	}
	for _, a := range []int64{0, 1, -1, dQ, -dQ, 1<<31 - 1, -(1 << 31), 1<<31 - (1 << 22) - 1, 1<<31 - (1 << 22), 4194303, 4194304, -4194304, -4194305, 6283008} {
		g.op("dl.red %d", a)
		g.op("dl.caddq %d", a)
	}
	edge := []int64{0, 1, dGamma2 - 1, dGamma2, dGamma2 + 1, 2*dGamma2 - 1, 2 * dGamma2, 2*dGamma2 + 1, dQ - 1, dQ - 2, dQ - dGamma2 - 1, dQ - dGamma2, dQ - dGamma2 + 1, 4095, 4096, 4097, 8191, 8192, (dQ - 1) / 2, (dQ + 1) / 2}
	for _, a := range edge {
		g.op("dl.p2r %d", a)
		g.op("dl.decomp %d", a)
		g.op("dl.usehint %d 0", a)
		g.op("dl.usehint %d 1", a)
	}
	for i := 0; i < 60; i++ {
		a := g.rng.Int63n(dQ)
		g.op("dl.decomp %d", a)
		g.op("dl.usehint %d %d", a, g.rng.Intn(2))
	}
	for _, a0 := range []int64{dGamma2, dGamma2 + 1, dGamma2 - 1, -dGamma2, -dGamma2 - 1, -dGamma2 + 1, 0, 1, -1} {
		for _, a1 := range []int64{0, 1, 15} {
			g.op("dl.mkhint %d %d", a0, a1)
		}
	}
	// ---- the property's own predicates on the implementation, exhaustively over [0, q) ----
	g.note("exhaustive residues on the implementation")
	var mu sync.Mutex
	chunks := 256
	parallel(chunks, func(c int) {
		lo, hi := int32(int64(dQ)*int64(c)/int64(chunks)), int32(int64(dQ)*int64(c+1)/int64(chunks))
		var bad []finding
		n := 0
		for a := lo; a < hi; a++ {
			a1, a0 := dilithium.VerifDecompose(a)
			s1, s0 := specDecompose(a)
			if a1 != s1 || a0 != s0 {
				bad = append(bad, finding{"C12", "decompose-spec", fmt.Sprintf("decompose(%d) = (%d,%d), definition gives (%d,%d)", a, a1, a0, s1, s0), []string{fmt.Sprintf("dl.decomp %d", a)}})
			}
			p1, p0 := dilithium.VerifPower2Round(a)
			t1, t0 := specPower2Round(a)
			if p1 != t1 || p0 != t0 {
				bad = append(bad, finding{"C12", "power2round-spec", fmt.Sprintf("power2Round(%d) = (%d,%d), definition gives (%d,%d)", a, p1, p0, t1, t0), []string{fmt.Sprintf("dl.p2r %d", a)}})
			}
			for h := 0; h < 2; h++ {
				if u, s := dilithium.VerifUseHint(a, h), specUseHint(a, h); u != s {
					bad = append(bad, finding{"C12", "usehint-spec", fmt.Sprintf("useHint(%d,%d) = %d, definition gives %d", a, h, u, s), []string{fmt.Sprintf("dl.usehint %d %d", a, h)}})
				}
			}
			if r := dilithium.VerifCAddQ(a - dQ); r != a {
				bad = append(bad, finding{"C12", "caddq-spec", fmt.Sprintf("cAddQ(%d) = %d", a-dQ, r), []string{fmt.Sprintf("dl.caddq %d", a-dQ)}})
			}
			if r := dilithium.VerifCAddQ(a); r != a { // non-negative operands are left alone (0 included)
				bad = append(bad, finding{"C12", "caddq-spec", fmt.Sprintf("cAddQ(%d) = %d", a, r), []string{fmt.Sprintf("dl.caddq %d", a)}})
			}
			n += 6
		}
		mu.Lock()
		g.predEvals += n
		g.counts["pred:exhaustive-residues"] += n
		for _, b := range bad {
			g.check(false, b.Kind, b.Detail, b.Ops...)
		}
		mu.Unlock()
	})
	// makeHint on its whole hint domain boundary band and a stride of the rest
	for a1 := int32(0); a1 < 16; a1++ {
		for a0 := int32(-dGamma2 - 3); a0 <= dGamma2+3; a0++ {
			if a0 > -dGamma2+3 && a0 < dGamma2-3 && a0%997 != 0 {
				continue
			}
			want := uint(0)
			if a0 > dGamma2 || a0 < -dGamma2 || (a0 == -dGamma2 && a1 != 0) {
				want = 1
			}
			g.check(dilithium.VerifMakeHint(a0, a1) == want, "makehint-spec", fmt.Sprintf("makeHint(%d,%d) != %d", a0, a1, want), fmt.Sprintf("dl.mkhint %d %d", a0, a1))
		}
	}
	// montgomery and reduce32 on random and boundary operands
	nr := 2000000
	parallel(16, func(c int) {
		r := newRng(g.seed*31 + int64(c))
		bad := []finding{}
		for i := 0; i < nr/16; i++ {
			a := r.Int63n(2*(1<<31)*dQ) - (1<<31)*dQ
			if i < 64 {
				a = []int64{-(1 << 31) * dQ, (1<<31)*dQ - 1, 0, dQ, -dQ}[i%5] + int64(i/5)
				if a >= (1<<31)*dQ {
					a = (1<<31)*dQ - 1
				}
			}
			m := int64(dilithium.VerifMontgomeryReduce(a))
			if ((m<<32)-a)%dQ != 0 || m <= -dQ || m >= dQ {
				bad = append(bad, finding{"C12", "montgomery-spec", fmt.Sprintf("montgomeryReduce(%d) = %d violates r*2^32 = a (mod q), |r| < q", a, m), []string{fmt.Sprintf("dl.mont %d", a)}})
			}
			b := int32(r.Int63n(1<<32) - (1 << 31))
			if int64(b) <= (1<<31)-(1<<22)-1 {
				rr := int64(dilithium.VerifReduce32(b))
				if (rr-int64(b))%dQ != 0 || rr < -6283009 || rr > 6283008 {
					bad = append(bad, finding{"C12", "reduce32-spec", fmt.Sprintf("reduce32(%d) = %d", b, rr), []string{fmt.Sprintf("dl.red %d", b)}})
				}
			}
		}
		mu.Lock()
		g.predEvals += nr / 8
		g.counts["pred:montgomery-reduce32"] += nr / 8
		for _, b := range bad {
			g.check(false, b.Kind, b.Detail, b.Ops...)
		}
		mu.Unlock()
	})
	// ---- NTT: product via transforms equals the negacyclic product ----
	g.note("NTT product vs schoolbook negacyclic product")
	np := 6
	if g.thorough {
		np = 40
	}
	for t := 0; t < np; t++ {
		var a, b [256]int32
		for i := range a {
			switch t % 4 {
			case 0:
				a[i], b[i] = int32(g.rng.Intn(dQ)), int32(g.rng.Intn(dQ))
			case 1:
				a[i], b[i] = dQ-1, dQ-1
			case 2:
				a[i], b[i] = int32(g.rng.Intn(2*dQ-1))-(dQ-1), int32(g.rng.Intn(5))-2
			case 3:
				if i == t%256 {
					a[i] = 1
				}
				b[i] = int32(g.rng.Intn(dQ))
			}
		}
		ha, hb := a, b
		dilithium.VerifNTT(&ha)
		dilithium.VerifNTT(&hb)
		c := dilithium.VerifPointwise(&ha, &hb)
		dilithium.VerifInvNTTToMont(&c)
		ok := true
		for k := 0; k < 256 && ok; k++ {
			var acc int64
			for i := 0; i < 256; i++ {
				j := (k - i + 256) % 256
				term := (int64(a[i]) % dQ) * (int64(b[j]) % dQ) % dQ
				if i+j >= 256 {
					term = -term
				}
				acc = (acc + term) % dQ
			}
			if (int64(c[k])-acc)%dQ != 0 {
				ok = false
			}
			if int64(c[k]) <= -dQ || int64(c[k]) >= dQ {
				ok = false
			}
		}
		g.check(ok, "ntt-product", "invNTT(NTT(a)∘NTT(b)) is not the negacyclic product a*b mod (X^256+1, q)", "dl.ntt "+polyStr(a[:]), "dl.ntt "+polyStr(b[:]))
		if t < 3 || g.thorough && t < 10 {
			g.op("dl.ntt %s", polyStr(a[:]))
			g.op("dl.invntt %s", polyStr(hb[:]))
			g.op("dl.pw %s %s", polyStr(ha[:]), polyStr(hb[:]))
		}
	}
	// ---- pointwise product = montgomeryReduce(a·b) in every slot, also for the operand values a shortcut would single out
	// (0, ±1, ±2, q, q±1, powers of two, the extremes): all pairs of them, and random operands around them
	{
		special := []int32{0, 1, -1, 2, -2, dQ, dQ - 1, dQ + 1, -dQ, 1 << 16, 1 << 23, 1 << 30, -(1 << 31), 1<<31 - 1, 58728449, 4193792, 25847, 8380416}
		var pa, pb [256]int32
		okAll := true
		var firstBad string
		for round := 0; round < 8 && okAll; round++ {
			for i := 0; i < 256; i++ {
				pa[i] = special[g.rng.Intn(len(special))]
				pb[i] = special[g.rng.Intn(len(special))]
				if round%2 == 1 {
					pa[i] = int32(g.rng.Uint32()) >> uint(g.rng.Intn(9))
				}
				if round >= 4 && i%3 == 0 {
					pb[i] = int32(g.rng.Uint32())>>8 - dQ
				}
			}
			c := dilithium.VerifPointwise(&pa, &pb)
			for i := 0; i < 256; i++ {
				want := dilithium.VerifMontgomeryReduce(int64(pa[i]) * int64(pb[i]))
				// and the defining congruence, independently: c·2^32 ≡ a·b (mod q)
				cong := ((int64(c[i])%dQ)*((int64(1)<<32)%dQ)-(int64(pa[i])%dQ)*(int64(pb[i])%dQ))%dQ == 0
				if c[i] != want || !cong {
					okAll = false
					firstBad = fmt.Sprintf("a=%d b=%d: got %d, montgomeryReduce(a·b)=%d", pa[i], pb[i], c[i], want)
					break
				}
			}
		}
		g.check(okAll, "pointwise-spec", "polyPointWiseMontgomery is not montgomeryReduce(a_i·b_i) in some slot: "+firstBad, "dl.pw "+polyStr(pa[:])+" "+polyStr(pb[:]))
		g.op("dl.pw %s %s", polyStr(pa[:]), polyStr(pb[:]))
	}
	// ---- norm check = comparison of the centred absolute value ----
	g.note("norm check")
	for _, B := range []int32{1, dGamma1 - dBeta, dGamma2 - dBeta, dGamma2, (dQ - 1) / 8, (dQ-1)/8 + 1} {
		for _, v := range []int32{0, B - 1, B, B + 1, -B + 1, -B, -B - 1, dQ / 2, -dQ / 2} {
			var p [256]int32
			pos := g.rng.Intn(256)
			p[pos] = v
			got := dilithium.VerifPolyChkNorm(&p, B)
			want := 0
			c := cmod(int64(v), dQ)
			if c < 0 {
				c = -c
			}
			if B > (dQ-1)/8 || c >= int64(B) {
				want = 1
			}
			line := fmt.Sprintf("dl.chknorm %d %s", B, polyStr(p[:]))
			g.check(got == want, "chknorm-spec", fmt.Sprintf("polyChkNorm(coefficient %d, B=%d) = %d, centred absolute value says %d", v, B, got, want), line)
			g.op("%s", line)
		}
	}
}

// ---------------------------------------------------------------- C13

func genC13(g *gen) {
	type kind struct {
		name   string
		lo, hi int32
		canon  bool // every byte string decodes and re-encodes to itself
		nbytes int
		stride int // coefficients per lane
	}
	kinds := []kind{{"t1", 0, 1023, true, 320, 4}, {"t0", -(1 << 12) + 1, 1 << 12, false, 416, 8}, {"eta", -2, 2, false, 96, 8}, {"z", -(1 << 19) + 1, 1 << 19, true, 640, 2}, {"w1", 0, 15, false, 128, 2}}
	for _, k := range kinds {
		g.note("%s: extreme values at every position, every lane", k.name)
		rt := func(p [256]int32, diffed bool) {
			b := dilithium.VerifPack(k.name, &p)
			if diffed {
				g.op("dl.pack %s %s", k.name, polyStr(p[:]))
			}
			if k.name == "w1" {
				return
			}
			q := dilithium.VerifUnpack(k.name, b)
			g.check(q == p, "unpack-pack:"+k.name, fmt.Sprintf("unpack(pack(a)) != a for %s", k.name), fmt.Sprintf("dl.pack %s %s", k.name, polyStr(p[:])), fmt.Sprintf("dl.unpack %s %s", k.name, hx(b)))
			if diffed {
				g.op("dl.unpack %s %s", k.name, hx(b))
			}
		}
		for pos := 0; pos < 256; pos++ {
			for _, v := range []int32{k.lo, k.hi, k.lo + 1, k.hi - 1, 0} {
				var p [256]int32
				for i := range p {
					if k.lo < 0 {
						p[i] = 0
					}
				}
				p[pos] = v
				rt(p, pos < k.stride && (v == k.lo || v == k.hi))
			}
		}
		for t := 0; t < 30; t++ {
			var p [256]int32
			for i := range p {
				p[i] = k.lo + int32(g.rng.Int63n(int64(k.hi-k.lo)+1))
				if t%5 == 0 {
					p[i] = []int32{k.lo, k.hi}[g.rng.Intn(2)]
				}
			}
			rt(p, t < 3)
		}
		if k.name != "w1" {
			for t := 0; t < 30; t++ {
				b := g.bytes(k.nbytes)
				if t%6 == 0 {
					b = bytes.Repeat([]byte{0xff}, k.nbytes)
				}
				p := dilithium.VerifUnpack(k.name, b)
				if k.canon {
					b2 := dilithium.VerifPack(k.name, &p)
					g.check(bytes.Equal(b, b2), "pack-unpack:"+k.name, "pack(unpack(bytes)) != bytes for "+k.name, fmt.Sprintf("dl.unpack %s %s", k.name, hx(b)))
				}
				if t < 4 {
					g.op("dl.unpack %s %s", k.name, hx(b))
				}
			}
		}
	}
	g.note("hint vectors of every admissible weight; signature layout")
	weights := []int{0, 1, 2, 37, 74, 75}
	if g.thorough {
		weights = nil
		for w := 0; w <= 75; w++ {
			weights = append(weights, w)
		}
	}
	for wi, w := range weights {
		for rep := 0; rep < 3; rep++ {
			var z [7][256]int32
			var h [8][256]int32
			for i := range z {
				for j := range z[i] {
					z[i][j] = -(1 << 19) + 1 + int32(g.rng.Int63n(1<<20))
				}
			}
			// distribute w ones; rep 1 leaves some rows empty; rep 2 puts everything in the last row
			placed := 0
			for placed < w {
				r := g.rng.Intn(8)
				if rep == 1 {
					r = []int{0, 3, 7}[g.rng.Intn(3)]
				}
				if rep == 2 {
					r = 7
				}
				c := g.rng.Intn(256)
				if h[r][c] == 0 {
					h[r][c] = 1
					placed++
				}
			}
			c := g.bytes(32)
			sig, err := dilithium.VerifPackSig(c, &z, &h)
			var zs, hs []string
			for i := range z {
				zs = append(zs, polyStr(z[i][:]))
			}
			for i := range h {
				hs = append(hs, polyStr(h[i][:]))
			}
			line := fmt.Sprintf("dl.packsig %s %s %s", hx(c), strings.Join(zs, ";"), strings.Join(hs, ";"))
			c2, z2, h2, rc := dilithium.VerifUnpackSig(sig)
			g.check(err == nil && rc == 0 && bytes.Equal(c2[:], c) && z2 == z && h2 == h, "unpacksig-packsig", fmt.Sprintf("unpackSig(packSig(c,z,h)) != (c,z,h) for hint weight %d (variant %d)", w, rep), line)
			if rc == 0 {
				sig2, _ := dilithium.VerifPackSig(c2[:], &z2, &h2)
				g.check(sig2 == sig, "canonical", "packSig(unpackSig(s)) != s", "dl.unpacksig "+hx(sig[:]))
			}
			if rep == 0 && (wi < 3 || w >= 74) || g.thorough && rep == 1 && w%10 == 0 {
				g.op("%s", line)
				g.op("dl.unpacksig %s", hx(sig[:]))
			}
		}
	}
	// accepted-implies-canonical on mutated encodings of honest signatures
	z := zeroKey()
	for t := 0; t < 200; t++ {
		sig, _ := z.Sign(g.bytes(8))
		hoff := 32 + 7*640
		total := int(sig[hoff+dOmega+7])
		s := sig
		switch t % 5 {
		case 0:
			if total > 0 && total < dOmega {
				s[hoff+total] = s[hoff+total-1]
				s[hoff+dOmega+7]++
			}
		case 1:
			s[hoff+dOmega-1] = byte(1 + g.rng.Intn(200))
		case 2:
			s[hoff+g.rng.Intn(83)] ^= byte(1 << g.rng.Intn(8))
		case 3:
			s[32+g.rng.Intn(4480)] ^= byte(1 << g.rng.Intn(8))
		}
		c2, z2, h2, rc := dilithium.VerifUnpackSig(s)
		if rc == 0 {
			s2, _ := dilithium.VerifPackSig(c2[:], &z2, &h2)
			g.check(s2 == s, "canonical", "a signature byte string accepted by unpackSig does not re-encode to itself", "dl.unpacksig "+hx(s[:]))
		}
		g.counts[fmt.Sprintf("unpack-rc:%d", rc)]++
		if t < 10 {
			g.op("dl.unpacksig %s", hx(s[:]))
		}
	}
	// ---- key serialisation: sk = rho ‖ key ‖ tr ‖ s1 ‖ s2 ‖ t0, pk = rho ‖ t1 ----
	g.note("secret / public key layout: unpack(pack(x)) = x on in-range vectors, pack(unpack(key)) = key on real keys")
	rnd := func(lo, hi int32) (p [256]int32) {
		for i := range p {
			p[i] = lo + int32(g.rng.Int63n(int64(hi-lo)+1))
		}
		return
	}
	for t := 0; t < 40; t++ {
		var rho, tr, key [32]byte
		copy(rho[:], g.bytes(32))
		copy(tr[:], g.bytes(32))
		copy(key[:], g.bytes(32))
		var t0, s2, t1 [dK][256]int32
		var s1 [dL][256]int32
		for i := 0; i < dK; i++ {
			t0[i], s2[i], t1[i] = rnd(-(1<<12)+1, 1<<12), rnd(-2, 2), rnd(0, 1023)
			if t == 0 { // extremes in every row, so that a row that is not decoded (zeros) cannot pass
				t0[i], s2[i], t1[i] = rnd(1<<12, 1<<12), rnd(-2, -2), rnd(1023, 1023)
			}
		}
		for i := 0; i < dL; i++ {
			s1[i] = rnd(-2, 2)
			if t == 0 {
				s1[i] = rnd(2, 2)
			}
		}
		sk := dilithium.VerifPackSk(rho, tr, key, &t0, &s1, &s2)
		r2, tr2, k2, t02, s12, s22 := dilithium.VerifUnpackSk(&sk)
		g.check(r2 == rho && tr2 == tr && k2 == key && t02 == t0 && s12 == s1 && s22 == s2, "unpack-pack:sk",
			"unpackSk(packSk(rho, tr, key, t0, s1, s2)) does not return the same components (rows compared: all K of t0 and s2, all L of s1)", "dl.unpacksk "+hx(sk[:]))
		pk := dilithium.VerifPackPk(rho, &t1)
		r3, t12 := dilithium.VerifUnpackPk(&pk)
		g.check(r3 == rho && t12 == t1, "unpack-pack:pk", "unpackPk(packPk(rho, t1)) does not return the same components", "dl.unpackpk "+hx(pk[:]))
		if t < 3 {
			g.op("dl.unpacksk %s", hx(sk[:])) // the model's decoder on the same bytes
			g.op("dl.unpackpk %s", hx(pk[:]))
		}
	}
	for t := 0; t < 6; t++ {
		var seed [48]byte
		copy(seed[:], g.bytes(48))
		d, _ := dilithium.NewDilithiumFromSeed(seed)
		sk, pk := d.GetSK(), d.GetPK()
		rho, tr, key, t0, s1, s2 := dilithium.VerifUnpackSk(&sk)
		g.check(dilithium.VerifPackSk(rho, tr, key, &t0, &s1, &s2) == sk, "pack-unpack:sk", "packSk(unpackSk(sk)) != sk for a generated key", "dl.new k "+hx(seed[:]))
		r3, t1 := dilithium.VerifUnpackPk(&pk)
		g.check(dilithium.VerifPackPk(r3, &t1) == pk, "pack-unpack:pk", "packPk(unpackPk(pk)) != pk for a generated key", "dl.new k "+hx(seed[:]))
		if t < 2 {
			g.op("dl.unpacksk %s", hx(sk[:]))
			g.op("dl.unpackpk %s", hx(pk[:]))
		}
		// the secret vectors are never all-zero rows (probability 5^-256 each): a row left undecoded shows here
		zero := [256]int32{}
		bad := false
		for i := 0; i < dK; i++ {
			bad = bad || s2[i] == zero || t0[i] == zero
		}
		for i := 0; i < dL; i++ {
			bad = bad || s1[i] == zero
		}
		g.check(!bad, "unpack:sk-rows", "unpackSk leaves a row of s1 / s2 / t0 all zero for a generated key", "dl.new k "+hx(seed[:]))
	}
}
