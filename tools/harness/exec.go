package main

import (
	"bytes"
	"encoding/hex"
	"fmt"
	"runtime"
	"strconv"
	"strings"

	"github.com/theQRL/go-qrllib/common"
	"github.com/theQRL/go-qrllib/dilithium"
	"github.com/theQRL/go-qrllib/misc"
	"github.com/theQRL/go-qrllib/qrllib-js/dilithiumjs"
	"github.com/theQRL/go-qrllib/qrllib-js/xmssjs"
	"github.com/theQRL/go-qrllib/xmss"
)

// ---- canonical rendering ----

func hx(b []byte) string {
	if len(b) == 0 {
		return "-"
	}
	return hex.EncodeToString(b)
}

func unhex(s string) []byte {
	if s == "-" {
		return []byte{}
	}
	b, err := hex.DecodeString(s)
	if err != nil {
		panic("harness: bad hex argument")
	}
	return b
}

func classify(msg string) string {
	switch {
	case msg == "index too high":
		return "index-high"
	case msg == "cannot rewind":
		return "rewind"
	case strings.HasPrefix(msg, "invalid signature size"), msg == "Invalid signature size":
		return "sig-size"
	case msg == "invalid signature type":
		return "sig-type"
	case strings.HasPrefix(msg, "For BDS traversal"):
		return "params"
	case msg == "Address format type not supported":
		return "addr-format"
	case strings.HasPrefix(msg, "word count ="):
		return "mnemonic-odd"
	case msg == "invalid word in mnemonic":
		return "mnemonic-word"
	case strings.HasPrefix(msg, "unexpected Mnemonic"):
		return "mnemonic-size"
	case msg == "byte count needs to be a multiple of 3":
		return "mnemonic-bytes"
	case strings.HasPrefix(msg, "logW should be"):
		return "logW"
	case strings.HasPrefix(msg, "Height should be"):
		return "height"
	case msg == "Failed to decode hexseed to bin":
		return "hexseed-decode"
	case msg == "Seed is not equal to SeedSize":
		return "hexseed-size"
	case msg == "Descriptor size should be 3 bytes":
		return "desc-size"
	}
	return "other:" + msg
}

// guard runs f and maps a panic to the canonical refusal / fault line.
func guard(f func() string) (out string) {
	defer func() {
		if r := recover(); r != nil {
			switch v := r.(type) {
			case string:
				out = "refuse:" + classify(v)
			case runtime.Error:
				out = "fault:runtime " + strings.ReplaceAll(v.Error(), " ", "_")
			case error:
				out = "fault:error " + strings.ReplaceAll(v.Error(), " ", "_")
			default:
				out = fmt.Sprintf("fault:other %v", v)
			}
		}
	}()
	return f()
}

func bstr(b bool) string {
	if b {
		return "true"
	}
	return "false"
}

func polyStr(p []int32) string {
	s := make([]string, len(p))
	for i, c := range p {
		s[i] = strconv.Itoa(int(c))
	}
	return strings.Join(s, ",")
}

func parsePoly(s string) (p [256]int32) {
	for i, x := range strings.Split(s, ",") {
		if i >= 256 {
			break
		}
		v, _ := strconv.ParseInt(x, 10, 64)
		p[i] = int32(v)
	}
	return
}

func atoi(s string) int64 {
	v, err := strconv.ParseInt(s, 10, 64)
	if err != nil {
		panic("harness: bad integer argument " + s)
	}
	return v
}

// ---- object tables ----

type xmssKey = xmss.XMSS

type state struct {
	xkeys    map[string]*xmss.XMSS
	dkeys    map[string]*dilithium.Dilithium
	lbl      *labelRun
	specKeys map[string]*xmssKey
	// mutated[i] is set when a call changed one of its input buffers (C14)
	mutations []string
	// results the library handed out (the very slices, not copies) with their contents at that moment: a later call
	// must not change what an earlier call returned
	held []heldResult
}

type heldResult struct {
	op   string
	buf  []byte
	snap []byte
}

// hold keeps the slice a call returned (at most 3000 of them) so that it can be compared with its contents at return
// time once the run is over.
func (st *state) hold(op string, b []byte) {
	if len(st.held) < 3000 && len(b) > 0 {
		st.held = append(st.held, heldResult{trunc(op, 200), b, append([]byte{}, b...)})
	}
}

// changedLater lists the held results whose contents are no longer what the library returned.
func (st *state) changedLater() (r []string) {
	for _, h := range st.held {
		if !bytes.Equal(h.buf, h.snap) {
			r = append(r, h.op)
		}
	}
	return
}

func newState() *state {
	return &state{xkeys: map[string]*xmss.XMSS{}, dkeys: map[string]*dilithium.Dilithium{}}
}

func (st *state) unchanged(op string, before, after []byte) {
	if !bytes.Equal(before, after) {
		st.mutations = append(st.mutations, op)
	}
}

func sized67(b []byte) (a [67]byte, ok bool)     { ok = len(b) == 67; copy(a[:], b); return }
func sized20(b []byte) (a [20]byte, ok bool)     { ok = len(b) == 20; copy(a[:], b); return }
func sized39(b []byte) (a [39]byte, ok bool)     { ok = len(b) == 39; copy(a[:], b); return }
func sized48(b []byte) (a [48]byte, ok bool)     { ok = len(b) == 48; copy(a[:], b); return }
func sized51(b []byte) (a [51]byte, ok bool)     { ok = len(b) == 51; copy(a[:], b); return }
func sized2592(b []byte) (a [2592]byte, ok bool) { ok = len(b) == 2592; copy(a[:], b); return }
func sized4595(b []byte) (a [4595]byte, ok bool) { ok = len(b) == 4595; copy(a[:], b); return }
func sized4864(b []byte) (a [4864]byte, ok bool) { ok = len(b) == 4864; copy(a[:], b); return }

func snapStr(x *xmss.XMSS) string {
	s := xmss.VerifSnapshotOf(x)
	var th []string
	for _, t := range s.TreeHash {
		th = append(th, fmt.Sprintf("%d/%d/%d/%d/%s", t.H, t.NextIdx, t.StackUsage, t.Completed, hx(t.Node)))
	}
	lv := make([]string, len(s.StackLevels))
	for i, l := range s.StackLevels {
		lv[i] = strconv.Itoa(int(l))
	}
	return fmt.Sprintf("sk=%s off=%d lv=[%s] stack=%s auth=%s keep=%s th=[%s] retain=%s", hx(s.SK), s.StackOffset,
		strings.Join(lv, ", "), hx(s.Stack), hx(s.Auth), hx(s.Keep), strings.Join(th, ", "), hx(s.Retain))
}

// execOp executes one protocol line on the real library and returns the canonical result line.
func execOp(st *state, line string) string {
	f := strings.Split(strings.TrimSpace(line), " ")
	return guard(func() string {
		if r, ok := execSpecOp(st, f); ok {
			return r
		}
		switch {
		// ---- mnemonic ----
		case f[0] == "m.enc" && len(f) == 2:
			return "ok " + hx([]byte(misc.VerifBinToMnemonic(unhex(f[1]))))
		case f[0] == "m.dec" && len(f) == 2:
			return "ok " + hx(misc.VerifMnemonicToBin(string(unhex(f[1]))))
		case f[0] == "m.dec48" && len(f) == 2:
			r := misc.MnemonicToSeedBin(string(unhex(f[1])))
			return "ok " + hx(r[:])
		case f[0] == "m.dec51" && len(f) == 2:
			r := misc.MnemonicToExtendedSeedBin(string(unhex(f[1])))
			return "ok " + hx(r[:])
		// ---- descriptors / addresses ----
		case f[0] == "d.frombytes" && len(f) == 2:
			b := unhex(f[1])
			d := xmss.NewQRLDescriptorFromBytes(b[:3])
			gb := d.GetBytes()
			return fmt.Sprintf("ok %d %d %d %d %s", d.GetHashFunction(), d.GetSignatureType(), d.GetHeight(), d.GetAddrFormatType(), hx(gb[:]))
		case f[0] == "d.new" && len(f) == 5:
			d := xmss.NewQRLDescriptor(uint8(atoi(f[1])), xmss.HashFunction(atoi(f[2])), common.SignatureType(atoi(f[3])), common.AddrFormatType(atoi(f[4])))
			gb := d.GetBytes()
			d2 := xmss.NewQRLDescriptorFromBytes(gb[:])
			return fmt.Sprintf("ok %s %d %d %d %d", hx(gb[:]), d2.GetHashFunction(), d2.GetSignatureType(), d2.GetHeight(), d2.GetAddrFormatType())
		case f[0] == "a.xmss" && len(f) == 2:
			pk, _ := sized67(unhex(f[1]))
			a := xmss.GetXMSSAddressFromPK(pk)
			return "ok " + hx(a[:])
		case f[0] == "a.xmssvalid" && len(f) == 2:
			a, _ := sized20(unhex(f[1]))
			return "ok " + bstr(xmss.IsValidXMSSAddress(a))
		case f[0] == "a.legacy" && len(f) == 2:
			pk, _ := sized67(unhex(f[1]))
			a := xmss.GetLegacyXMSSAddressFromPK(pk)
			return "ok " + hx(a[:])
		case f[0] == "a.legacyvalid" && len(f) == 2:
			a, _ := sized39(unhex(f[1]))
			return "ok " + bstr(xmss.IsValidLegacyXMSSAddress(a))
		case f[0] == "a.dil" && len(f) == 2:
			pk, _ := sized2592(unhex(f[1]))
			a := dilithium.GetDilithiumAddressFromPK(pk)
			return "ok " + hx(a[:])
		case f[0] == "a.dilvalid" && len(f) == 2:
			a, _ := sized20(unhex(f[1]))
			return "ok " + bstr(dilithium.IsValidDilithiumAddress(a))
		// ---- string wrappers ----
		case f[0] == "js.xverify" && len(f) == 4:
			return "ok " + bstr(xmssjs.XMSSVerify(string(unhex(f[1])), string(unhex(f[2])), string(unhex(f[3]))))
		case f[0] == "js.xaddr" && len(f) == 2:
			return "ok " + hx([]byte(xmssjs.GetXMSSAddressFromPK(string(unhex(f[1])))))
		case f[0] == "js.xvalid" && len(f) == 2:
			return "ok " + bstr(xmssjs.IsValidXMSSAddress(string(unhex(f[1]))))
		case f[0] == "js.dverify" && len(f) == 4:
			return "ok " + bstr(dilithiumjs.DilithiumVerify(unhex(f[1]), string(unhex(f[2])), string(unhex(f[3]))))
		case f[0] == "js.daddr" && len(f) == 2:
			return "ok " + hx([]byte(dilithiumjs.GetDilithiumAddressFromPK(string(unhex(f[1])))))
		case f[0] == "js.dvalid" && len(f) == 2:
			return "ok " + bstr(dilithiumjs.IsValidDilithiumAddress(string(unhex(f[1]))))
		// ---- XMSS objects ----
		case f[0] == "x.new" && len(f) == 6:
			seed, _ := sized48(unhex(f[2]))
			x := xmss.NewXMSSFromSeed(seed, uint8(atoi(f[3])), xmss.HashFunction(atoi(f[4])), common.AddrFormatType(atoi(f[5])))
			st.xkeys[f[1]] = x
			pk := x.GetPK()
			return "ok " + hx(pk[:])
		case f[0] == "x.newext" && len(f) == 3:
			es, _ := sized51(unhex(f[2]))
			x := xmss.NewXMSSFromExtendedSeed(es)
			st.xkeys[f[1]] = x
			pk := x.GetPK()
			return "ok " + hx(pk[:])
		case f[0] == "x.sign" && len(f) == 3:
			x := st.xkeys[f[1]]
			if x == nil {
				return "bad-op"
			}
			m := unhex(f[2])
			m0 := append([]byte{}, m...)
			sig, err := x.Sign(m)
			st.unchanged(line, m0, m)
			if err != nil {
				return "fault:error " + err.Error()
			}
			st.hold(line, sig)
			return "ok " + hx(sig)
		case f[0] == "x.setidx" && len(f) == 3:
			x := st.xkeys[f[1]]
			if x == nil {
				return "bad-op"
			}
			x.SetIndex(uint32(atoi(f[2])))
			return "ok"
		case f[0] == "x.info" && len(f) == 2:
			x := st.xkeys[f[1]]
			if x == nil {
				return "bad-op"
			}
			pk := x.GetPK()
			seed := x.GetSeed()
			es := x.GetExtendedSeed()
			addr := guard(func() string { a := x.GetAddress(); return "ok:" + hx(a[:]) })
			mn := guard(func() string { return "ok:" + hx([]byte(x.GetMnemonic())) })
			return fmt.Sprintf("ok idx=%d h=%d pk=%s seed=%s ext=%s addr=%s mn=%s", x.GetIndex(), x.GetHeight(), hx(pk[:]), hx(seed[:]), hx(es[:]), addr, mn)
		case f[0] == "x.snap" && len(f) == 2:
			x := st.xkeys[f[1]]
			if x == nil {
				return "bad-op"
			}
			return "ok " + snapStr(x)
		case f[0] == "x.verify" && len(f) == 5:
			m, s, p := unhex(f[2]), unhex(f[3]), unhex(f[4])
			m0, s0 := append([]byte{}, m...), append([]byte{}, s...)
			pk, _ := sized67(p)
			defer func() { st.unchanged(line, m0, m); st.unchanged(line, s0, s) }()
			return "ok " + bstr(xmss.VerifyWithCustomWOTSParamW(m, s, pk, uint32(atoi(f[1]))))
		case f[0] == "x.wparams" && len(f) == 2:
			a, b, c, d, e := xmss.VerifWOTSParams(32, uint32(atoi(f[1])))
			return fmt.Sprintf("ok %d %d %d %d %d", a, b, c, d, e)
		// ---- BDS label mode ----
		case f[0] == "bds.init" && len(f) == 2:
			st.lbl = newLabelRun(uint8(atoi(f[1])))
			return "ok root=" + st.lbl.label(st.lbl.x.GetRoot()) + " " + st.lbl.show()
		case f[0] == "bds.step" && len(f) == 1:
			if st.lbl == nil {
				return "bad-op"
			}
			st.lbl.step()
			return "ok " + st.lbl.show()
		// ---- Dilithium scalars ----
		case f[0] == "dl.mont" && len(f) == 2:
			return fmt.Sprintf("ok %d", dilithium.VerifMontgomeryReduce(atoi(f[1])))
		case f[0] == "dl.red" && len(f) == 2:
			return fmt.Sprintf("ok %d", dilithium.VerifReduce32(int32(atoi(f[1]))))
		case f[0] == "dl.caddq" && len(f) == 2:
			return fmt.Sprintf("ok %d", dilithium.VerifCAddQ(int32(atoi(f[1]))))
		case f[0] == "dl.p2r" && len(f) == 2:
			a1, a0 := dilithium.VerifPower2Round(int32(atoi(f[1])))
			return fmt.Sprintf("ok %d %d", a1, a0)
		case f[0] == "dl.decomp" && len(f) == 2:
			a1, a0 := dilithium.VerifDecompose(int32(atoi(f[1])))
			return fmt.Sprintf("ok %d %d", a1, a0)
		case f[0] == "dl.mkhint" && len(f) == 3:
			return fmt.Sprintf("ok %d", dilithium.VerifMakeHint(int32(atoi(f[1])), int32(atoi(f[2]))))
		case f[0] == "dl.usehint" && len(f) == 3:
			return fmt.Sprintf("ok %d", dilithium.VerifUseHint(int32(atoi(f[1])), int(atoi(f[2]))))
		case f[0] == "dl.ntt" && len(f) == 2:
			p := parsePoly(f[1])
			dilithium.VerifNTT(&p)
			return "ok " + polyStr(p[:])
		case f[0] == "dl.invntt" && len(f) == 2:
			p := parsePoly(f[1])
			dilithium.VerifInvNTTToMont(&p)
			return "ok " + polyStr(p[:])
		case f[0] == "dl.pw" && len(f) == 3:
			a, b := parsePoly(f[1]), parsePoly(f[2])
			c := dilithium.VerifPointwise(&a, &b)
			return "ok " + polyStr(c[:])
		case f[0] == "dl.chknorm" && len(f) == 3:
			p := parsePoly(f[2])
			return fmt.Sprintf("ok %d", dilithium.VerifPolyChkNorm(&p, int32(atoi(f[1]))))
		case f[0] == "dl.pack" && len(f) == 3:
			p := parsePoly(f[2])
			return "ok " + hx(dilithium.VerifPack(f[1], &p))
		case f[0] == "dl.unpack" && len(f) == 3:
			p := dilithium.VerifUnpack(f[1], unhex(f[2]))
			return "ok " + polyStr(p[:])
		case f[0] == "dl.packsig" && len(f) == 4:
			var z [dilithium.VerifL][256]int32
			var h [dilithium.VerifK][256]int32
			for i, s := range strings.Split(f[2], ";") {
				if i < len(z) {
					z[i] = parsePoly(s)
				}
			}
			for i, s := range strings.Split(f[3], ";") {
				if i < len(h) {
					h[i] = parsePoly(s)
				}
			}
			sig, err := dilithium.VerifPackSig(unhex(f[1]), &z, &h)
			if err != nil {
				return "fault:error " + err.Error()
			}
			return "ok " + hx(sig[:])
		case f[0] == "dl.unpacksig" && len(f) == 2:
			sig, _ := sized4595(unhex(f[1]))
			c, z, h, rc := dilithium.VerifUnpackSig(sig)
			if rc != 0 {
				return fmt.Sprintf("ok rc=%d", rc)
			}
			var zs, hs []string
			for i := range z {
				zs = append(zs, polyStr(z[i][:]))
			}
			for i := range h {
				hs = append(hs, polyStr(h[i][:]))
			}
			return fmt.Sprintf("ok rc=0 c=%s z=%s h=%s", hx(c[:]), strings.Join(zs, ";"), strings.Join(hs, ";"))
		case f[0] == "dl.rejuniform" && len(f) == 3:
			a, ctr := dilithium.VerifRejUniform(int(atoi(f[1])), unhex(f[2]))
			return fmt.Sprintf("ok %d %s", ctr, polyStr(a[:ctr]))
		case f[0] == "dl.rejeta" && len(f) == 3:
			a, ctr := dilithium.VerifRejEta(int(atoi(f[1])), unhex(f[2]))
			return fmt.Sprintf("ok %d %s", ctr, polyStr(a[:ctr]))
		case f[0] == "dl.uniform" && len(f) == 3:
			var seed [32]byte
			copy(seed[:], unhex(f[1]))
			p, err := dilithium.VerifPolyUniform(&seed, uint16(atoi(f[2])))
			if err != nil {
				return "fault:error " + err.Error()
			}
			return "ok " + polyStr(p[:])
		case f[0] == "dl.eta" && len(f) == 3:
			var seed [64]byte
			copy(seed[:], unhex(f[1]))
			p, err := dilithium.VerifPolyUniformEta(&seed, uint16(atoi(f[2])))
			if err != nil {
				return "fault:error " + err.Error()
			}
			return "ok " + polyStr(p[:])
		case f[0] == "dl.gamma1" && len(f) == 3:
			var seed [64]byte
			copy(seed[:], unhex(f[1]))
			p := dilithium.VerifPolyUniformGamma1(seed, uint16(atoi(f[2])))
			return "ok " + polyStr(p[:])
		case f[0] == "dl.challenge" && len(f) == 2:
			p, err := dilithium.VerifPolyChallenge(unhex(f[1]))
			if err != nil {
				return "fault:error " + err.Error()
			}
			return "ok " + polyStr(p[:])
		case f[0] == "dl.keypair" && len(f) == 2:
			pk, sk, err := dilithium.VerifKeypair(unhex(f[1]))
			if err != nil {
				return "fault:error " + err.Error()
			}
			return fmt.Sprintf("ok pk=%s sk=%s", hx(pk[:]), hx(sk[:]))
		case f[0] == "dl.unpacksk" && len(f) == 2:
			sk, ok := sized4864(unhex(f[1]))
			if !ok {
				return "bad-op"
			}
			rho, tr, key, t0, s1, s2 := dilithium.VerifUnpackSk(&sk)
			join := func(n int, at func(i int) []int32) string {
				var ps []string
				for i := 0; i < n; i++ {
					ps = append(ps, polyStr(at(i)))
				}
				return strings.Join(ps, " | ")
			}
			return fmt.Sprintf("ok rho=%s key=%s tr=%s s1=%s s2=%s t0=%s", hx(rho[:]), hx(key[:]), hx(tr[:]),
				join(dL, func(i int) []int32 { return s1[i][:] }), join(dK, func(i int) []int32 { return s2[i][:] }), join(dK, func(i int) []int32 { return t0[i][:] }))
		case f[0] == "dl.unpackpk" && len(f) == 2:
			pk, ok := sized2592(unhex(f[1]))
			if !ok {
				return "bad-op"
			}
			rho, t1 := dilithium.VerifUnpackPk(&pk)
			var ps []string
			for i := 0; i < dK; i++ {
				ps = append(ps, polyStr(t1[i][:]))
			}
			return fmt.Sprintf("ok rho=%s t1=%s", hx(rho[:]), strings.Join(ps, " | "))
		case f[0] == "dl.filled" && len(f) == 2:
			// the library's sampling loops run until all 256 coefficients are filled (key generation returned),
			// so on the implementation side the hypothesis of the model's end-to-end theorem is trivially met
			seed, _ := sized48(unhex(f[1]))
			if _, err := dilithium.NewDilithiumFromSeed(seed); err != nil {
				return "fault:error " + err.Error()
			}
			return "ok true"
		case f[0] == "dl.new" && len(f) == 3:
			seed, _ := sized48(unhex(f[2]))
			d, err := dilithium.NewDilithiumFromSeed(seed)
			if err != nil {
				return "fault:error " + err.Error()
			}
			st.dkeys[f[1]] = d
			pk, sk := d.GetPK(), d.GetSK()
			return fmt.Sprintf("ok pk=%s sk=%s", hx(pk[:]), hx(sk[:]))
		case f[0] == "dl.newhex" && len(f) == 2:
			d, err := dilithium.NewDilithiumFromHexSeed(string(unhex(f[1])))
			if err != nil {
				return "fault:error " + err.Error()
			}
			pk, sk := d.GetPK(), d.GetSK()
			return fmt.Sprintf("ok pk=%s sk=%s", hx(pk[:]), hx(sk[:]))
		case f[0] == "dl.newmn" && len(f) == 2:
			d, err := dilithium.NewDilithiumFromMnemonic(string(unhex(f[1])))
			if err != nil {
				return "fault:error " + err.Error()
			}
			pk, sk := d.GetPK(), d.GetSK()
			return fmt.Sprintf("ok pk=%s sk=%s", hx(pk[:]), hx(sk[:]))
		case f[0] == "dl.sign" && len(f) == 3:
			d := st.dkeys[f[1]]
			if d == nil {
				return "bad-op"
			}
			m := unhex(f[2])
			m0 := append([]byte{}, m...)
			sig, err := d.Sign(m)
			st.unchanged(line, m0, m)
			if err != nil {
				return "fault:error " + err.Error()
			}
			return "ok " + hx(sig[:])
		case f[0] == "dl.seal" && len(f) == 3:
			d := st.dkeys[f[1]]
			if d == nil {
				return "bad-op"
			}
			m := unhex(f[2])
			m0 := append([]byte{}, m...)
			sm, err := d.Seal(m)
			st.unchanged(line, m0, m)
			if err != nil {
				return "fault:error " + err.Error()
			}
			st.hold(line, sm)
			return "ok " + hx(sm)
		case f[0] == "dl.signsk" && len(f) == 3:
			sk, _ := sized4864(unhex(f[1]))
			sm, err := dilithium.VerifSignWithSK(unhex(f[2]), &sk)
			if err != nil {
				return "fault:error " + err.Error()
			}
			return "ok " + hx(sm[:4595])
		case f[0] == "dl.verify" && len(f) == 4:
			m, s, p := unhex(f[1]), unhex(f[2]), unhex(f[3])
			m0 := append([]byte{}, m...)
			sig, _ := sized4595(s)
			pk, _ := sized2592(p)
			pk0 := pk
			r := dilithium.Verify(m, sig, &pk)
			st.unchanged(line, m0, m)
			st.unchanged(line, pk0[:], pk[:])
			return "ok " + bstr(r)
		case f[0] == "dl.open" && len(f) == 3:
			sm, p := unhex(f[1]), unhex(f[2])
			sm0 := append([]byte{}, sm...)
			pk, _ := sized2592(p)
			pk0 := pk
			r := dilithium.Open(sm, &pk)
			st.unchanged(line, sm0, sm)
			st.unchanged(line, pk0[:], pk[:])
			if r == nil {
				return "ok nil"
			}
			return "ok " + hx(r)
		case f[0] == "h.sha256" && len(f) == 2:
			return "ok " + hx(misc.SHA256(make([]byte, 32), unhex(f[1])))
		case f[0] == "h.shake128" && len(f) == 3:
			return "ok " + hx(misc.SHAKE128(make([]byte, atoi(f[2])), unhex(f[1])))
		case f[0] == "h.shake256" && len(f) == 3:
			return "ok " + hx(misc.SHAKE256(make([]byte, atoi(f[2])), unhex(f[1])))
		case line == "":
			return ""
		}
		return "bad-op"
	})
}
