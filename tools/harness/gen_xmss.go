package main

import (
	"encoding/binary"
	"bytes"
	"fmt"
	"os"
	"runtime/debug"
	"strings"
	"sync"

	"github.com/theQRL/go-qrllib/common"
	"github.com/theQRL/go-qrllib/xmss"
)

func init() {
	generators["C01"] = genC01
	generators["C02"] = genC02
	generators["C04"] = genC04
	generators["C06"] = genC06
	generators["C08"] = genC08
}

var hfName = []string{"SHA2_256", "SHAKE_128", "SHAKE_256"}

func newKey(seed []byte, h, hf int) *xmss.XMSS {
	var s [48]byte
	copy(s[:], seed)
	return xmss.NewXMSSFromSeed(s, uint8(h), xmss.HashFunction(hf), common.SHA256_2X)
}

func sigIndex(sig []byte) uint32 {
	return uint32(sig[0])<<24 | uint32(sig[1])<<16 | uint32(sig[2])<<8 | uint32(sig[3])
}

// parallel runs f(i) for i in [0,n) on all cores.
func parallel(n int, f func(i int)) {
	var pmu sync.Mutex
	var first *workerPanic
	var wg sync.WaitGroup
	ch := make(chan int, 64)
	for w := 0; w < 16; w++ {
		wg.Add(1)
		go func() {
			defer wg.Done()
			for i := range ch {
				func() {
					// a panic in a worker (a direct library call on inputs the generator considers valid) must not
					// kill the process: it is handed to the calling goroutine with its stack
					defer func() {
						if r := recover(); r != nil {
							pmu.Lock()
							if first == nil {
								first = &workerPanic{r, string(debug.Stack())}
							}
							pmu.Unlock()
						}
					}()
					f(i)
				}()
			}
		}()
	}
	for i := 0; i < n; i++ {
		ch <- i
	}
	close(ch)
	wg.Wait()
	if first != nil {
		panic(first)
	}
}

type workerPanic struct {
	val   interface{}
	stack string
}

// ---------------------------------------------------------------- C01

// lifeCheck signs along a history (list of forward jump targets interleaved with signing) and verifies every signature.
func (g *gen) lifeCheck(seed []byte, h, hf int, history []int, what string) {
	x := newKey(seed, h, hf)
	pk := x.GetPK()
	var ops []string
	ops = append(ops, fmt.Sprintf("x.new k %s %d %d 0", hx(seed), h, hf))
	// every signature the key returned must still be the bytes it returned once the history is over
	hs := newState()
	defer func() {
		for _, c := range hs.changedLater() {
			g.check(false, "signature-changed-later", "a signature the key returned earlier was changed by a later Sign / SetIndex on the same key (the caller's signature no longer verifies): "+c, ops...)
			break
		}
	}()
	for _, a := range history {
		if a >= 0 {
			r := guard(func() string { x.SetIndex(uint32(a)); return "ok" })
			ops = append(ops, fmt.Sprintf("x.setidx k %d", a))
			if r != "ok" {
				g.check(false, "life-setindex", fmt.Sprintf("%s: forward SetIndex(%d) refused: %s", what, a, r), ops...)
				return
			}
			continue
		}
		idx := x.GetIndex()
		msg := idxMsg(int(idx))
		var sig []byte
		r := guard(func() string {
			s, err := x.Sign(msg)
			sig = s
			if err != nil {
				return "err " + err.Error()
			}
			return "ok"
		})
		ops = append(ops, "x.sign k "+hx(msg))
		hs.hold(fmt.Sprintf("%s: x.new k %s %d %d 0 … x.sign k %s (index %d)", what, hx(seed), h, hf, hx(msg), idx), sig)
		if r != "ok" {
			g.check(false, "life-sign", fmt.Sprintf("%s: Sign at index %d failed: %s", what, idx, r), ops...)
			return
		}
		v := guard(func() string { return bstr(xmss.Verify(msg, sig, pk)) })
		vops := append(append([]string{}, ops...), fmt.Sprintf("x.verify 16 %s %s %s", hx(msg), hx(sig), hx(pk[:])))
		g.check(v == "true" && sigIndex(sig) == idx, "verify-sign", fmt.Sprintf("%s: h=%d %s index %d: Verify(msg, Sign(msg), PK) = %s (embedded index %d)", what, h, hfName[hf], idx, v, sigIndex(sig)), vops...)
		other := append([]byte{}, msg...)
		other = append(other, 'x')
		g.check(!xmss.Verify(other, sig, pk), "verify-other-msg", fmt.Sprintf("%s: signature at index %d verifies for a different message", what, idx), vops...)
	}
}

// idxMsg: the message signed at index k in the rebuild histories — a function of k, of every shape: empty, one byte, a
// few bytes, long (the traversal state must not depend on what is signed, and an empty message is a message)
func idxMsg(k int) []byte {
	switch k % 5 {
	case 0:
		return []byte{}
	case 1:
		return []byte{byte(k)}
	case 2:
		return []byte{byte(k), byte(k >> 8)}
	case 3:
		return bytes.Repeat([]byte{byte(k), 0xff, 0x00}, 70)
	}
	return []byte(fmt.Sprintf("message for index %d", k))
}

func seqHistory(from, to int) []int {
	var hs []int
	for i := from; i < to; i++ {
		hs = append(hs, -1)
	}
	return hs
}

func genC01(g *gen) {
	g.corpusSignatures()
	if g.thorough {
		g.tallTreeWalk()
	}
	seed := g.bytes(48)
	// (a) byte-exact whole life against the model, h = 4, all three hash functions
	g.note("whole life of h=4 keys, all hash functions: every signature compared with the model and verified")
	for hf := 0; hf < 3; hf++ {
		id := fmt.Sprintf("k%d", hf)
		out := g.op("x.new %s %s 4 %d 0", id, hx(seed), hf)
		pk, _ := okval(out)
		for i := 0; i < 16; i++ {
			msg := hx(g.bytes(1 + g.rng.Intn(20)))
			s := g.op("x.sign %s %s", id, msg)
			sig, ok := okval(s)
			v := "refused"
			if ok {
				v = g.op("x.verify 16 %s %s %s", msg, sig, pk)
			}
			g.check(v == "ok true", "verify-sign", fmt.Sprintf("h=4 %s index %d: Verify(Sign) = %s", hfName[hf], i, v), g.ops[len(g.ops)-2:]...)
		}
		g.op("x.sign %s 00", id)
	}
	// (a') probes at the byte boundaries of the stored index (h = 10): jump, sign, verify, sign again
	g.note("index byte boundaries, h=10")
	{
		g.quiet = true
		out := g.op("x.new p10 %s 10 0 0", hx(seed))
		pk, _ := okval(out)
		for _, idx := range []int{255, 256, 300, 511, 512, 1022} {
			g.op("x.setidx p10 %d", idx)
			for r := 0; r < 2 && idx+r < 1024; r++ {
				msg := hx(g.bytes(5))
				s := g.op("x.sign p10 %s", msg)
				sig, ok := okval(s)
				v := "refused"
				if ok {
					v = g.op("x.verify 16 %s %s %s", msg, sig, pk)
				}
				g.check(v == "ok true", "verify-sign", fmt.Sprintf("h=10 SHA2_256 after SetIndex(%d), signature %d: Verify(Sign) = %s", idx, r, v),
					fmt.Sprintf("x.new p10 %s 10 0 0", hx(seed)), fmt.Sprintf("x.setidx p10 %d", idx), "x.sign p10 "+msg)
			}
		}
		g.quiet = false
	}
	if g.stopEarly() {
		return
	}
	// (b) impl-only: whole life sequentially, and every sign-jump-sign history of small heights
	type job struct {
		h, hf int
		hist  []int
		what  string
	}
	var jobs []job
	for hf := 0; hf < 3; hf++ {
		jobs = append(jobs, job{6, hf, seqHistory(0, 64), "sequential"})
	}
	jobs = append(jobs, job{8, 0, seqHistory(0, 256), "sequential"})
	if g.thorough {
		jobs = append(jobs, job{8, 1, seqHistory(0, 256), "sequential"}, job{10, 0, seqHistory(0, 1024), "sequential"})
	}
	// all histories: jump to i, sign, jump to j, sign to the end (h = 4 exhaustive; h = 6, 8 at the structured points + random)
	for i := 0; i < 16; i++ {
		for j := i + 1; j < 16; j++ {
			hist := []int{i, -1, j}
			hist = append(hist, seqHistory(j, 16)...)
			jobs = append(jobs, job{4, (i + j) % 3, hist, fmt.Sprintf("SetIndex(%d);Sign;SetIndex(%d);Sign…", i, j)})
		}
	}
	for _, h := range []int{6, 8} {
		n := 1 << h
		pts := []int{0, 1, 2, 3, n/4 - 1, n / 4, n/2 - 1, n / 2, 3*n/4 - 1, 3 * n / 4, n - 3, n - 2, n - 1}
		count := 14
		if g.thorough {
			count = 80
		}
		for c := 0; c < count; c++ {
			i := pts[g.rng.Intn(len(pts))]
			if c%3 == 0 {
				i = g.rng.Intn(n - 1)
			}
			if i >= n-1 {
				i = n - 2
			}
			j := i + 1 + g.rng.Intn(n-1-i)
			if c%2 == 0 {
				for _, p := range pts {
					if p > i && g.rng.Intn(3) == 0 {
						j = p
						break
					}
				}
			}
			tail := 8
			if j+tail > n {
				tail = n - j
			}
			hist := []int{i, -1, j}
			hist = append(hist, seqHistory(j, j+tail)...)
			if h == 6 {
				hist = append(hist, seqHistory(j+tail, n)...)
			}
			jobs = append(jobs, job{h, c % 3, hist, fmt.Sprintf("SetIndex(%d);Sign;SetIndex(%d);Sign…", i, j)})
		}
	}
	var mu sync.Mutex
	parallel(len(jobs), func(k int) {
		sub := &gen{prop: g.prop, counts: map[string]int{}, distinct: map[string]bool{}, out: g.out, t0: g.t0}
		sub.lifeCheck(seed, jobs[k].h, jobs[k].hf, jobs[k].hist, jobs[k].what)
		mu.Lock()
		g.predEvals += sub.predEvals
		for k, v := range sub.counts {
			g.counts[k] += v
		}
		g.findings = append(g.findings, sub.findings...)
		g.counts[fmt.Sprintf("history:h=%d", jobs[k].h)]++
		mu.Unlock()
	})
	if g.stopEarly() {
		return
	}
	// (c) label mode: the full traversal state after every index, named by tree position, against the Lean label model
	heights := []int{4, 6, 8, 10}
	if g.thorough {
		heights = append(heights, 12)
	}
	for _, h := range heights {
		g.note("label-mode traversal h=%d", h)
		out := g.op("bds.init %d", h)
		g.check(!strings.Contains(out, "BAD") && strings.Contains(out, fmt.Sprintf("root=%d.0", h)), "label-root", "setup root is not the tree root: "+trunc(out, 80), fmt.Sprintf("bds.init %d", h))
		for i := 0; i < (1<<h)-1; i++ {
			if i%64 == 0 && g.stopEarly() {
				return
			}
			out = g.op("bds.step")
			// the authentication path of leaf i+1 must be the siblings along its path
			want := make([]string, h)
			for j := 0; j < h; j++ {
				want[j] = fmt.Sprintf("%d.%d", j, ((i+1)>>j)^1)
			}
			g.check(strings.Contains(out, "auth=["+strings.Join(want, ", ")+"]"), "label-auth", fmt.Sprintf("h=%d: after index %d the stored authentication path is not the path of leaf %d", h, i, i+1))
		}
	}
}

// ---------------------------------------------------------------- C02

// tallTreeWalk (thorough tier and the search after a broken obligation; implementation only): a height-12 key walked over
// its whole life by forward jumps with a signature at every stop. Every forward SetIndex below 2^h must be accepted,
// every Sign below 2^h must return a signature that verifies and advances the index by exactly one. A shared stack or
// table sized for the small trees of the quick tier shows here (about a minute).
func (g *gen) tallTreeWalk() {
	h := 12
	seed := g.bytes(48)
	x := newKey(seed, h, 0)
	pk := x.GetPK()
	ops := []string{fmt.Sprintf("x.new t %s %d 0 0", hx(seed), h)}
	n := 1 << uint(h)
	stops := []int{}
	for t := 0; t < n; t += 200 + g.rng.Intn(120) {
		stops = append(stops, t)
	}
	stops = append(stops, n-2)
	for _, t := range stops {
		if g.stopEarly() {
			return
		}
		if uint32(t) > x.GetIndex() {
			r := guard(func() string { x.SetIndex(uint32(t)); return "ok" })
			ops = append(ops, fmt.Sprintf("x.setidx t %d", t))
			g.check(r == "ok" && x.GetIndex() == uint32(t), "forward-setindex-accepted", fmt.Sprintf("h=%d: a forward SetIndex(%d) below 2^h is refused or leaves the index at %d: %s", h, t, x.GetIndex(), r), ops...)
			if r != "ok" {
				return
			}
		}
		for k := 0; k < 2; k++ {
			idx := x.GetIndex()
			msg := idxMsg(int(idx))
			var sig []byte
			var err error
			r := guard(func() string { sig, err = x.Sign(msg); return "ok" })
			ops = append(ops, "x.sign t "+hx(msg))
			good := r == "ok" && err == nil && x.GetIndex() == idx+1 && sigIndex(sig) == idx
			g.check(good, "sign-below-limit", fmt.Sprintf("h=%d: Sign at index %d (below 2^h) fails, or the index does not advance by exactly one (now %d): %s %v", h, idx, x.GetIndex(), r, err), ops...)
			if !good {
				return
			}
			g.check(xmss.Verify(msg, sig, pk), "verify-sign", fmt.Sprintf("h=%d index %d: Verify(msg, Sign(msg), PK) = false", h, idx), ops...)
		}
	}
	g.counts["tall-tree-walk-stops"] = len(stops)
}

func genC02(g *gen) {
	if g.thorough {
		g.tallTreeWalk()
	}
	// two live keys of different heights used in turn: the bounds of one key must not follow the other's
	g.note("keys of different heights interleaved")
	{
		sa, sb := g.bytes(48), g.bytes(48)
		g.op("x.new ha %s 6 0 0", hx(sa))
		g.op("x.new hb %s 4 1 0", hx(sb))
		r := g.op("x.setidx ha 20")
		g.check(r == "ok", "forward-setindex-accepted", "SetIndex(20) on a height-6 key is refused after a height-4 key was created: "+r, g.lastOps(3)...)
		r = g.op("x.sign ha 01")
		g.check(strings.HasPrefix(r, "ok "), "sign-below-limit", "a height-6 key at index 20 does not sign after a height-4 key was created: "+trunc(r, 60), g.lastOps(4)...)
		g.op("x.setidx hb 15")
		g.op("x.sign hb 02")
		g.op("x.new hc %s 6 2 0", hx(sa)) // a taller key appears while hb is exhausted
		g.op("x.sign ha 03")
		r = g.op("x.setidx hb 17")
		g.check(strings.HasPrefix(r, "refuse:"), "setindex-refused", "an exhausted height-4 key accepts SetIndex(17) after a height-6 key was created: "+r, g.lastOps(6)...)
		r = g.op("x.sign hb 04")
		g.check(strings.HasPrefix(r, "refuse:"), "no-signature-after-exhaustion", "an exhausted height-4 key signs after a height-6 key was created: "+trunc(r, 60), g.lastOps(7)...)
		info := g.op("x.info hb")
		g.check(field(info, "idx") == "16", "getindex-is-counter", "the index of an exhausted height-4 key moves after refused operations: "+field(info, "idx"), g.lastOps(8)...)
	}
	type plan struct{ h, hf, nops int }
	plans := []plan{{4, 0, 60}, {4, 1, 60}, {4, 2, 40}, {6, 0, 40}, {8, 0, 30}}
	if g.thorough {
		plans = append(plans, plan{6, 1, 120}, plan{8, 2, 60}, plan{10, 0, 40}, plan{4, 0, 200})
	}
	for pi, p := range plans {
		seed := g.bytes(48)
		id := fmt.Sprintf("k%d", pi)
		n := uint32(1) << p.h
		g.note("history on h=%d %s", p.h, hfName[p.hf])
		g.op("x.new %s %s %d %d 0", id, hx(seed), p.h, p.hf)
		info0 := g.op("x.info %s", id)
		constPart := func(info string) string {
			return field(info, "pk") + field(info, "seed") + field(info, "addr") + field(info, "ext")
		}
		idx := uint32(0) // the counter automaton of the property
		lastEmitted := int64(-1)
		var hist []string
		hist = append(hist, g.ops[len(g.ops)-2])
		for k := 0; k < p.nops; k++ {
			var line string
			r := g.rng.Intn(100)
			switch {
			case p.h >= 8 && k == 0:
				line = fmt.Sprintf("x.setidx %s %d", id, 253)
			case r < 55:
				line = fmt.Sprintf("x.sign %s %s", id, hx(g.bytes(g.rng.Intn(12))))
			default:
				cands := []uint32{0, idx - 1, idx, idx + 1, idx + 2, n - 2, n - 1, n, n + 1, 1 << 31, 1<<32 - 1, uint32(g.rng.Intn(int(n))), idx + uint32(g.rng.Intn(int(n/4)+1))}
				line = fmt.Sprintf("x.setidx %s %d", id, cands[g.rng.Intn(len(cands))])
			}
			if k == p.nops-8 { // make sure exhaustion is reached and exceeded
				line = fmt.Sprintf("x.setidx %s %d", id, n-3)
			}
			if k > p.nops-8 && k%2 == 1 {
				line = fmt.Sprintf("x.sign %s 01", id)
			}
			before := g.op("x.snap %s", id)
			out := g.op("%s", line)
			hist = append(hist, line)
			after := g.op("x.snap %s", id)
			info := g.op("x.info %s", id)
			f := strings.Split(line, " ")
			replay := append([]string{}, hist...)
			replay = append(replay, "x.info "+id)
			if f[0] == "x.sign" {
				if idx < n {
					sig, ok := okval(out)
					emitted := int64(-2)
					if ok {
						emitted = int64(sigIndex(unhex(sig)))
					}
					g.check(ok && emitted == int64(idx), "sign-emits-counter", fmt.Sprintf("h=%d: Sign should emit index %d, got %s (embedded %d)", p.h, idx, trunc(out, 24), emitted), replay...)
					g.check(emitted > lastEmitted, "strictly-increasing", fmt.Sprintf("h=%d: embedded index %d after %d", p.h, emitted, lastEmitted), replay...)
					g.check(emitted < int64(n), "below-2^h", fmt.Sprintf("embedded index %d >= 2^%d", emitted, p.h), replay...)
					lastEmitted = emitted
					idx++
				} else {
					g.check(strings.HasPrefix(out, "refuse:"), "no-signature-after-exhaustion", fmt.Sprintf("h=%d: Sign after the last leaf returned %s", p.h, trunc(out, 40)), replay...)
					g.check(before == after, "refused-preserves-state", "refused Sign changed the key state", replay...)
				}
			} else {
				j := uint32(atoi(f[2]))
				if j >= n || j < idx {
					g.check(strings.HasPrefix(out, "refuse:"), "setindex-refused", fmt.Sprintf("h=%d idx=%d: SetIndex(%d) should be refused, got %s", p.h, idx, j, out), replay...)
					g.check(before == after, "refused-preserves-state", fmt.Sprintf("refused SetIndex(%d) changed the key state", j), replay...)
				} else {
					g.check(out == "ok", "setindex-accepted", fmt.Sprintf("h=%d idx=%d: SetIndex(%d) should be accepted, got %s", p.h, idx, j, out), replay...)
					idx = j
				}
			}
			g.check(field(info, "idx") == fmt.Sprint(idx), "getindex-is-counter", fmt.Sprintf("GetIndex = %s, counter automaton says %d", field(info, "idx"), idx), replay...)
			g.check(constPart(info) == constPart(info0), "pk-seed-addr-constant", "public key, seed or address changed during the key's life", replay...)
		}
	}
}

// ---------------------------------------------------------------- C04

// craftedTriple: a (message, signature, public key) triple that the scheme defines as valid, for a tree of height h that is
// never built (see Xmss.craft in the Lean model: a genuine WOTS key at one leaf, an arbitrary authentication path, the
// root that path leads to). The model produces it; the library must accept it.
type craftedTriple struct {
	w        int
	h, hf    int
	idx      uint32
	msg, sig []byte
	pk       [67]byte
}

func (g *gen) craftedTriples(heights []int) []craftedTriple { return g.craftedTriplesW(16, heights) }

func (g *gen) craftedTriplesW(w int, heights []int) []craftedTriple {
	var lines []string
	var ts []craftedTriple
	for _, h := range heights {
		for hf := 0; hf < 3; hf++ {
			var idx uint32
			switch g.rng.Intn(4) {
			case 0:
				idx = 0
			case 1:
				idx = uint32(1)<<uint(h) - 1
			default:
				idx = uint32(g.rng.Int63n(int64(1) << uint(h)))
			}
			msg := g.bytes(1 + g.rng.Intn(33))
			lines = append(lines, fmt.Sprintf("x.craft %d %d %d %d %s %s", w, hf, h, idx, hx(msg), hx(g.bytes(16))))
			ts = append(ts, craftedTriple{w: w, h: h, hf: hf, idx: idx, msg: msg})
		}
	}
	outs := modelLines(lines)
	var r []craftedTriple
	for i, t := range ts {
		if i >= len(outs) {
			break
		}
		v, ok := okval(outs[i])
		f := strings.Split(v, " ")
		if !ok || len(f) != 2 {
			continue
		}
		t.sig = unhex(f[0])
		copy(t.pk[:], unhex(f[1]))
		r = append(r, t)
	}
	g.counts["crafted-valid-triples"] += len(r)
	return r
}

// xmssCorpus: messages for the zero-seed height-4 key at index 0 whose message digest has an extreme WOTS checksum
// (below 256: a leading checksum digit of 0 — one digest in 5·10^9; found with `harness wotsscan`), per hash function
func xmssCorpus() (out []struct {
	hf  int
	msg []byte
	tag string
}) {
	dir := os.Getenv("VERIF_DIR")
	if dir == "" {
		dir = "/verif"
	}
	b, err := os.ReadFile(dir + "/corpus/xmss_boundary.txt")
	if err != nil {
		return
	}
	for _, l := range strings.Split(string(b), "\n") {
		f := strings.Fields(l)
		if len(f) != 2 {
			continue
		}
		t := strings.Split(f[0], "-") // wots-<low|high>-<hf>-<checksum>
		if len(t) != 4 {
			continue
		}
		hf := int(atoi(t[2]))
		out = append(out, struct {
			hf  int
			msg []byte
			tag string
		}{hf, unhex(f[1]), f[0]})
	}
	return
}

// corpusSignatures: every corpus message signed by a fresh zero-seed key (library) and by the independent reference;
// the library's signature must verify, equal the reference's, and the reference's must be accepted by the library
func (g *gen) corpusSignatures() {
	var mu sync.Mutex
	cs := xmssCorpus()
	parallel(len(cs), func(i int) {
		c := cs[i]
		seed := make([]byte, 48)
		x := newKey(seed, 4, c.hf)
		pk := x.GetPK()
		sig, err := x.Sign(c.msg)
		ref := rxNewKey(seed, 4, c.hf)
		want := ref.sign(0, c.msg)
		var rpk [67]byte
		copy(rpk[:], ref.pk)
		v1 := err == nil && xmss.Verify(c.msg, sig, pk)
		v2 := xmss.Verify(c.msg, want, rpk)
		ops := []string{fmt.Sprintf("x.new k %s 4 %d 0", hx(seed), c.hf), "x.sign k " + hx(c.msg)}
		mu.Lock()
		g.check(v1, "verify-sign", fmt.Sprintf("%s, %s: Verify(msg, Sign(msg), PK) = false for a message whose digest has an extreme WOTS checksum", c.tag, hfName[c.hf]), ops...)
		g.check(err == nil && bytes.Equal(sig, want), "sign-vs-reference", fmt.Sprintf("%s, %s: the signature differs from the full-tree reference", c.tag, hfName[c.hf]), fmt.Sprintf("xs.sign %s 4 %d 0 %s", hx(seed), c.hf, hx(c.msg)))
		g.check(v2, "valid-accepted", fmt.Sprintf("%s, %s: the reference signature (valid by the scheme's definition) is not accepted", c.tag, hfName[c.hf]), fmt.Sprintf("x.verify 16 %s %s %s", hx(c.msg), hx(want), hx(ref.pk)))
		g.counts["corpus:"+c.tag[:strings.LastIndex(c.tag, "-")]]++
		mu.Unlock()
	})
}

func genC04(g *gen) {
	seed := g.bytes(48)
	type triple struct {
		msg, sig []byte
		pk       [67]byte
		h, hf    int
	}
	var ts []triple
	cfgs := [][2]int{{4, 0}, {4, 1}, {4, 2}, {6, 0}}
	for _, c := range cfgs {
		x := newKey(seed, c[0], c[1])
		x.SetIndex(uint32(g.rng.Intn(1 << c[0])))
		msg := g.bytes(1 + g.rng.Intn(40))
		sig, _ := x.Sign(msg)
		ts = append(ts, triple{msg, sig, x.GetPK(), c[0], c[1]})
	}
	g.note("valid triples")
	for _, t := range ts {
		v := g.op("x.verify 16 %s %s %s", hx(t.msg), hx(t.sig), hx(t.pk[:]))
		g.check(v == "ok true", "valid-accepted", "valid signature not accepted: "+v, g.ops[len(g.ops)-1])
	}
	// valid triples at every height 4 … 30 and each hash function (crafted through the model; no key of that size is built)
	// right after an accepted verification: inputs that differ from the accepted one in ways a weak fingerprint (a
	// checksum, a sum, an xor, a concatenation without lengths) would not see — each must be judged on its own
	g.note("related inputs right after an accepted signature")
	{
		t := ts[0]
		valid := fmt.Sprintf("x.verify 16 %s %s %s", hx(t.msg), hx(t.sig), hx(t.pk[:]))
		crcPattern := func(poly uint32) []byte { // the generator polynomial (with its x^32 term) in the bit order of a reflected CRC
			bits := []byte{1}
			for i := 31; i >= 0; i-- {
				bits = append(bits, byte(poly>>uint(i))&1)
			}
			out := make([]byte, 5)
			for i, b := range bits {
				out[i/8] |= b << uint(i%8)
			}
			return out
		}
		var variants [][2][]byte // (message, signature)
		for _, poly := range []uint32{0x04C11DB7, 0x1EDC6F41, 0x741B8CD7} {
			pat := crcPattern(poly)
			for _, where := range []int{0, 1, 2} {
				m2, s2 := append([]byte{}, t.msg...), append([]byte{}, t.sig...)
				switch where {
				case 0:
					if len(m2) < 5 {
						m2 = append(m2, make([]byte, 5-len(m2))...)
					}
					for i, b := range pat {
						m2[i] ^= b
					}
				case 1:
					for i, b := range pat {
						s2[len(s2)-40+i] ^= b
					}
				default:
					for i, b := range pat {
						s2[100+i] ^= b
					}
				}
				variants = append(variants, [2][]byte{m2, s2})
			}
		}
		sw := append([]byte{}, t.sig...) // two bytes swapped (same sum, same xor)
		sw[50], sw[51] = sw[51], sw[50]
		variants = append(variants, [2][]byte{t.msg, sw})
		fl := append([]byte{}, t.sig...) // the same bit flipped in two bytes (same xor)
		fl[60] ^= 0x10
		fl[61] ^= 0x10
		variants = append(variants, [2][]byte{t.msg, fl})
		variants = append(variants, [2][]byte{append(append([]byte{}, t.msg...), t.sig[:32]...), t.sig[32:]}) // boundary moved
		variants = append(variants, [2][]byte{t.msg[:len(t.msg)-1], append([]byte{t.msg[len(t.msg)-1]}, t.sig...)})
		for _, v := range variants {
			ok := g.op("%s", valid)
			g.check(ok == "ok true", "valid-accepted", "valid signature not accepted: "+ok, valid)
			line := fmt.Sprintf("x.verify 16 %s %s %s", hx(v[0]), hx(v[1]), hx(t.pk[:]))
			out := g.op("%s", line)
			g.check(out != "ok true", "related-input-rejected", "right after an accepted signature, a different (message, signature) pair is accepted: "+trunc(line, 80), valid, line)
		}
	}
	g.corpusSignatures()
	g.note("valid triples at heights 4..30")
	hts := []int{4, 8, 10, 14, 16, 18, 22, 26, 30}
	if g.thorough {
		hts = []int{4, 6, 8, 10, 12, 14, 16, 18, 20, 22, 24, 26, 28, 30}
	}
	for k, t := range g.craftedTriples(hts) {
		line := fmt.Sprintf("x.verify 16 %s %s %s", hx(t.msg), hx(t.sig), hx(t.pk[:]))
		var v string
		if k%3 == 0 {
			v = g.op("%s", line)
		} else {
			v = execOp(g.st, line)
		}
		g.check(v == "ok true", "valid-accepted", fmt.Sprintf("a valid signature at height %d (%s, index %d) is not accepted: %s", t.h, hfName[t.hf], t.idx, v), line)
		// and turned away once any one part is disturbed: message, index, R, a chain value, an authentication node, root, seed
		for _, pos := range []int{0, 3, 4 + g.rng.Intn(32), 36 + g.rng.Intn(67*32), 36 + 67*32 + g.rng.Intn(t.h*32), len(t.sig) - 1} {
			bad := append([]byte{}, t.sig...)
			bad[pos] ^= 1 << uint(g.rng.Intn(8))
			bl := fmt.Sprintf("x.verify 16 %s %s %s", hx(t.msg), hx(bad), hx(t.pk[:]))
			g.check(execOp(g.st, bl) == "ok false", "sig-bitflip-rejected", fmt.Sprintf("height %d: a signature with one flipped bit (byte %d) is accepted", t.h, pos), bl)
		}
		for _, pos := range []int{3 + g.rng.Intn(32), 35 + g.rng.Intn(32)} {
			bp := t.pk
			bp[pos] ^= 1 << uint(g.rng.Intn(8))
			bl := fmt.Sprintf("x.verify 16 %s %s %s", hx(t.msg), hx(t.sig), hx(bp[:]))
			g.check(execOp(g.st, bl) == "ok false", "other-key-rejected", fmt.Sprintf("height %d: accepted under a public key with one flipped bit (byte %d)", t.h, pos), bl)
		}
		bm := append([]byte{}, t.msg...)
		bm[g.rng.Intn(len(bm))] ^= 0x40
		bl := fmt.Sprintf("x.verify 16 %s %s %s", hx(bm), hx(t.sig), hx(t.pk[:]))
		g.check(execOp(g.st, bl) == "ok false", "other-message-rejected", fmt.Sprintf("height %d: accepted for another message", t.h), bl)
	}
	// the Winternitz parameters 4 and 256 (the library never signs with them; valid triples come from the model), and
	// calls with different parameters following one another in every order: what one call leaves behind (a parameter
	// set, a scratch buffer) must not reach the next
	g.note("valid triples for w = 4 and w = 256; calls with different parameters in mixed order")
	{
		var mixed []string
		want := map[string]string{}
		add := func(line, expect, kind, what string) {
			out := g.op("%s", line)
			g.check(out == expect, kind, what+": "+out, line)
			mixed = append(mixed, line)
			want[line] = out
		}
		for _, w := range []int{4, 256} {
			for _, t := range g.craftedTriplesW(w, []int{4, 12}) {
				line := fmt.Sprintf("x.verify %d %s %s %s", w, hx(t.msg), hx(t.sig), hx(t.pk[:]))
				add(line, "ok true", "valid-accepted", fmt.Sprintf("a valid signature for w=%d, height %d, %s is not accepted", w, t.h, hfName[t.hf]))
				bad := append([]byte{}, t.sig...)
				bad[40+g.rng.Intn(len(bad)-40)] ^= 4
				add(fmt.Sprintf("x.verify %d %s %s %s", w, hx(t.msg), hx(bad), hx(t.pk[:])), "ok false", "sig-bitflip-rejected", fmt.Sprintf("w=%d: a signature with one flipped bit is accepted", w))
			}
		}
		for _, t := range ts[:2] {
			add(fmt.Sprintf("x.verify 16 %s %s %s", hx(t.msg), hx(t.sig), hx(t.pk[:])), "ok true", "valid-accepted", "valid signature not accepted")
			for _, w := range []int{4, 256} { // well-sized garbage for the other parameters under the same key
				ks := map[int]int{4: 133 * 32, 256: 34 * 32}[w]
				add(fmt.Sprintf("x.verify %d %s %s %s", w, hx(t.msg), hx(g.bytes(36+ks+32*t.h)), hx(t.pk[:])), "ok false", "garbage-rejected", fmt.Sprintf("w=%d: random bytes of the right size are accepted", w))
			}
		}
		for round := 0; round < 6; round++ {
			for _, i := range g.rng.Perm(len(mixed)) {
				out := execOp(g.st, mixed[i])
				g.check(out == want[mixed[i]], "order-independent", "a verification gives a different result after verifications with other Winternitz parameters: "+trunc(mixed[i], 50)+" => "+out, mixed[i])
			}
		}
		// in fresh processes whose first call uses w = 4 / 256 / 16
		for _, first := range []int{4, 256, 16} {
			var script []string
			for _, l := range mixed {
				if strings.HasPrefix(l, fmt.Sprintf("x.verify %d ", first)) {
					script = append(script, l)
					break
				}
			}
			script = append(script, mixed...)
			got := freshProcess(script)
			g.check(len(got) >= len(script), "order-independent", "a fresh process running verifications failed", script...)
			for i := 0; i < len(script) && i < len(got); i++ {
				g.check(got[i] == want[script[i]], "order-independent", fmt.Sprintf("in a fresh process whose first call uses w=%d a verification gives another result: %s => %s", first, trunc(script[i], 50), got[i]), script[0], script[i])
			}
		}
	}
	// many genuine signatures (implementation only): the WOTS checksum of the message digest takes its rarer values too
	// (a verifier-side slip in the checksum digits shows for a per-cent of the messages); each must verify, and each
	// must be rejected once one chain value is advanced by hand (replaced by random bytes)
	{
		n := 1500
		if g.thorough {
			n = 20000
		}
		var mu sync.Mutex
		xs := [3]*xmss.XMSS{newKey(seed, 4, 0), newKey(seed, 4, 1), newKey(seed, 4, 2)}
		var pks [3][67]byte
		for i := range xs {
			pks[i] = xs[i].GetPK()
		}
		type job struct {
			hf  int
			msg []byte
			sig []byte
		}
		jobs := make([]job, n)
		for i := range jobs { // signing is sequential per key (stateful); verification is parallel
			hf := i % 3
			if (i/3)%16 == 0 && i >= 3 {
				xs[hf] = newKey(seed, 4, hf) // a one-time index is never revisited: a fresh object for every 16 messages
			}
			m := make([]byte, 6)
			binary.BigEndian.PutUint32(m[2:], uint32(i))
			s, _ := xs[hf].Sign(m)
			jobs[i] = job{hf, m, s}
		}
		parallel(n, func(i int) {
			j := jobs[i]
			ok := xmss.Verify(j.msg, j.sig, pks[j.hf])
			mu.Lock()
			g.check(ok, "valid-accepted", fmt.Sprintf("genuine signature (h=4 %s, message %s) not accepted", hfName[j.hf], hx(j.msg)),
				fmt.Sprintf("x.verify 16 %s %s %s", hx(j.msg), hx(j.sig), hx(pks[j.hf][:])))
			mu.Unlock()
		})
	}
	// a genuine signature with whole 32-byte blocks appended or removed (a different, possibly odd, height is implied)
	g.note("genuine signatures extended / shortened by whole blocks")
	for _, t := range ts {
		for _, d := range []int{32, 64, 96, -32, -64} {
			var s2 []byte
			if d > 0 {
				s2 = append(append([]byte{}, t.sig...), g.bytes(d)...)
			} else {
				s2 = append([]byte{}, t.sig[:len(t.sig)+d]...)
			}
			v := g.op("x.verify 16 %s %s %s", hx(t.msg), hx(s2), hx(t.pk[:]))
			g.check(v == "ok false", "resized-sig-rejected", fmt.Sprintf("a valid signature with %+d bytes is not rejected: %s", d, v), g.ops[len(g.ops)-1])
		}
	}
	// every single-bit flip of the signature, the message and the public key (implementation, all cores)
	g.note("single-bit flips")
	var mu sync.Mutex
	for ti, t := range ts {
		if !g.thorough && ti > 1 {
			continue
		}
		t := t
		nb := len(t.sig) * 8
		parallel(nb, func(b int) {
			s := append([]byte{}, t.sig...)
			s[b/8] ^= 1 << (b % 8)
			r := guard(func() string { return bstr(xmss.Verify(t.msg, s, t.pk)) })
			mu.Lock()
			g.check(r == "false", "sig-bitflip-rejected", fmt.Sprintf("h=%d %s: flipping signature bit %d (byte %d) is accepted: %s", t.h, hfName[t.hf], b, b/8, r),
				fmt.Sprintf("x.verify 16 %s %s %s", hx(t.msg), hx(s), hx(t.pk[:])))
			mu.Unlock()
		})
		for b := 0; b < len(t.msg)*8; b++ {
			m := append([]byte{}, t.msg...)
			m[b/8] ^= 1 << (b % 8)
			g.check(!xmss.Verify(m, t.sig, t.pk), "msg-bitflip-rejected", fmt.Sprintf("flipping message bit %d is accepted", b), fmt.Sprintf("x.verify 16 %s %s %s", hx(m), hx(t.sig), hx(t.pk[:])))
		}
		for b := 0; b < 67*8; b++ {
			p := t.pk
			p[b/8] ^= 1 << (b % 8)
			interpreted := b/8 == 0 || (b/8 == 1 && b%8 < 4) || b/8 >= 3
			r := guard(func() string { return bstr(xmss.Verify(t.msg, t.sig, p)) })
			line := fmt.Sprintf("x.verify 16 %s %s %s", hx(t.msg), hx(t.sig), hx(p[:]))
			if interpreted {
				g.check(r != "true", "pk-bitflip-rejected", fmt.Sprintf("h=%d %s: flipping interpreted public-key bit %d (byte %d) is accepted", t.h, hfName[t.hf], b, b/8), line)
			}
			if b < 24 || b%16 == 0 {
				g.op("%s", line)
			}
		}
		// a sample of the flips also goes to the model
		for k := 0; k < 40; k++ {
			b := g.rng.Intn(nb)
			if k < 8 {
				b = g.rng.Intn(32) // index field
			}
			s := append([]byte{}, t.sig...)
			s[b/8] ^= 1 << (b % 8)
			g.op("x.verify 16 %s %s %s", hx(t.msg), hx(s), hx(t.pk[:]))
		}
	}
	g.note("signatures from another key, index, height, hash function; unsupported descriptors")
	for i, a := range ts {
		for j, b := range ts {
			if i == j {
				continue
			}
			v := g.op("x.verify 16 %s %s %s", hx(a.msg), hx(a.sig), hx(b.pk[:]))
			g.check(v != "ok true", "other-key-rejected", fmt.Sprintf("signature of key %d accepted under key %d", i, j), g.ops[len(g.ops)-1])
		}
	}
	t := ts[0]
	for hf := 0; hf < 16; hf++ {
		for _, zeroRoot := range []bool{false, true} {
			p := t.pk
			p[0] = (p[0] & 0xf0) | byte(hf)
			if zeroRoot {
				for k := 3; k < 35; k++ {
					p[k] = 0
				}
			}
			line := fmt.Sprintf("x.verify 16 %s %s %s", hx(t.msg), hx(t.sig), hx(p[:]))
			v := g.op("%s", line)
			if hf != t.hf {
				g.check(v != "ok true", "hash-id-rejected", fmt.Sprintf("public key declaring hash function id %d (zero root: %v) accepts a signature: %s", hf, zeroRoot, v), line)
			}
			// any byte string of the right size under an unsupported hash id
			if hf >= 3 && zeroRoot {
				junk := g.bytes(len(t.sig))
				line := fmt.Sprintf("x.verify 16 %s %s %s", hx(g.bytes(5)), hx(junk), hx(p[:]))
				v := g.op("%s", line)
				g.check(v != "ok true", "unsupported-hash-forgery", fmt.Sprintf("hash function id %d with an all-zero root accepts an arbitrary byte string as a signature", hf), line)
			}
		}
	}
	for hn := 0; hn < 16; hn++ { // every height nibble
		p := t.pk
		p[1] = (p[1] & 0xf0) | byte(hn)
		line := fmt.Sprintf("x.verify 16 %s %s %s", hx(t.msg), hx(t.sig), hx(p[:]))
		v := g.op("%s", line)
		if hn*2 != t.h {
			g.check(v != "ok true", "height-rejected", fmt.Sprintf("public key declaring height %d accepts a height-%d signature", hn*2, t.h), line)
		}
	}
	for st := 1; st < 16; st++ {
		p := t.pk
		p[0] = (p[0] & 0x0f) | byte(st<<4)
		g.op("x.verify 16 %s %s %s", hx(t.msg), hx(t.sig), hx(p[:]))
	}
	// truncated-root comparison: change only the last byte of the root in the key
	for _, k := range []int{3, 18, 33, 34} {
		p := t.pk
		p[k] ^= 0x80
		line := fmt.Sprintf("x.verify 16 %s %s %s", hx(t.msg), hx(t.sig), hx(p[:]))
		g.check(g.op("%s", line) == "ok false", "root-byte-compared", fmt.Sprintf("changing root byte %d of the public key is accepted", k-3), line)
	}
	g.note("other Winternitz parameters and sizes")
	for _, w := range []int{4, 16, 256} {
		_, _, _, _, ks := xmss.VerifWOTSParams(32, uint32(w))
		base := 36 + int(ks)
		for _, n := range []int{base + 4*32, base + 6*32, base + 4*32 + 1, base - 1, base + 30*32, base + 31*32} {
			s := g.bytes(n)
			v := g.op("x.verify %d %s %s %s", w, hx(t.msg), hx(s), hx(t.pk[:]))
			g.check(v != "ok true", "random-sig-rejected", fmt.Sprintf("random %d-byte string accepted as a w=%d signature", n, w), g.ops[len(g.ops)-1])
		}
	}
}

// ---------------------------------------------------------------- C06 (see spec ops xs.* in exec_spec.go)

func genC06(g *gen) {
	cfgs := [][2]int{{4, 0}, {4, 1}, {4, 2}, {10, 0}} // h=10: the stored index crosses a byte boundary (255 → 256)
	if g.thorough {
		cfgs = append(cfgs, [2]int{6, 0}, [2]int{6, 1}, [2]int{6, 2}, [2]int{8, 0})
	}
	g.note("known answers of the test suite (zero seed, SHAKE_128)")
	g.op("xs.pk %s 4 1", hx(make([]byte, 48)))
	if g.thorough {
		g.op("xs.pk %s 6 1", hx(make([]byte, 48)))
	}
	for ci, c := range cfgs {
		seed := g.bytes(48)
		if ci == 0 {
			seed = make([]byte, 48)
		}
		h, hf := c[0], c[1]
		g.note("h=%d %s against the full-tree reference", h, hfName[hf])
		out := g.op("xs.pk %s %d %d", hx(seed), h, hf)
		pk, _ := okval(out)
		n := 1 << h
		idxs := []int{}
		if h == 4 {
			for i := 0; i < n; i++ {
				idxs = append(idxs, i)
			}
		} else if h == 10 && !g.thorough {
			idxs = []int{255, 256, 300}
		} else {
			idxs = []int{0, 1, n/2 - 1, n / 2, n - 2, n - 1, g.rng.Intn(n), g.rng.Intn(n)}
			if h == 10 {
				idxs = append(idxs, 255, 256, 300)
			}
		}
		for _, i := range idxs {
			msg := g.bytes(g.rng.Intn(33))
			s := g.op("xs.sign %s %d %d %d %s", hx(seed), h, hf, i, hx(msg))
			sig, ok := okval(s)
			if ok {
				v1 := g.op("x.verify 16 %s %s %s", hx(msg), sig, pk)
				pkb, _ := sized67(unhex(pk))
				g.check(xmss.Verify(msg, unhex(sig), pkb) == xmss.VerifyWithCustomWOTSParamW(msg, unhex(sig), pkb, 16), "verify-eq-w16", "Verify != VerifyWithCustomWOTSParamW(w=16)")
				g.check(v1 == "ok true", "reference-sig-verifies", fmt.Sprintf("h=%d %s index %d: library signature does not verify", h, hfName[hf], i), g.ops[len(g.ops)-2:]...)
			}
		}
		// determinism: a second object from the same inputs gives the same bytes
		x1, x2 := newKey(seed, h, hf), newKey(seed, h, hf)
		j := g.rng.Intn(n)
		x1.SetIndex(uint32(j))
		x2.SetIndex(uint32(j))
		s1, _ := x1.Sign([]byte("d"))
		s2, _ := x2.Sign([]byte("d"))
		g.check(x1.GetPK() == x2.GetPK() && bytes.Equal(s1, s2), "deterministic", "two keys from the same (seed, height, hash) differ in PK or signature")
	}
	// many keys and signatures against the independent full-tree reference in Go (ref_xmss.go): every index of small
	// trees, message digests of every shape (WOTS digits and checksums are data dependent), sequential signing and
	// jumps, a byte boundary of the index at h = 10
	g.corpusSignatures()
	g.note("keys and signatures vs an independent full-tree reference, many seeds and messages")
	{
		type job struct {
			h, hf int
			seed  []byte
		}
		var jobs []job
		nk := 64
		if g.thorough {
			nk = 480
		}
		for i := 0; i < nk; i++ {
			h := []int{4, 4, 4, 6, 4, 4, 4, 8}[i%8]
			jobs = append(jobs, job{h, i % 3, g.bytes(48)})
		}
		jobs = append(jobs, job{10, g.rng.Intn(3), g.bytes(48)})
		var mu sync.Mutex
		parallel(len(jobs), func(k int) {
			j := jobs[k]
			ref := rxNewKey(j.seed, j.h, j.hf)
			x := newKey(j.seed, j.h, j.hf)
			pk := x.GetPK()
			okPK := bytes.Equal(pk[:], ref.pk)
			mu.Lock()
			g.check(okPK, "pk-vs-reference", fmt.Sprintf("h=%d %s: the public key differs from the full-tree reference for seed %s", j.h, hfName[j.hf], hx(j.seed)), fmt.Sprintf("xs.pk %s %d %d", hx(j.seed), j.h, j.hf))
			mu.Unlock()
			n := 1 << uint(j.h)
			rng := newRng(int64(k)*977 + g.seed)
			idx := 0
			if j.h == 10 {
				idx = 250
				x.SetIndex(250)
			}
			for cnt := 0; idx < n && cnt < 96; cnt++ {
				msg := make([]byte, rng.Intn(40))
				rng.Read(msg)
				if cnt%5 == 2 { // a refused SetIndex (beyond the tree, or backwards) must leave the key exactly as it was
					guard(func() string { x.SetIndex(uint32(n + rng.Intn(7))); return "" })
					if idx > 0 {
						guard(func() string { x.SetIndex(uint32(rng.Intn(idx))); return "" })
					}
				}
				if cnt%3 == 1 { // an unrelated verification with another Winternitz parameter must leave the key alone
					guard(func() string {
						xmss.VerifyWithCustomWOTSParamW(msg, make([]byte, []int{4420, 1252}[cnt%2]+32*(j.h-4)), pk, uint32([]int{4, 256}[cnt%2]))
						return ""
					})
				}
				var sig []byte
				var err error
				pr := guard(func() string { sig, err = x.Sign(msg); return "ok" })
				want := ref.sign(uint32(idx), msg)
				ok := pr == "ok" && err == nil && bytes.Equal(sig, want)
				mu.Lock()
				g.check(ok, "sign-vs-reference", fmt.Sprintf("h=%d %s index %d: the signature differs from the full-tree reference (seed %s, msg %s)", j.h, hfName[j.hf], idx, hx(j.seed), hx(msg)),
					fmt.Sprintf("xs.sign %s %d %d %d %s", hx(j.seed), j.h, j.hf, idx, hx(msg)))
				mu.Unlock()
				idx++
				if j.h >= 6 && rng.Intn(4) == 0 && idx < n-1 { // forward jump
					idx += rng.Intn((n - idx) / 2 + 1)
					if idx >= n {
						break
					}
					x.SetIndex(uint32(idx))
				}
			}
		})
	}
	g.concurrentDeterminism()
}

// concurrentDeterminism: the same (seed, height, hash) on many goroutines at once must give the public key and the
// signatures it gives alone (the outputs are a fixed function of the inputs, whatever else the process is doing)
func (g *gen) concurrentDeterminism() {
	g.note("the same inputs on 16 goroutines at once")
	seed := g.bytes(48)
	type res struct {
		pk  [67]byte
		sig []byte
		ok  bool
	}
	one := func(hf, idx int) (r res) {
		defer func() {
			if e := recover(); e != nil {
				r.ok = false
			}
		}()
		x := newKey(seed, 4, hf)
		x.SetIndex(uint32(idx))
		s, err := x.Sign([]byte("concurrent"))
		r.pk, r.sig, r.ok = x.GetPK(), s, err == nil
		if r.ok {
			r.ok = xmss.Verify([]byte("concurrent"), s, r.pk)
		}
		return
	}
	want := map[[2]int]res{}
	for hf := 0; hf < 3; hf++ {
		for _, idx := range []int{0, 7} {
			want[[2]int{hf, idx}] = one(hf, idx)
		}
	}
	var mu sync.Mutex
	parallel(16*6, func(k int) {
		hf, idx := k%3, []int{0, 7}[(k/3)%2]
		got := one(hf, idx)
		w := want[[2]int{hf, idx}]
		mu.Lock()
		g.check(got.ok && w.ok && got.pk == w.pk && bytes.Equal(got.sig, w.sig), "deterministic-under-concurrency",
			fmt.Sprintf("h=4 %s index %d: public key / signature / Verify obtained while other goroutines use the library differ from those obtained alone", hfName[hf], idx),
			fmt.Sprintf("x.new c %s 4 %d 0", hx(seed), hf), fmt.Sprintf("x.setidx c %d", idx), "x.sign c "+hx([]byte("concurrent")))
		mu.Unlock()
	})
}

// ---------------------------------------------------------------- C08

func genC08(g *gen) {
	type plan struct {
		h, hf   int
		crashes []int
		tail    int
	}
	all := func(n int) []int {
		r := make([]int, n+1)
		for i := range r {
			r[i] = i
		}
		return r
	}
	plans := []plan{{4, g.rng.Intn(3), all(16), 16}, {6, 0, []int{0, 1, 15, 16, 31, 32, 47, 48, 62, 63, 64, g.rng.Intn(64)}, 6}, {8, 0, []int{48, 64, 127, 128, 200, g.rng.Intn(256)}, 20},
		{10, 0, []int{254, 255, 256}, 4}} // the stored index crosses a byte boundary
	if g.thorough {
		plans = []plan{{4, 0, all(16), 16}, {4, 1, all(16), 16}, {4, 2, all(16), 16}, {6, 0, all(64), 10}, {8, 0, []int{20, 48, 63, 64, 65, 127, 128, 192, 200, 254, 255, 256}, 24}, {10, 0, []int{48, 255, 256, 511, 512, 1000}, 24}}
	}
	for pi, p := range plans {
		seed := g.bytes(48)
		n := 1 << p.h
		// the Lean model replays h=4 (and h=6 in the thorough tier); taller trees are compared implementation-vs-implementation only
		g.quiet = p.h > 6 || (p.h == 6 && !g.thorough)
		g.note("h=%d %s: original object signs 0..; rebuilt objects reach each crash index by one jump / several jumps / mixed", p.h, hfName[p.hf])
		orig := fmt.Sprintf("o%d", pi)
		g.op("x.new %s %s %d %d 0", orig, hx(seed), p.h, p.hf)
		cur := 0
		origSnap := map[int]string{}
		origSig := map[int]string{}
		maxNeeded := 0
		for _, c := range p.crashes {
			if c+p.tail > maxNeeded {
				maxNeeded = c + p.tail
			}
		}
		if maxNeeded > n {
			maxNeeded = n
		}
		origSnap[0] = g.op("x.snap %s", orig)
		for cur < maxNeeded {
			origSig[cur] = g.op("x.sign %s %s", orig, hx(idxMsg(cur)))
			cur++
			origSnap[cur] = g.op("x.snap %s", orig)
		}
		for ci, c := range p.crashes {
			if c > n {
				continue
			}
			ways := [][]int{{c}}
			if c >= 2 {
				a := g.rng.Intn(c)
				ways = append(ways, []int{a, c}, []int{a, -1, c}) // two jumps; jump, sign, jump
			}
			if c >= 1 && c <= 16 {
				ways = append(ways, seqHistory(0, c)) // by signing
			}
			for wi, way := range ways {
				if !g.thorough && p.h >= 6 && wi > 1 && ci%2 == 1 {
					continue
				}
				id := fmt.Sprintf("r%d_%d_%d", pi, ci, wi)
				start := len(g.ops)
				g.op("x.new %s %s %d %d 0", id, hx(seed), p.h, p.hf)
				at := 0
				for _, a := range way {
					if a < 0 {
						g.op("x.sign %s %s", id, hx(idxMsg(at)))
						at++
					} else if a < n {
						g.op("x.setidx %s %d", id, a)
						at = a
					} else { // crash index 2^h: reachable only by signing the last leaf
						g.op("x.setidx %s %d", id, n-1)
						g.op("x.sign %s %s", id, hx(idxMsg(n - 1)))
						at = n
					}
				}
				snap := g.op("x.snap %s", id)
				replay := []string{fmt.Sprintf("x.new %s %s %d %d 0", id, hx(seed), p.h, p.hf)}
				if !g.quiet {
					replay = append([]string{}, g.ops[start:]...)
				} else {
					at := 0
					for _, a := range way {
						if a < 0 {
							replay = append(replay, fmt.Sprintf("x.sign %s %s", id, hx(idxMsg(at))))
							at++
						} else {
							replay = append(replay, fmt.Sprintf("x.setidx %s %d", id, a))
							at = a
						}
					}
					replay = append(replay, "x.snap "+id)
				}
				g.check(snap == origSnap[c], "state-independent-of-history", fmt.Sprintf("h=%d: state at index %d reached via %v differs from the state reached by signing", p.h, c, way), replay...)
				for k := c; k < c+p.tail && k < n; k++ {
					if wi > 0 && k > c+2 {
						break
					}
					s := g.op("x.sign %s %s", id, hx(idxMsg(k)))
					replay = append(replay, fmt.Sprintf("x.sign %s %s", id, hx(idxMsg(k))))
					g.check(s == origSig[k], "rebuilt-signature-identical", fmt.Sprintf("h=%d: rebuilt key (crash at %d via %v) signs index %d differently from the original", p.h, c, way, k), replay...)
				}
				if c >= n {
					s := g.op("x.sign %s 00", id)
					g.check(strings.HasPrefix(s, "refuse:"), "rebuilt-exhausted", "rebuilt exhausted key still signs", replay...)
				}
			}
		}
	}
	g.quiet = false
}
