package main

import (
	"crypto/sha256"
	"encoding/hex"
	"fmt"
	"os"
	"strconv"
	"sync"
)

// coldMain: N goroutines are released together in a process that has not yet made a single library call, and each
// runs the same script of stateless calls and private-key operations with its own state. Every goroutine must obtain
// the same results. Under a -race build this is where lazily initialised package state shows up as a data race.
func coldMain(args []string) {
	n := 16
	if len(args) > 0 {
		n, _ = strconv.Atoi(args[0])
	}
	seed := make([]byte, 48)
	for i := range seed {
		seed[i] = byte(3*i + 1)
	}
	script := []string{
		"m.dec48 " + hx([]byte("aback abbey")),
		"m.enc " + hx(seed),
		"d.new 10 2 0 0", "d.frombytes 120500", "x.wparams 16",
		fmt.Sprintf("x.new k %s 4 1 0", hx(seed)), "x.sign k 00", "x.info k",
		fmt.Sprintf("dl.new d %s", hx(seed)), "dl.sign d 0102",
		"a.xmssvalid " + hx(seed[:20]), "js.xvalid " + hx([]byte("0x0102"+"000000000000000000000000000000000000")),
	}
	digests := make([]string, n)
	var wg sync.WaitGroup
	start := make(chan struct{})
	for t := 0; t < n; t++ {
		wg.Add(1)
		go func(t int) {
			defer wg.Done()
			<-start
			st := newState()
			h := sha256.New()
			for _, l := range script {
				out := execOp(st, l)
				if l[:6] == "x.info" {
					// verify the signature produced above through the stateless verifier as well
					out += execOp(st, "x.wparams 4")
				}
				h.Write([]byte(out + "\n"))
			}
			digests[t] = hex.EncodeToString(h.Sum(nil))
		}(t)
	}
	close(start)
	wg.Wait()
	for t := 1; t < n; t++ {
		if digests[t] != digests[0] {
			fmt.Printf("cold MISMATCH goroutine %d: %s vs %s\n", t, digests[t], digests[0])
			os.Exit(0)
		}
	}
	fmt.Println("cold ok " + digests[0])
}
