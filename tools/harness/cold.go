package main

import (
	"crypto/sha256"
	"encoding/hex"
	"fmt"
	"os"
	"runtime"
	"strconv"
	"strings"
	"sync"
	"sync/atomic"
)

// coldMain: N goroutines are released together in a process that has not yet made a single library call, and each
// runs the same script of stateless calls and private-key operations with its own state. Every goroutine must obtain
// the same results. Under a -race build this is where lazily initialised package state shows up as a data race.
func coldMain(args []string) {
	n, rounds := 16, 2
	if len(args) > 0 {
		n, _ = strconv.Atoi(args[0])
	}
	if len(args) > 1 {
		rounds, _ = strconv.Atoi(args[1])
	}
	seed := make([]byte, 48)
	for i := range seed {
		seed[i] = byte(3*i + 1)
	}
	scriptFor := func(t int) []string {
		ds := append([]byte{}, seed...)
		ds[0] = byte(t % 2) // two different Dilithium keys alternate (a single-slot cache thrashes and still hits)
		sc := []string{
			"m.dec48 " + hx([]byte("aback abbey")),
			"m.enc " + hx(seed),
			"d.new 10 2 0 0", "d.frombytes 120500", "x.wparams 16",
			fmt.Sprintf("x.new k %s 4 %d 0", hx(seed), t%3), "x.sign k 00", "x.info k",
			fmt.Sprintf("dl.new d %s", hx(ds)),
			"a.xmssvalid " + hx(seed[:20]), "js.xvalid " + hx([]byte("0x0102"+"000000000000000000000000000000000000")),
		}
		for r := 0; r < rounds; r++ {
			sc = append(sc, fmt.Sprintf("dl.sign d %02x%02x", r, t%2))
		}
		return sc
	}
	run := func(t int) string {
		st := newState()
		h := sha256.New()
		for _, l := range scriptFor(t) {
			out := execOp(st, l)
			if strings.HasPrefix(l, "dl.sign") {
				// the signature just produced must verify (stateless verifier, the key's matrix is re-expanded)
				if sig, ok := okval(out); ok {
					pk := st.dkeys["d"].GetPK()
					out += " " + execOp(st, fmt.Sprintf("dl.verify %s %s %s", strings.Fields(l)[2], sig, hx(pk[:])))
				}
			}
			h.Write([]byte(out + "\n"))
		}
		return hex.EncodeToString(h.Sum(nil))
	}
	digests := make([]string, n)
	var arrived int32
	var wg sync.WaitGroup
	start := make(chan struct{})
	for t := 0; t < n; t++ {
		wg.Add(1)
		go func(t int) {
			defer wg.Done()
			<-start
			// spin barrier: nobody makes the first library call before everybody is running (on a loaded machine
			// the goroutines would otherwise start one after the other and a lazy initialisation would look safe)
			atomic.AddInt32(&arrived, 1)
			for atomic.LoadInt32(&arrived) < int32(n) {
				runtime.Gosched()
			}
			digests[t] = run(t)
		}(t)
	}
	close(start)
	wg.Wait()
	// afterwards, one at a time: the results every goroutine should have obtained
	all := sha256.New()
	for t := 0; t < n; t++ {
		want := run(t)
		if digests[t] != want {
			fmt.Printf("cold MISMATCH goroutine %d: concurrent %s vs alone %s\n", t, digests[t], want)
			os.Exit(0)
		}
		all.Write([]byte(want))
	}
	fmt.Println("cold ok " + hex.EncodeToString(all.Sum(nil)))
}
