package main

// An independent, specification-level Dilithium5 key generation in plain modular arithmetic (no Montgomery form, no
// table of twiddles, naive O(n²) transforms at the roots ψ^(2·brv+1)). It is used only to SEARCH for seeds on which
// the library's key generation leaves the specification (rare boundary conditions); every hit is reported with the
// seed as replay, where the Lean model — the reference the theorems are about — is evaluated as well.

import (
	"golang.org/x/crypto/sha3"
)

const rq = 8380417

func rmod(x int64) int64 {
	x %= rq
	if x < 0 {
		x += rq
	}
	return x
}

func rpow(b, e int64) int64 {
	r := int64(1)
	b = rmod(b)
	for ; e > 0; e >>= 1 {
		if e&1 == 1 {
			r = r * b % rq
		}
		b = b * b % rq
	}
	return r
}

func brv8(k int) int {
	r := 0
	for i := 0; i < 8; i++ {
		r |= ((k >> i) & 1) << (7 - i)
	}
	return r
}

// evaluation points in the order of the library's NTT output: r_{2m} = ψ^brv8(128+m), r_{2m+1} = −r_{2m}
var refRoots, refRootsInv [256]int64

func init() {
	for m := 0; m < 128; m++ {
		r := rpow(1753, int64(brv8(128+m)))
		refRoots[2*m], refRoots[2*m+1] = r, rmod(-r)
	}
	for i := range refRoots {
		refRootsInv[i] = rpow(refRoots[i], rq-2)
	}
}

func refNTT(a *[256]int64) (out [256]int64) {
	for i := 0; i < 256; i++ {
		var acc, p int64 = 0, 1
		for j := 0; j < 256; j++ {
			acc = (acc + rmod(a[j])*p) % rq
			p = p * refRoots[i] % rq
		}
		out[i] = acc
	}
	return
}

func refINTT(a *[256]int64) (out [256]int64) {
	inv256 := rpow(256, rq-2)
	var pw [256]int64 // r_i^{-j}, updated per j
	for i := range pw {
		pw[i] = 1
	}
	for j := 0; j < 256; j++ {
		var acc int64
		for i := 0; i < 256; i++ {
			acc = (acc + a[i]*pw[i]) % rq
			pw[i] = pw[i] * refRootsInv[i] % rq
		}
		out[j] = acc * inv256 % rq
	}
	return
}

func refShake(rate128 bool, in []byte, n int) []byte {
	out := make([]byte, n)
	if rate128 {
		sha3.ShakeSum128(out, in)
	} else {
		sha3.ShakeSum256(out, in)
	}
	return out
}

// ExpandA entry: rejection sampling of 23-bit candidates from SHAKE128(rho ‖ nonce)
func refPolyUniform(rho []byte, nonce uint16) (p [256]int64) {
	in := append(append([]byte{}, rho...), byte(nonce), byte(nonce>>8))
	n := 840
	for {
		buf := refShake(true, in, n)
		ctr := 0
		for pos := 0; pos+3 <= len(buf) && ctr < 256; pos += 3 {
			t := (int64(buf[pos]) | int64(buf[pos+1])<<8 | int64(buf[pos+2])<<16) & 0x7FFFFF
			if t < rq {
				p[ctr] = t
				ctr++
			}
		}
		if ctr == 256 {
			return
		}
		n += 168 * 3
	}
}

// ExpandS entry: rejection sampling of nibbles < 15 from SHAKE256(rhoPrime ‖ nonce), η = 2
func refPolyUniformEta(seed []byte, nonce uint16) (p [256]int64) {
	in := append(append([]byte{}, seed...), byte(nonce), byte(nonce>>8))
	n := 136
	for {
		buf := refShake(false, in, n)
		ctr := 0
		for pos := 0; pos < len(buf) && ctr < 256; pos++ {
			for _, t := range []int64{int64(buf[pos] & 15), int64(buf[pos] >> 4)} {
				if t < 15 && ctr < 256 {
					p[ctr] = 2 - t%5
					ctr++
				}
			}
		}
		if ctr == 256 {
			return
		}
		n += 136
	}
}

func packBits(vals []int64, bits uint) []byte {
	var out []byte
	var acc uint64
	var n uint
	for _, v := range vals {
		acc |= uint64(v) << n
		n += bits
		for n >= 8 {
			out = append(out, byte(acc))
			acc >>= 8
			n -= 8
		}
	}
	return out
}

// refKeygen: (pk, sk) of the specification for the 32-byte seed ξ
func refKeygen(xi []byte) (pk, sk []byte) {
	buf := refShake(false, xi, 128)
	rho, rhoPrime, key := buf[:32], buf[32:96], buf[96:128]
	var s1 [dL][256]int64
	var s2 [dK][256]int64
	var s1hat [dL][256]int64
	for j := 0; j < dL; j++ {
		s1[j] = refPolyUniformEta(rhoPrime, uint16(j))
		s1hat[j] = refNTT(&s1[j])
	}
	for i := 0; i < dK; i++ {
		s2[i] = refPolyUniformEta(rhoPrime, uint16(dL+i))
	}
	pk = append([]byte{}, rho...)
	var t0s [dK][]int64
	for i := 0; i < dK; i++ {
		var that [256]int64
		for j := 0; j < dL; j++ {
			a := refPolyUniform(rho, uint16(i<<8+j))
			for k := 0; k < 256; k++ {
				that[k] = (that[k] + a[k]*s1hat[j][k]) % rq
			}
		}
		t := refINTT(&that)
		t1 := make([]int64, 256)
		t0 := make([]int64, 256)
		for k := 0; k < 256; k++ {
			v := rmod(t[k] + s2[i][k])
			r0 := v % 8192
			if r0 > 4096 {
				r0 -= 8192
			}
			t1[k], t0[k] = (v-r0)/8192, 4096-r0
		}
		pk = append(pk, packBits(t1, 10)...)
		t0s[i] = t0
	}
	tr := refShake(false, pk, 32)
	sk = append(append(append([]byte{}, rho...), key...), tr...)
	for j := 0; j < dL; j++ {
		v := make([]int64, 256)
		for k := range v {
			v[k] = 2 - s1[j][k]
		}
		sk = append(sk, packBits(v, 3)...)
	}
	for i := 0; i < dK; i++ {
		v := make([]int64, 256)
		for k := range v {
			v[k] = 2 - s2[i][k]
		}
		sk = append(sk, packBits(v, 3)...)
	}
	for i := 0; i < dK; i++ {
		sk = append(sk, packBits(t0s[i], 13)...)
	}
	return
}
