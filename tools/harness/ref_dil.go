package main

// An independent, specification-level Dilithium5 key generation in plain modular arithmetic (no Montgomery form, no
// table of twiddles, naive O(n²) transforms at the roots ψ^(2·brv+1)). It is used only to SEARCH for seeds on which
// the library's key generation leaves the specification (rare boundary conditions); every hit is reported with the
// seed as replay, where the Lean model — the reference the theorems are about — is evaluated as well.

import (
	"golang.org/x/crypto/sha3"
)

const rq = 8380417

func rmod(x int64) int64 {
	x %= rq
	if x < 0 {
		x += rq
	}
	return x
}

func rpow(b, e int64) int64 {
	r := int64(1)
	b = rmod(b)
	for ; e > 0; e >>= 1 {
		if e&1 == 1 {
			r = r * b % rq
		}
		b = b * b % rq
	}
	return r
}

func brv8(k int) int {
	r := 0
	for i := 0; i < 8; i++ {
		r |= ((k >> i) & 1) << (7 - i)
	}
	return r
}

// evaluation points in the order of the library's NTT output: r_{2m} = ψ^brv8(128+m), r_{2m+1} = −r_{2m}
var refRoots, refRootsInv [256]int64

func init() {
	for m := 0; m < 128; m++ {
		r := rpow(1753, int64(brv8(128+m)))
		refRoots[2*m], refRoots[2*m+1] = r, rmod(-r)
	}
	for i := range refRoots {
		refRootsInv[i] = rpow(refRoots[i], rq-2)
	}
}

// power tables: refPow[i][j] = r_i^j, refPowInv[i][j] = r_i^(-j); built on first use
var refPow, refPowInv *[256][256]int64

func refTables() {
	if refPow != nil {
		return
	}
	var a, b [256][256]int64
	for i := 0; i < 256; i++ {
		var p, pi int64 = 1, 1
		for j := 0; j < 256; j++ {
			a[i][j], b[i][j] = p, pi
			p = p * refRoots[i] % rq
			pi = pi * refRootsInv[i] % rq
		}
	}
	refPow, refPowInv = &a, &b
}

func init() { refTables() }

// evaluation of the polynomial at the 256 roots (plain sums; 256 products below 2^46 fit in an int64)
func refNTT(a *[256]int64) (out [256]int64) {
	var c [256]int64
	for j := range c {
		c[j] = rmod(a[j])
	}
	for i := 0; i < 256; i++ {
		var acc int64
		row := &refPow[i]
		for j := 0; j < 256; j++ {
			acc += c[j] * row[j]
		}
		out[i] = acc % rq
	}
	return
}

// interpolation: a_j = 256^-1 · Σ_i â_i · r_i^-j
func refINTT(a *[256]int64) (out [256]int64) {
	inv256 := rpow(256, rq-2)
	for j := 0; j < 256; j++ {
		var acc int64
		for i := 0; i < 256; i++ {
			acc += rmod(a[i]) * refPowInv[i][j]
		}
		out[j] = acc % rq * inv256 % rq
	}
	return
}

func refShake(rate128 bool, in []byte, n int) []byte {
	out := make([]byte, n)
	if rate128 {
		sha3.ShakeSum128(out, in)
	} else {
		sha3.ShakeSum256(out, in)
	}
	return out
}

// ExpandA entry: rejection sampling of 23-bit candidates from SHAKE128(rho ‖ nonce)
func refPolyUniform(rho []byte, nonce uint16) (p [256]int64) {
	in := append(append([]byte{}, rho...), byte(nonce), byte(nonce>>8))
	n := 840
	for {
		buf := refShake(true, in, n)
		ctr := 0
		for pos := 0; pos+3 <= len(buf) && ctr < 256; pos += 3 {
			t := (int64(buf[pos]) | int64(buf[pos+1])<<8 | int64(buf[pos+2])<<16) & 0x7FFFFF
			if t < rq {
				p[ctr] = t
				ctr++
			}
		}
		if ctr == 256 {
			return
		}
		n += 168 * 3
	}
}

// ExpandS entry: rejection sampling of nibbles < 15 from SHAKE256(rhoPrime ‖ nonce), η = 2
func refPolyUniformEta(seed []byte, nonce uint16) (p [256]int64) {
	in := append(append([]byte{}, seed...), byte(nonce), byte(nonce>>8))
	n := 136
	for {
		buf := refShake(false, in, n)
		ctr := 0
		for pos := 0; pos < len(buf) && ctr < 256; pos++ {
			for _, t := range []int64{int64(buf[pos] & 15), int64(buf[pos] >> 4)} {
				if t < 15 && ctr < 256 {
					p[ctr] = 2 - t%5
					ctr++
				}
			}
		}
		if ctr == 256 {
			return
		}
		n += 136
	}
}

func packBits(vals []int64, bits uint) []byte {
	var out []byte
	var acc uint64
	var n uint
	for _, v := range vals {
		acc |= uint64(v) << n
		n += bits
		for n >= 8 {
			out = append(out, byte(acc))
			acc >>= 8
			n -= 8
		}
	}
	return out
}

// refKeygen: (pk, sk) of the specification for the 32-byte seed ξ
func refKeygen(xi []byte) (pk, sk []byte) {
	buf := refShake(false, xi, 128)
	rho, rhoPrime, key := buf[:32], buf[32:96], buf[96:128]
	var s1 [dL][256]int64
	var s2 [dK][256]int64
	var s1hat [dL][256]int64
	for j := 0; j < dL; j++ {
		s1[j] = refPolyUniformEta(rhoPrime, uint16(j))
		s1hat[j] = refNTT(&s1[j])
	}
	for i := 0; i < dK; i++ {
		s2[i] = refPolyUniformEta(rhoPrime, uint16(dL+i))
	}
	pk = append([]byte{}, rho...)
	var t0s [dK][]int64
	for i := 0; i < dK; i++ {
		var that [256]int64
		for j := 0; j < dL; j++ {
			a := refPolyUniform(rho, uint16(i<<8+j))
			for k := 0; k < 256; k++ {
				that[k] = (that[k] + a[k]*s1hat[j][k]) % rq
			}
		}
		t := refINTT(&that)
		t1 := make([]int64, 256)
		t0 := make([]int64, 256)
		for k := 0; k < 256; k++ {
			v := rmod(t[k] + s2[i][k])
			r0 := v % 8192
			if r0 > 4096 {
				r0 -= 8192
			}
			t1[k], t0[k] = (v-r0)/8192, 4096-r0
		}
		pk = append(pk, packBits(t1, 10)...)
		t0s[i] = t0
	}
	tr := refShake(false, pk, 32)
	sk = append(append(append([]byte{}, rho...), key...), tr...)
	for j := 0; j < dL; j++ {
		v := make([]int64, 256)
		for k := range v {
			v[k] = 2 - s1[j][k]
		}
		sk = append(sk, packBits(v, 3)...)
	}
	for i := 0; i < dK; i++ {
		v := make([]int64, 256)
		for k := range v {
			v[k] = 2 - s2[i][k]
		}
		sk = append(sk, packBits(v, 3)...)
	}
	for i := 0; i < dK; i++ {
		sk = append(sk, packBits(t0s[i], 13)...)
	}
	return
}

// ---------------------------------------------------------------- reference signer

type refKey struct {
	rho, key, tr []byte
	s1           [dL][256]int64
	s2, t0       [dK][256]int64
	ahat         [dK][dL][256]int64
	pk, sk       []byte
}

// refKeyFull: the key material of the specification for ξ (same computation as refKeygen, keeping the parts)
func refKeyFull(xi []byte) *refKey {
	k := &refKey{}
	buf := refShake(false, xi, 128)
	rhoPrime := buf[32:96]
	k.rho, k.key = append([]byte{}, buf[:32]...), append([]byte{}, buf[96:128]...)
	var s1hat [dL][256]int64
	for j := 0; j < dL; j++ {
		k.s1[j] = refPolyUniformEta(rhoPrime, uint16(j))
		s1hat[j] = refNTT(&k.s1[j])
	}
	for i := 0; i < dK; i++ {
		k.s2[i] = refPolyUniformEta(rhoPrime, uint16(dL+i))
	}
	k.pk = append([]byte{}, k.rho...)
	for i := 0; i < dK; i++ {
		var that [256]int64
		for j := 0; j < dL; j++ {
			k.ahat[i][j] = refPolyUniform(k.rho, uint16(i<<8+j))
			for c := 0; c < 256; c++ {
				that[c] = (that[c] + k.ahat[i][j][c]*s1hat[j][c]) % rq
			}
		}
		t := refINTT(&that)
		t1 := make([]int64, 256)
		for c := 0; c < 256; c++ {
			v := rmod(t[c] + k.s2[i][c])
			r0 := v % 8192
			if r0 > 4096 {
				r0 -= 8192
			}
			t1[c], k.t0[i][c] = (v-r0)/8192, r0
		}
		k.pk = append(k.pk, packBits(t1, 10)...)
	}
	k.tr = refShake(false, k.pk, 32)
	return k
}

const (
	rGamma1 = 1 << 19
	rGamma2 = (rq - 1) / 32
	rBeta   = 120
	rOmega  = 75
	rTau    = 60
)

func centred(x int64) int64 { // representative in (−q/2, q/2]
	x = rmod(x)
	if x > (rq-1)/2 {
		x -= rq
	}
	return x
}

// Decompose_q(r, 2γ2) of the specification
func refDecompose(r int64) (r1, r0 int64) {
	r = rmod(r)
	r0 = r % (2 * rGamma2)
	if r0 > rGamma2 {
		r0 -= 2 * rGamma2
	}
	if r-r0 == rq-1 {
		return 0, r0 - 1
	}
	return (r - r0) / (2 * rGamma2), r0
}

// c·s in Z[X]/(X^256+1) for a challenge with coefficients in {−1, 0, 1}
func refMulC(c *[256]int64, s *[256]int64) (out [256]int64) {
	for i := 0; i < 256; i++ {
		if c[i] == 0 {
			continue
		}
		for j := 0; j < 256; j++ {
			if i+j < 256 {
				out[i+j] += c[i] * s[j]
			} else {
				out[i+j-256] -= c[i] * s[j]
			}
		}
	}
	return
}

func refSampleInBall(seed []byte) (c [256]int64) {
	buf := refShake(false, seed, 8+8*136)
	var signs uint64
	for i := 0; i < 8; i++ {
		signs |= uint64(buf[i]) << (8 * uint(i))
	}
	pos := 8
	for i := 256 - rTau; i < 256; i++ {
		var j int
		for {
			j = int(buf[pos])
			pos++
			if j <= i {
				break
			}
		}
		c[i] = c[j]
		c[j] = 1 - 2*int64(signs&1)
		signs >>= 1
	}
	return
}

func refExpandMask(rhoPrime []byte, nonce uint16) (y [256]int64) {
	buf := refShake(false, append(append([]byte{}, rhoPrime...), byte(nonce), byte(nonce>>8)), 640)
	for i := 0; i < 256; i++ {
		bit := 20 * i
		var v int64
		for b := 0; b < 20; b++ {
			v |= int64(buf[(bit+b)/8]>>uint((bit+b)%8)&1) << uint(b)
		}
		y[i] = rGamma1 - v
	}
	return
}

// refSign: the deterministic signature of the specification; attempts = number of rejection-loop iterations;
// formulationsDiffer counts iterations on which the two published formulations of the low-bits test would decide differently
func refSign(k *refKey, msg []byte) (sig []byte, attempts int, formulationsDiffer int) {
	mu := refShake(false, append(append([]byte{}, k.tr...), msg...), 64)
	rhoPrime := refShake(false, append(append([]byte{}, k.key...), mu...), 64)
	for kappa := 0; kappa < 2000; kappa++ {
		attempts++
		var y, yhat [dL][256]int64
		for j := 0; j < dL; j++ {
			y[j] = refExpandMask(rhoPrime, uint16(dL*kappa+j))
			yhat[j] = refNTT(&y[j])
		}
		var w [dK][256]int64
		var w1 [dK][256]int64
		var w1flat []int64
		for i := 0; i < dK; i++ {
			var what [256]int64
			for j := 0; j < dL; j++ {
				for c := 0; c < 256; c++ {
					what[c] = (what[c] + k.ahat[i][j][c]*yhat[j][c]) % rq
				}
			}
			w[i] = refINTT(&what)
			for c := 0; c < 256; c++ {
				w1[i][c], _ = refDecompose(w[i][c])
				w1flat = append(w1flat, w1[i][c])
			}
		}
		ctil := refShake(false, append(append([]byte{}, mu...), packBits(w1flat, 4)...), 32)
		c := refSampleInBall(ctil)
		// z = y + c·s1
		var z [dL][256]int64
		ok := true
		for j := 0; j < dL && ok; j++ {
			cs1 := refMulC(&c, &k.s1[j])
			for i := 0; i < 256; i++ {
				z[j][i] = y[j][i] + cs1[i]
				if z[j][i] >= rGamma1-rBeta || z[j][i] <= -(rGamma1-rBeta) {
					ok = false
				}
			}
		}
		if !ok {
			continue
		}
		// low bits: ‖LowBits(w − c·s2)‖ < γ2 − β (specification) / ‖w0 − c·s2‖ < γ2 − β (reference code)
		var r [dK][256]int64
		okSpec, okCode := true, true
		for i := 0; i < dK; i++ {
			cs2 := refMulC(&c, &k.s2[i])
			for j := 0; j < 256; j++ {
				r[i][j] = rmod(w[i][j] - cs2[j])
				_, r0 := refDecompose(r[i][j])
				if r0 >= rGamma2-rBeta || r0 <= -(rGamma2-rBeta) {
					okSpec = false
				}
				_, w0 := refDecompose(w[i][j])
				d := centred(w0 - cs2[j])
				if d >= rGamma2-rBeta || d <= -(rGamma2-rBeta) {
					okCode = false
				}
			}
		}
		if okSpec != okCode {
			formulationsDiffer++
		}
		if !okCode {
			continue
		}
		// c·t0 and the hints
		var hints [dK][]int64
		total := 0
		for i := 0; i < dK && ok; i++ {
			ct0 := refMulC(&c, &k.t0[i])
			for j := 0; j < 256; j++ {
				if ct0[j] >= rGamma2 || ct0[j] <= -rGamma2 {
					ok = false
					break
				}
				h1, _ := refDecompose(r[i][j] + ct0[j])
				if h1 != w1[i][j] {
					hints[i] = append(hints[i], int64(j))
					total++
				}
			}
		}
		if !ok || total > rOmega {
			continue
		}
		sig = append([]byte{}, ctil...)
		for j := 0; j < dL; j++ {
			v := make([]int64, 256)
			for i := range v {
				v[i] = rGamma1 - z[j][i]
			}
			sig = append(sig, packBits(v, 20)...)
		}
		hb := make([]byte, rOmega+dK)
		n := 0
		for i := 0; i < dK; i++ {
			for _, p := range hints[i] {
				hb[n] = byte(p)
				n++
			}
			hb[rOmega+i] = byte(n)
		}
		return append(sig, hb...), attempts, formulationsDiffer
	}
	return nil, attempts, formulationsDiffer
}
