package main

import (
	"bufio"
	"fmt"
	"os"
)

func main() {
	if len(os.Args) < 2 {
		fmt.Fprintln(os.Stderr, "usage: harness run <ops> | gen <prop> <tier> <seed> <outdir>")
		os.Exit(2)
	}
	switch os.Args[1] {
	case "run":
		runOps(os.Args[2], os.Stdout)
	case "scan":
		scanMain(os.Args[2:])
	case "wotsscan":
		wotsScanMain(os.Args[2:])
	case "challengescan":
		challengeScanMain(os.Args[2:])
	case "gen":
		genMain(os.Args[2:])
	case "cold":
		coldMain(os.Args[2:])
	default:
		fmt.Fprintln(os.Stderr, "unknown mode")
		os.Exit(2)
	}
}

func runOps(path string, w *os.File) []string {
	f, err := os.Open(path)
	if err != nil {
		panic(err)
	}
	defer f.Close()
	st := newState()
	sc := bufio.NewScanner(f)
	sc.Buffer(make([]byte, 1<<20), 1<<28)
	out := bufio.NewWriter(w)
	defer out.Flush()
	for sc.Scan() {
		line := sc.Text()
		if len(line) > 0 && line[0] == '#' {
			fmt.Fprintln(out, line)
			continue
		}
		fmt.Fprintln(out, execOp(st, line))
	}
	for _, m := range st.mutations {
		fmt.Fprintln(out, "INPUT-MUTATED "+m)
	}
	return st.mutations
}
