package main

import (
	"fmt"
	"strconv"
	"strings"

	"github.com/theQRL/go-qrllib/common"
	"github.com/theQRL/go-qrllib/xmss"
)

// labelRun drives a real XMSS key and renders its BDS state with every 32-byte node value replaced by
// the (height.index) label of the tree node it equals. The node table is computed here, independently
// of the traversal: all leaves via the hooked leaf function, inner nodes via the hooked hashH.
type labelRun struct {
	x     *xmss.XMSS
	h     uint8
	names map[string]string
	idx   uint32
}

var labelSeed = [48]byte{7, 1, 2, 3, 4, 5, 6, 7, 8, 9}

func newLabelRun(h uint8) *labelRun {
	hf := xmss.SHA2_256
	x := xmss.NewXMSSFromSeed(labelSeed, h, hf, common.SHA256_2X)
	sk := x.GetSK()
	skSeed, pubSeed := sk[4:36], sk[68:100]
	names := map[string]string{string(make([]byte, 32)): "0"}
	level := make([][]byte, 1<<h)
	for i := range level {
		level[i] = xmss.VerifLeaf(hf, uint32(h), skSeed, pubSeed, uint32(i))
		names[string(level[i])] = "0." + strconv.Itoa(i)
	}
	for ht := uint32(0); ht < uint32(h); ht++ {
		next := make([][]byte, len(level)/2)
		for i := range next {
			next[i] = xmss.VerifHashH(hf, level[2*i], level[2*i+1], pubSeed, ht, uint32(i))
			names[string(next[i])] = fmt.Sprintf("%d.%d", ht+1, i)
		}
		level = next
	}
	return &labelRun{x: x, h: h, names: names}
}

func (l *labelRun) label(b []byte) string {
	if n, ok := l.names[string(b)]; ok {
		return n
	}
	return "BAD"
}

func (l *labelRun) labels(b []byte) string {
	var out []string
	for i := 0; i+32 <= len(b); i += 32 {
		out = append(out, l.label(b[i:i+32]))
	}
	return "[" + strings.Join(out, ", ") + "]"
}

func (l *labelRun) step() {
	// one traversal step = what signing index idx performs after emitting the signature
	if _, err := l.x.Sign([]byte{1}); err != nil {
		panic(err)
	}
	l.idx++
}

func (l *labelRun) show() string {
	s := xmss.VerifSnapshotOf(l.x)
	var th []string
	for _, t := range s.TreeHash {
		th = append(th, fmt.Sprintf("%d/%d/%d/%d/%s", t.H, t.NextIdx, t.StackUsage, t.Completed, l.label(t.Node)))
	}
	lv := make([]string, s.StackOffset)
	for i := range lv {
		lv[i] = strconv.Itoa(int(s.StackLevels[i]))
	}
	return fmt.Sprintf("off=%d lv=[%s] stack=%s auth=%s keep=%s th=[%s] retain=%s", s.StackOffset, strings.Join(lv, ", "),
		l.labels(s.Stack[:s.StackOffset*32]), l.labels(s.Auth), l.labels(s.Keep), strings.Join(th, ", "), l.labels(s.Retain))
}
