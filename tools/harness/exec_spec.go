package main

import (
	"fmt"
	"strings"
)

// xs.* operations: on the implementation side they are answered by the library's own (BDS-based) key
// object; on the model side by the full-Merkle-tree reference of Spec/XmssRef.lean.
func execSpecOp(st *state, f []string) (string, bool) {
	switch {
	case f[0] == "xs.pk" && len(f) == 4:
		x := newKey(unhex(f[1]), int(atoi(f[2])), int(atoi(f[3])))
		pk := x.GetPK()
		return "ok " + hx(pk[:]), true
	case f[0] == "xs.sign" && len(f) == 6:
		key := strings.Join(f[1:4], " ")
		x := st.specKeys[key]
		idx := uint32(atoi(f[4]))
		if x == nil || x.GetIndex() > idx {
			x = newKey(unhex(f[1]), int(atoi(f[2])), int(atoi(f[3])))
			if st.specKeys == nil {
				st.specKeys = map[string]*xmssKey{}
			}
			st.specKeys[key] = x
		}
		x.SetIndex(idx)
		sig, err := x.Sign(unhex(f[5]))
		if err != nil {
			return "fault:error " + err.Error(), true
		}
		return fmt.Sprintf("ok %s", hx(sig)), true
	}
	return "", false
}
