package main

func genMain(args []string) {}
