package main

import (
	"bufio"
	"encoding/json"
	"fmt"
	"math/rand"
	"os"
	"os/exec"
	"path/filepath"
	"runtime/debug"
	"sort"
	"strconv"
	"strings"
	"sync"
	"time"
)

// gen collects the operation lines of one correspondence run, executes each on the real library as it
// is generated, and records direct evaluations of the property's own predicate on the implementation.
type gen struct {
	prop, tier string
	seed       int64
	rng        *rand.Rand
	st         *state
	ops, impl  []string
	counts     map[string]int // distribution: op kinds, outcome classes, branch counters
	distinct   map[string]bool
	samples    []string
	findings   []finding
	predEvals  int
	thorough   bool
	lastLine   string
	out        string // output directory (for incremental findings)
	t0         time.Time
	findMu     sync.Mutex
	quiet      bool // execute ops on the implementation only (not sent to the model): used where the Lean run would be too slow
}

type finding struct {
	Property string   `json:"property"`
	Kind     string   `json:"kind"`   // stable identifier of what failed (used by known_findings.json)
	Detail   string   `json:"detail"` // human-readable
	Ops      []string `json:"ops"`    // protocol lines that replay it on the implementation
}

func (g *gen) bytes(n int) []byte {
	b := make([]byte, n)
	g.rng.Read(b)
	return b
}

// op emits a protocol line (diffed against the Lean model) and returns the implementation's answer.
func (g *gen) op(format string, a ...interface{}) string {
	line := fmt.Sprintf(format, a...)
	out := execOp(g.st, line)
	if g.quiet {
		g.counts["implonly-ops"]++
		g.lastLine = line
		return out
	}
	g.ops = append(g.ops, line)
	g.impl = append(g.impl, out)
	kind := line
	if i := strings.IndexByte(line, ' '); i > 0 {
		kind = line[:i]
	}
	g.counts["op:"+kind]++
	cls := out
	if i := strings.IndexByte(out, ' '); i > 0 {
		cls = out[:i]
	}
	g.counts["outcome:"+cls]++
	g.distinct[line] = true
	if len(g.samples) < 6 && g.rng.Intn(20) == 0 {
		g.samples = append(g.samples, trunc(line, 160)+" => "+trunc(out, 120))
	}
	return out
}

func (g *gen) note(format string, a ...interface{}) {
	g.ops = append(g.ops, "# "+fmt.Sprintf(format, a...))
	g.impl = append(g.impl, "# "+fmt.Sprintf(format, a...))
}

func trunc(s string, n int) string {
	if len(s) > n {
		return s[:n] + "…"
	}
	return s
}

// check evaluates one instance of the property's predicate on the implementation.
func (g *gen) check(ok bool, kind, detail string, ops ...string) {
	g.predEvals++
	g.counts["pred:"+kind]++
	if !ok {
		g.counts["predfail:"+kind]++
		if len(g.findings) < 50 {
			f := finding{g.prop, kind, detail, ops}
			g.findings = append(g.findings, f)
			// also append it to <outdir>/findings.partial.jsonl at once: if the run is later cut off by the time limit
			// (a change that makes the library very slow), the failing inputs found so far are not lost
			if g.out != "" {
				if fh, err := os.OpenFile(filepath.Join(g.out, "findings.partial.jsonl"), os.O_APPEND|os.O_CREATE|os.O_WRONLY, 0o644); err == nil {
					b, _ := json.Marshal(f)
					fh.Write(append(b, '\n'))
					fh.Close()
				}
			}
		}
	}
}

// stopEarly: failing inputs have already been found and the run has become slow (a change that makes the library
// very slow): the remaining phases are skipped rather than run into the time limit.
func (g *gen) stopEarly() bool {
	if len(g.findings) > 0 && time.Since(g.t0) > 90*time.Second {
		g.counts["stopped-early"] = 1
		return true
	}
	return false
}

func (g *gen) lastOps(n int) []string {
	if len(g.ops) < n {
		n = len(g.ops)
	}
	return append([]string{}, g.ops[len(g.ops)-n:]...)
}

func okval(out string) (string, bool) {
	if strings.HasPrefix(out, "ok ") {
		return out[3:], true
	}
	if out == "ok" {
		return "", true
	}
	return "", false
}

func field(out, key string) string {
	for _, f := range strings.Split(out, " ") {
		if strings.HasPrefix(f, key+"=") {
			return f[len(key)+1:]
		}
	}
	return ""
}

var generators = map[string]func(g *gen){}

func genMain(args []string) {
	if len(args) < 4 {
		fmt.Fprintln(os.Stderr, "usage: harness gen <prop> <tier> <seed> <outdir> [search]")
		os.Exit(2)
	}
	prop, tier := args[0], args[1]
	seed, _ := strconv.ParseInt(args[2], 10, 64)
	out := args[3]
	f, ok := generators[prop]
	if !ok {
		fmt.Fprintln(os.Stderr, "no generator for", prop)
		os.Exit(2)
	}
	g := &gen{prop: prop, tier: tier, seed: seed, rng: rand.New(rand.NewSource(seed*7919 + int64(len(prop)))), st: newState(),
		counts: map[string]int{}, distinct: map[string]bool{}, thorough: tier == "thorough" || tier == "search", out: out, t0: time.Now()}
	os.MkdirAll(out, 0o755)
	os.Remove(filepath.Join(out, "findings.partial.jsonl"))
	func() {
		// a panic inside a generator is a defect of this harness, not of the library (library panics are caught per
		// operation in execOp); make that unmistakable in the message the check prints
		defer func() {
			if r := recover(); r != nil {
				stack := string(debug.Stack())
				if wp, ok := r.(*workerPanic); ok { // raised in a worker goroutine of parallel(): use its stack
					r, stack = wp.val, wp.stack
				}
				// where did it start? the frame just below the runtime's panic frames
				origin := ""
				lines := strings.Split(stack, "\n")
				for i, l := range lines {
					if strings.HasPrefix(l, "panic(") {
						for _, m := range lines[i+1:] {
							if !strings.HasPrefix(m, "\t") && !strings.HasPrefix(m, "runtime.") && m != "" {
								origin = m
								break
							}
						}
						break
					}
				}
				if strings.HasPrefix(origin, "github.com/theQRL/go-qrllib/") {
					// a direct (unguarded) call into the library panicked: that is an observation about the library
					// on inputs a generator considers valid, not a defect of the harness
					g.check(false, "library-panic", fmt.Sprintf("the library panicked on a call the generator makes with valid inputs: %v (in %s)", r, trunc(origin, 120)), g.lastOps(3)...)
					g.counts["generator-cut-short-by-library-panic"] = 1
					return
				}
				fmt.Fprintf(os.Stderr, "HARNESS-INTERNAL-ERROR in generator %s (seed %d): %v\n%s\n", prop, seed, r, stack)
				os.Exit(3)
			}
		}()
		f(g)
	}()
	for _, ph := range []struct {
		name string
		f    func()
	}{{"replay of stateless operations on 12 goroutines", g.concurrentReplay}, {"key objects of different seeds on their own goroutines", g.concurrentKeys}} {
		done := make(chan struct{})
		go func() { defer close(done); ph.f() }()
		select {
		case <-done:
		case <-time.After(240 * time.Second):
			// the calls never came back (a state shared between goroutines can also make a loop spin): report and go on
			g.findMu.Lock()
			g.check(false, "concurrent-call-hangs", "concurrent phase ("+ph.name+") did not finish within 240 s: calls that return at once when made one after the other do not return when made at the same time")
			g.findMu.Unlock()
		}
	}
	for _, c := range g.st.changedLater() {
		g.check(false, "result-changed-later", "bytes the library returned from one call were changed by a later call (the caller's copy of an earlier result is no longer what was returned): "+c, c)
	}
	for _, m := range g.st.mutations {
		g.check(false, "input-mutated", "a call modified one of its input buffers: "+trunc(m, 200), m)
	}
	os.MkdirAll(out, 0o755)
	writeLines(filepath.Join(out, "ops.txt"), g.ops)
	writeLines(filepath.Join(out, "impl.txt"), g.impl)
	keys := make([]string, 0, len(g.counts))
	for k := range g.counts {
		keys = append(keys, k)
	}
	sort.Strings(keys)
	dist := map[string]int{}
	for _, k := range keys {
		dist[k] = g.counts[k]
	}
	stats := map[string]interface{}{
		"ops": len(g.ops), "distinct_ops": len(g.distinct), "predicate_evaluations": g.predEvals,
		"distribution": dist, "samples": g.samples, "findings": append([]finding{}, g.findings...),
	}
	b, _ := json.MarshalIndent(stats, "", " ")
	os.WriteFile(filepath.Join(out, "stats.json"), b, 0o644)
}

func writeLines(path string, lines []string) {
	f, err := os.Create(path)
	if err != nil {
		panic(err)
	}
	w := bufio.NewWriterSize(f, 1<<20)
	for _, l := range lines {
		w.WriteString(l)
		w.WriteByte('\n')
	}
	w.Flush()
	f.Close()
}

func newRng(seed int64) *rand.Rand { return rand.New(rand.NewSource(seed)) }

// statelessOp: operations whose result is a function of the line alone (no key object is created or advanced)
func statelessOp(line string) bool {
	k := line
	if i := strings.IndexByte(line, ' '); i > 0 {
		k = line[:i]
	}
	switch {
	case strings.HasPrefix(k, "m."), strings.HasPrefix(k, "d."), strings.HasPrefix(k, "a."), strings.HasPrefix(k, "js."), strings.HasPrefix(k, "h."):
		return true
	case k == "x.verify", k == "x.wparams":
		return true
	case strings.HasPrefix(k, "dl."):
		return k != "dl.malsign" && k != "dl.exits" && !strings.HasPrefix(k, "dl.new") && k != "dl.filled"
	}
	return false
}

// concurrentReplay: a sample of the stateless operations of this run is executed again on 12 goroutines at once (each in
// its own order); every result must be the one obtained sequentially. A scratch buffer or table shared between calls —
// in a packer, a hash wrapper, a codec — gives itself away here, whatever property the run is about.
func (g *gen) concurrentReplay() {
	type rec struct{ line, want string }
	byKind := map[string][]rec{}
	var kinds []string
	seen := map[string]bool{}
	for i, l := range g.ops {
		if i >= len(g.impl) || seen[l] || !statelessOp(l) || len(l) > 40000 {
			continue
		}
		seen[l] = true
		k := l
		if j := strings.IndexByte(l, ' '); j > 0 {
			k = l[:j]
		}
		if _, ok := byKind[k]; !ok {
			kinds = append(kinds, k)
		}
		byKind[k] = append(byKind[k], rec{l, g.impl[i]})
	}
	var sample []rec
	for _, k := range kinds { // up to 24 of every kind of operation, spread over the run
		rs := byKind[k]
		step := 1
		if len(rs) > 24 {
			step = len(rs) / 24
		}
		for i, n := 0, 0; i < len(rs) && n < 24; i, n = i+step, n+1 {
			sample = append(sample, rs[i])
		}
	}
	if len(sample) > 400 {
		sample = sample[:400]
	}
	if len(sample) == 0 {
		return
	}
	var mu sync.Mutex
	var wg sync.WaitGroup
	start := make(chan struct{})
	bad := map[string]string{}
	deadline := time.Now().Add(2500 * time.Millisecond)
	for t := 0; t < 12; t++ {
		wg.Add(1)
		order := rand.New(rand.NewSource(g.seed*131 + int64(t))).Perm(len(sample))
		go func(order []int) {
			defer wg.Done()
			<-start
			st := newState()
			st.dkeys = g.st.dkeys // existing key objects, read only
			for round := 0; round < 60 && (round < 2 || time.Now().Before(deadline)); round++ {
				for _, i := range order {
					got := execOp(st, sample[i].line)
					if got != sample[i].want {
						mu.Lock()
						bad[sample[i].line] = got
						mu.Unlock()
					}
				}
			}
		}(order)
	}
	close(start)
	wg.Wait()
	g.counts["concurrent-replay-ops"] = len(sample)
	n := 0
	for l, got := range bad {
		if n < 3 {
			g.check(false, "concurrent-result-differs", "a stateless operation returns a different result when 12 goroutines run such operations at once: "+trunc(l, 80)+" => "+trunc(got, 60), l)
		}
		n++
	}
	if n == 0 {
		g.predEvals += len(sample)
		g.counts["pred:concurrent-result-differs"] += len(sample)
	}
}

// concurrentKeys: key objects of DIFFERENT seeds, each used by its own goroutine (creation, forward jumps, signatures,
// a long message), all at once; every goroutine must obtain what its script gives when it runs alone. Scratch space
// shared between objects — in the signer, the traversal, the hash wrapper — shows here and nowhere in a sequential run.
func (g *gen) concurrentKeys() {
	var scripts [][]string
	big := strings.Repeat("a7", 1<<20+17) // a message above one MiB
	switch g.prop {
	case "C01", "C02", "C06", "C08", "C15":
		for k := 0; k < 8; k++ {
			seed := make([]byte, 48)
			seed[0], seed[1] = byte(k+1), byte(g.seed)
			h := []int{4, 6, 4, 8}[k%4]
			id := fmt.Sprintf("ck%d", k)
			sc := []string{fmt.Sprintf("x.new %s %s %d %d 0", id, hx(seed), h, k%3), "x.sign " + id + " 00", fmt.Sprintf("x.setidx %s %d", id, 5+k),
				"x.sign " + id + " -", "x.sign " + id + " 0102", fmt.Sprintf("x.setidx %s %d", id, (1<<uint(h))-3), "x.sign " + id + " ff", "x.snap " + id}
			if g.prop == "C15" && k < 3 {
				sc = append(sc[:2], append([]string{"x.sign " + id + " " + big}, sc[2:]...)...)
			}
			scripts = append(scripts, sc)
		}
	}
	switch g.prop {
	case "C03", "C07", "C09", "C13", "C15":
		for k := 0; k < 6; k++ {
			seed := make([]byte, 48)
			seed[0], seed[1] = byte(k+1), byte(g.seed)
			id := fmt.Sprintf("cd%d", k)
			scripts = append(scripts, []string{fmt.Sprintf("dl.new %s %s", id, hx(seed)), "dl.sign " + id + " 00", "dl.sign " + id + " -", "dl.seal " + id + " 0a0b", "dl.sign " + id + " " + hx(seed)})
		}
	}
	if len(scripts) == 0 {
		return
	}
	want := make([][]string, len(scripts))
	for i, sc := range scripts {
		st := newState()
		for _, l := range sc {
			want[i] = append(want[i], execOp(st, l))
		}
	}
	var mu sync.Mutex
	var wg sync.WaitGroup
	for round := 0; round < 3; round++ {
		start := make(chan struct{})
		for i, sc := range scripts {
			wg.Add(1)
			go func(i int, sc []string) {
				defer wg.Done()
				<-start
				st := newState()
				for j, l := range sc {
					got := execOp(st, l)
					if got != want[i][j] {
						mu.Lock()
						g.check(false, "concurrent-keys-differ", "a key object used by one goroutine gives a different result when objects of other seeds are used by other goroutines at the same time: "+trunc(l, 60)+" => "+trunc(got, 50), sc[:j+1]...)
						mu.Unlock()
						return
					}
				}
			}(i, sc)
		}
		close(start)
		wg.Wait()
	}
	g.predEvals += len(scripts)
	g.counts["pred:concurrent-keys-differ"] += len(scripts)
}

// freshProcess runs protocol lines in a new process of this harness and returns its answers
func freshProcess(script []string) []string {
	exe, err := os.Executable()
	if err != nil {
		return nil
	}
	dir, _ := os.MkdirTemp("", "fresh")
	defer os.RemoveAll(dir)
	opsFile := filepath.Join(dir, "ops.txt")
	writeLines(opsFile, script)
	outb, _ := exec.Command(exe, "run", opsFile).Output()
	return strings.Split(strings.TrimRight(string(outb), "\n"), "\n")
}
