package main

import (
	"bufio"
	"encoding/json"
	"fmt"
	"math/rand"
	"os"
	"os/exec"
	"path/filepath"
	"runtime/debug"
	"sort"
	"strconv"
	"strings"
	"sync"
	"time"
)

// gen collects the operation lines of one correspondence run, executes each on the real library as it
// is generated, and records direct evaluations of the property's own predicate on the implementation.
type gen struct {
	prop, tier string
	seed       int64
	rng        *rand.Rand
	st         *state
	ops, impl  []string
	counts     map[string]int // distribution: op kinds, outcome classes, branch counters
	distinct   map[string]bool
	samples    []string
	findings   []finding
	predEvals  int
	thorough   bool
	lastLine   string
	out        string // output directory (for incremental findings)
	t0         time.Time
	quiet      bool // execute ops on the implementation only (not sent to the model): used where the Lean run would be too slow
}

type finding struct {
	Property string   `json:"property"`
	Kind     string   `json:"kind"`   // stable identifier of what failed (used by known_findings.json)
	Detail   string   `json:"detail"` // human-readable
	Ops      []string `json:"ops"`    // protocol lines that replay it on the implementation
}

func (g *gen) bytes(n int) []byte {
	b := make([]byte, n)
	g.rng.Read(b)
	return b
}

// op emits a protocol line (diffed against the Lean model) and returns the implementation's answer.
func (g *gen) op(format string, a ...interface{}) string {
	line := fmt.Sprintf(format, a...)
	out := execOp(g.st, line)
	if g.quiet {
		g.counts["implonly-ops"]++
		g.lastLine = line
		return out
	}
	g.ops = append(g.ops, line)
	g.impl = append(g.impl, out)
	kind := line
	if i := strings.IndexByte(line, ' '); i > 0 {
		kind = line[:i]
	}
	g.counts["op:"+kind]++
	cls := out
	if i := strings.IndexByte(out, ' '); i > 0 {
		cls = out[:i]
	}
	g.counts["outcome:"+cls]++
	g.distinct[line] = true
	if len(g.samples) < 6 && g.rng.Intn(20) == 0 {
		g.samples = append(g.samples, trunc(line, 160)+" => "+trunc(out, 120))
	}
	return out
}

func (g *gen) note(format string, a ...interface{}) {
	g.ops = append(g.ops, "# "+fmt.Sprintf(format, a...))
	g.impl = append(g.impl, "# "+fmt.Sprintf(format, a...))
}

func trunc(s string, n int) string {
	if len(s) > n {
		return s[:n] + "…"
	}
	return s
}

// check evaluates one instance of the property's predicate on the implementation.
func (g *gen) check(ok bool, kind, detail string, ops ...string) {
	g.predEvals++
	g.counts["pred:"+kind]++
	if !ok {
		g.counts["predfail:"+kind]++
		if len(g.findings) < 50 {
			f := finding{g.prop, kind, detail, ops}
			g.findings = append(g.findings, f)
			// also append it to <outdir>/findings.partial.jsonl at once: if the run is later cut off by the time limit
			// (a change that makes the library very slow), the failing inputs found so far are not lost
			if g.out != "" {
				if fh, err := os.OpenFile(filepath.Join(g.out, "findings.partial.jsonl"), os.O_APPEND|os.O_CREATE|os.O_WRONLY, 0o644); err == nil {
					b, _ := json.Marshal(f)
					fh.Write(append(b, '\n'))
					fh.Close()
				}
			}
		}
	}
}

// stopEarly: failing inputs have already been found and the run has become slow (a change that makes the library
// very slow): the remaining phases are skipped rather than run into the time limit.
func (g *gen) stopEarly() bool {
	if len(g.findings) > 0 && time.Since(g.t0) > 90*time.Second {
		g.counts["stopped-early"] = 1
		return true
	}
	return false
}

func (g *gen) lastOps(n int) []string {
	if len(g.ops) < n {
		n = len(g.ops)
	}
	return append([]string{}, g.ops[len(g.ops)-n:]...)
}

func okval(out string) (string, bool) {
	if strings.HasPrefix(out, "ok ") {
		return out[3:], true
	}
	if out == "ok" {
		return "", true
	}
	return "", false
}

func field(out, key string) string {
	for _, f := range strings.Split(out, " ") {
		if strings.HasPrefix(f, key+"=") {
			return f[len(key)+1:]
		}
	}
	return ""
}

var generators = map[string]func(g *gen){}

func genMain(args []string) {
	if len(args) < 4 {
		fmt.Fprintln(os.Stderr, "usage: harness gen <prop> <tier> <seed> <outdir> [search]")
		os.Exit(2)
	}
	prop, tier := args[0], args[1]
	seed, _ := strconv.ParseInt(args[2], 10, 64)
	out := args[3]
	f, ok := generators[prop]
	if !ok {
		fmt.Fprintln(os.Stderr, "no generator for", prop)
		os.Exit(2)
	}
	g := &gen{prop: prop, tier: tier, seed: seed, rng: rand.New(rand.NewSource(seed*7919 + int64(len(prop)))), st: newState(),
		counts: map[string]int{}, distinct: map[string]bool{}, thorough: tier == "thorough" || tier == "search", out: out, t0: time.Now()}
	os.MkdirAll(out, 0o755)
	os.Remove(filepath.Join(out, "findings.partial.jsonl"))
	func() {
		// a panic inside a generator is a defect of this harness, not of the library (library panics are caught per
		// operation in execOp); make that unmistakable in the message the check prints
		defer func() {
			if r := recover(); r != nil {
				stack := string(debug.Stack())
				if wp, ok := r.(*workerPanic); ok { // raised in a worker goroutine of parallel(): use its stack
					r, stack = wp.val, wp.stack
				}
				// where did it start? the frame just below the runtime's panic frames
				origin := ""
				lines := strings.Split(stack, "\n")
				for i, l := range lines {
					if strings.HasPrefix(l, "panic(") {
						for _, m := range lines[i+1:] {
							if !strings.HasPrefix(m, "\t") && !strings.HasPrefix(m, "runtime.") && m != "" {
								origin = m
								break
							}
						}
						break
					}
				}
				if strings.HasPrefix(origin, "github.com/theQRL/go-qrllib/") {
					// a direct (unguarded) call into the library panicked: that is an observation about the library
					// on inputs a generator considers valid, not a defect of the harness
					g.check(false, "library-panic", fmt.Sprintf("the library panicked on a call the generator makes with valid inputs: %v (in %s)", r, trunc(origin, 120)), g.lastOps(3)...)
					g.counts["generator-cut-short-by-library-panic"] = 1
					return
				}
				fmt.Fprintf(os.Stderr, "HARNESS-INTERNAL-ERROR in generator %s (seed %d): %v\n%s\n", prop, seed, r, stack)
				os.Exit(3)
			}
		}()
		f(g)
	}()
	g.concurrentReplay()
	for _, c := range g.st.changedLater() {
		g.check(false, "result-changed-later", "bytes the library returned from one call were changed by a later call (the caller's copy of an earlier result is no longer what was returned): "+c, c)
	}
	for _, m := range g.st.mutations {
		g.check(false, "input-mutated", "a call modified one of its input buffers: "+trunc(m, 200), m)
	}
	os.MkdirAll(out, 0o755)
	writeLines(filepath.Join(out, "ops.txt"), g.ops)
	writeLines(filepath.Join(out, "impl.txt"), g.impl)
	keys := make([]string, 0, len(g.counts))
	for k := range g.counts {
		keys = append(keys, k)
	}
	sort.Strings(keys)
	dist := map[string]int{}
	for _, k := range keys {
		dist[k] = g.counts[k]
	}
	stats := map[string]interface{}{
		"ops": len(g.ops), "distinct_ops": len(g.distinct), "predicate_evaluations": g.predEvals,
		"distribution": dist, "samples": g.samples, "findings": append([]finding{}, g.findings...),
	}
	b, _ := json.MarshalIndent(stats, "", " ")
	os.WriteFile(filepath.Join(out, "stats.json"), b, 0o644)
}

func writeLines(path string, lines []string) {
	f, err := os.Create(path)
	if err != nil {
		panic(err)
	}
	w := bufio.NewWriterSize(f, 1<<20)
	for _, l := range lines {
		w.WriteString(l)
		w.WriteByte('\n')
	}
	w.Flush()
	f.Close()
}

func newRng(seed int64) *rand.Rand { return rand.New(rand.NewSource(seed)) }

// statelessOp: operations whose result is a function of the line alone (no key object is created or advanced)
func statelessOp(line string) bool {
	k := line
	if i := strings.IndexByte(line, ' '); i > 0 {
		k = line[:i]
	}
	switch {
	case strings.HasPrefix(k, "m."), strings.HasPrefix(k, "d."), strings.HasPrefix(k, "a."), strings.HasPrefix(k, "js."), strings.HasPrefix(k, "h."):
		return true
	case k == "x.verify", k == "x.wparams":
		return true
	case strings.HasPrefix(k, "dl."):
		return k != "dl.malsign" && k != "dl.exits" && !strings.HasPrefix(k, "dl.new") && k != "dl.filled"
	}
	return false
}

// concurrentReplay: a sample of the stateless operations of this run is executed again on 12 goroutines at once (each in
// its own order); every result must be the one obtained sequentially. A scratch buffer or table shared between calls —
// in a packer, a hash wrapper, a codec — gives itself away here, whatever property the run is about.
func (g *gen) concurrentReplay() {
	type rec struct{ line, want string }
	var sample []rec
	seen := map[string]bool{}
	var cost int
	for i, l := range g.ops {
		if i >= len(g.impl) || seen[l] || !statelessOp(l) || len(l) > 40000 {
			continue
		}
		seen[l] = true
		sample = append(sample, rec{l, g.impl[i]})
	}
	if len(sample) == 0 {
		return
	}
	// at most 160 of them, spread over the run
	if len(sample) > 160 {
		step := len(sample) / 160
		var s2 []rec
		for i := 0; i < len(sample) && len(s2) < 160; i += step {
			s2 = append(s2, sample[i])
		}
		sample = s2
	}
	_ = cost
	var mu sync.Mutex
	var wg sync.WaitGroup
	start := make(chan struct{})
	bad := map[string]string{}
	for t := 0; t < 12; t++ {
		wg.Add(1)
		order := rand.New(rand.NewSource(g.seed*131 + int64(t))).Perm(len(sample))
		go func(order []int) {
			defer wg.Done()
			<-start
			st := newState()
			st.dkeys = g.st.dkeys // existing key objects, read only
			for round := 0; round < 2; round++ {
				for _, i := range order {
					got := execOp(st, sample[i].line)
					if got != sample[i].want {
						mu.Lock()
						bad[sample[i].line] = got
						mu.Unlock()
					}
				}
			}
		}(order)
	}
	close(start)
	wg.Wait()
	g.counts["concurrent-replay-ops"] = len(sample)
	n := 0
	for l, got := range bad {
		if n < 3 {
			g.check(false, "concurrent-result-differs", "a stateless operation returns a different result when 12 goroutines run such operations at once: "+trunc(l, 80)+" => "+trunc(got, 60), l)
		}
		n++
	}
	if n == 0 {
		g.predEvals += len(sample)
		g.counts["pred:concurrent-result-differs"] += len(sample)
	}
}

// freshProcess runs protocol lines in a new process of this harness and returns its answers
func freshProcess(script []string) []string {
	exe, err := os.Executable()
	if err != nil {
		return nil
	}
	dir, _ := os.MkdirTemp("", "fresh")
	defer os.RemoveAll(dir)
	opsFile := filepath.Join(dir, "ops.txt")
	writeLines(opsFile, script)
	outb, _ := exec.Command(exe, "run", opsFile).Output()
	return strings.Split(strings.TrimRight(string(outb), "\n"), "\n")
}
