package main

import (
	"encoding/binary"
	"fmt"
	"os"
	"sort"
	"strconv"
	"strings"
	"sync"

	"github.com/theQRL/go-qrllib/dilithium"
)

const (
	gamma1MinusBeta = (1 << 19) - 120
	gamma2          = (8380417 - 1) / 32
	gamma2MinusBeta = gamma2 - 120
)

// kindsOf classifies one traced signing run by the boundary conditions it meets.
func kindsOf(tr []dilithium.VerifAttempt) []string {
	var ks []string
	for i, a := range tr {
		last := i == len(tr)-1
		switch {
		case a.Exit == 1 && a.MaxZ == gamma1MinusBeta:
			ks = append(ks, "z-reject-edge")
		case a.Exit == 2 && a.MaxW0 == gamma2MinusBeta:
			ks = append(ks, "w0-reject-edge")
		case a.Exit == 3 && a.MaxCt0 == gamma2:
			ks = append(ks, "ct0-reject-edge")
		case a.Exit == 4 && a.Hints == 76:
			ks = append(ks, "hint-reject-edge")
		}
		if a.Exit == 4 {
			ks = append(ks, "hint-reject")
		}
		if a.Exit == 3 {
			ks = append(ks, "ct0-reject")
		}
		if last && a.Exit == 0 {
			if a.MaxZ == gamma1MinusBeta-1 {
				ks = append(ks, "z-accept-edge")
			}
			if a.MaxW0 == gamma2MinusBeta-1 {
				ks = append(ks, "w0-accept-edge")
			}
			if a.MaxCt0 == gamma2-1 {
				ks = append(ks, "ct0-accept-edge")
			}
			if a.Hints == 75 {
				ks = append(ks, "hint-75")
			}
			if a.Hints == 74 {
				ks = append(ks, "hint-74")
			}
			if a.CornerPos {
				ks = append(ks, "corner-pos")
			}
			if a.CornerNegZero {
				ks = append(ks, "corner-neg-zero")
			}
			if a.CornerNegNonZero {
				ks = append(ks, "corner-neg-nonzero")
			}
			if a.EmptyHintRow {
				ks = append(ks, "empty-hint-row")
			}
		}
	}
	if len(tr) >= 37 {
		ks = append(ks, "nonce-ge-256")
	}
	if len(tr) >= 15 {
		ks = append(ks, "many-attempts")
	}
	for _, th := range []int{30, 40, 45, 50, 55, 60, 70} {
		if len(tr) >= th {
			ks = append(ks, fmt.Sprintf("attempts-ge-%d", th))
		}
	}
	return ks
}

// scanMain: harness scan <n> <perKind> — scan messages LE64(0..n) under the zero-seed key; print corpus lines.
func scanMain(args []string) {
	n, _ := strconv.Atoi(args[0])
	per, _ := strconv.Atoi(args[1])
	only := ""
	if len(args) > 2 {
		only = args[2] // keep only kinds with this prefix (long scans)
	}
	var seed [48]byte
	d, _ := dilithium.NewDilithiumFromSeed(seed)
	sk := d.GetSK()
	found := map[string][]uint64{}
	var mu sync.Mutex
	parallel(n, func(i int) {
		var m [8]byte
		binary.LittleEndian.PutUint64(m[:], uint64(i))
		tr := dilithium.VerifSignTrace(m[:], &sk)
		ks := kindsOf(tr)
		if only != "" {
			var f []string
			for _, k := range ks {
				if strings.HasPrefix(k, only) {
					f = append(f, k)
				}
			}
			ks = f
		}
		if len(ks) == 0 {
			return
		}
		mu.Lock()
		for _, k := range ks {
			found[k] = append(found[k], uint64(i))
		}
		mu.Unlock()
	})
	var kinds []string
	for k := range found {
		kinds = append(kinds, k)
	}
	sort.Strings(kinds)
	for _, k := range kinds {
		v := found[k]
		sort.Slice(v, func(a, b int) bool { return v[a] < v[b] })
		fmt.Fprintf(os.Stderr, "%-20s %d hits\n", k, len(v))
		for i := 0; i < len(v) && i < per; i++ {
			var m [8]byte
			binary.LittleEndian.PutUint64(m[:], v[i])
			fmt.Printf("%s %s\n", k, hx(m[:]))
		}
	}
}
