package main

// An independent reference of QRL-XMSS with no traversal state: all 2^h leaves, the whole Merkle tree level by level,
// authentication paths read off the tree — written from the scheme's definition (hash calls, address words, WOTS
// chains, L-tree), with the standard library's hash functions only. Like ref_dil.go it is a SEARCH helper: it lets the
// C06 run compare thousands of signatures byte for byte (the Lean reference model is too slow for that); every
// difference is reported with the seed, index and message, and can be replayed on the model.

import (
	"crypto/sha256"
	"encoding/binary"

	"golang.org/x/crypto/sha3"
)

type rxHash func(in []byte) []byte

func rxHashOf(hf int) rxHash {
	switch hf {
	case 0:
		return func(in []byte) []byte { s := sha256.Sum256(in); return s[:] }
	case 1:
		return func(in []byte) []byte { o := make([]byte, 32); sha3.ShakeSum128(o, in); return o }
	default:
		return func(in []byte) []byte { o := make([]byte, 32); sha3.ShakeSum256(o, in); return o }
	}
}

type rxAddr [8]uint32

func (a rxAddr) bytes() []byte {
	b := make([]byte, 32)
	for i, w := range a {
		binary.BigEndian.PutUint32(b[4*i:], w)
	}
	return b
}

func rxCore(h rxHash, ty byte, key, in []byte) []byte {
	buf := make([]byte, 32, 32+len(key)+len(in))
	buf[31] = ty
	return h(append(append(buf, key...), in...))
}

func rxPRF(h rxHash, in, key []byte) []byte { return rxCore(h, 3, key, in) }

func rxXor(a, b []byte) []byte {
	o := make([]byte, len(a))
	for i := range a {
		o[i] = a[i] ^ b[i]
	}
	return o
}

func rxF(h rxHash, pubSeed []byte, a rxAddr, in []byte) []byte {
	a[7] = 0
	key := rxPRF(h, a.bytes(), pubSeed)
	a[7] = 1
	mask := rxPRF(h, a.bytes(), pubSeed)
	return rxCore(h, 0, key, rxXor(in, mask))
}

func rxH(h rxHash, pubSeed []byte, a rxAddr, l, r []byte) []byte {
	a[7] = 0
	key := rxPRF(h, a.bytes(), pubSeed)
	a[7] = 1
	m0 := rxPRF(h, a.bytes(), pubSeed)
	a[7] = 2
	m1 := rxPRF(h, a.bytes(), pubSeed)
	return rxCore(h, 1, key, rxXor(append(append([]byte{}, l...), r...), append(m0, m1...)))
}

// chain: apply F `steps` times starting at position `start` (never beyond w − 1 = 15)
func rxChain(h rxHash, pubSeed []byte, a rxAddr, start, steps int, x []byte) []byte {
	for i := start; i < start+steps && i < 16; i++ {
		a[6] = uint32(i)
		x = rxF(h, pubSeed, a, x)
	}
	return x
}

// 64 message digits and 3 checksum digits, base 16
func rxDigits(msgHash []byte) []int {
	d := make([]int, 0, 67)
	for _, b := range msgHash {
		d = append(d, int(b>>4), int(b&15))
	}
	csum := 0
	for _, x := range d {
		csum += 15 - x
	}
	csum <<= 4 // 3 digits of 4 bits in 2 bytes, left aligned
	return append(d, (csum>>12)&15, (csum>>8)&15, (csum>>4)&15)
}

func rxExpand(h rxHash, seed []byte) [][]byte {
	out := make([][]byte, 67)
	for i := range out {
		ctr := make([]byte, 32)
		binary.BigEndian.PutUint32(ctr[28:], uint32(i))
		out[i] = rxPRF(h, ctr, seed)
	}
	return out
}

func rxLTree(h rxHash, pubSeed []byte, idx uint32, nodes [][]byte) []byte {
	height := uint32(0)
	for len(nodes) > 1 {
		var next [][]byte
		for i := 0; i+1 < len(nodes); i += 2 {
			next = append(next, rxH(h, pubSeed, rxAddr{0, 0, 0, 1, idx, height, uint32(i / 2), 0}, nodes[i], nodes[i+1]))
		}
		if len(nodes)%2 == 1 {
			next = append(next, nodes[len(nodes)-1])
		}
		nodes = next
		height++
	}
	return nodes[0]
}

type rxKey struct {
	h              int
	hash           rxHash
	skSeed, skPRF  []byte
	pubSeed, root  []byte
	levels         [][][]byte
	pk             []byte
}

func rxOtsSeed(k *rxKey, idx uint32) []byte {
	return rxPRF(k.hash, rxAddr{0, 0, 0, 0, idx, 0, 0, 0}.bytes(), k.skSeed)
}

func rxNewKey(seed []byte, h, hf int) *rxKey {
	rb := make([]byte, 96)
	sha3.ShakeSum256(rb, seed)
	k := &rxKey{h: h, hash: rxHashOf(hf), skSeed: rb[:32], skPRF: rb[32:64], pubSeed: rb[64:96]}
	leaves := make([][]byte, 1<<uint(h))
	for i := range leaves {
		sk := rxExpand(k.hash, rxOtsSeed(k, uint32(i)))
		pkc := make([][]byte, 67)
		for c := range pkc {
			pkc[c] = rxChain(k.hash, k.pubSeed, rxAddr{0, 0, 0, 0, uint32(i), uint32(c), 0, 0}, 0, 15, sk[c])
		}
		leaves[i] = rxLTree(k.hash, k.pubSeed, uint32(i), pkc)
	}
	k.levels = append(k.levels, leaves)
	for lv := 0; lv < h; lv++ {
		cur := k.levels[lv]
		next := make([][]byte, len(cur)/2)
		for i := range next {
			next[i] = rxH(k.hash, k.pubSeed, rxAddr{0, 0, 0, 2, 0, uint32(lv), uint32(i), 0}, cur[2*i], cur[2*i+1])
		}
		k.levels = append(k.levels, next)
	}
	k.root = k.levels[h][0]
	k.pk = append(append([]byte{byte(hf), byte(h / 2), 0}, k.root...), k.pubSeed...)
	return k
}

func (k *rxKey) sign(idx uint32, msg []byte) []byte {
	ib := make([]byte, 32)
	binary.BigEndian.PutUint32(ib[28:], idx)
	r := rxPRF(k.hash, ib, k.skPRF)
	mh := rxCore(k.hash, 2, append(append(append([]byte{}, r...), k.root...), ib...), msg)
	sig := append([]byte{byte(idx >> 24), byte(idx >> 16), byte(idx >> 8), byte(idx)}, r...)
	sk := rxExpand(k.hash, rxOtsSeed(k, idx))
	for c, d := range rxDigits(mh) {
		sig = append(sig, rxChain(k.hash, k.pubSeed, rxAddr{0, 0, 0, 0, idx, uint32(c), 0, 0}, 0, d, sk[c])...)
	}
	for lv := 0; lv < k.h; lv++ {
		sig = append(sig, k.levels[lv][(idx>>uint(lv))^1]...)
	}
	return sig
}
