package main

import (
	"bytes"
	"crypto/sha256"
	"encoding/hex"
	"fmt"
	"strings"
	"sync"

	"github.com/theQRL/go-qrllib/common"
	"github.com/theQRL/go-qrllib/dilithium"
	"github.com/theQRL/go-qrllib/misc"
	"github.com/theQRL/go-qrllib/qrl"
	"github.com/theQRL/go-qrllib/xmss"
	"golang.org/x/crypto/sha3"
)

func init() {
	generators["C10"] = genC10
	generators["C11"] = genC11
	generators["C16"] = genC16
	generators["C09"] = genC09
}

func shake256sum(b []byte, n int) []byte {
	out := make([]byte, n)
	sha3.ShakeSum256(out, b)
	return out
}

// ---------------------------------------------------------------- C10

// seedWithGroup builds an n-byte string whose 12-bit group at word position pos is v (other bits random).
func (g *gen) seedWithGroup(n, pos, v int) []byte {
	b := g.bytes(n)
	nib := 3 * pos
	for k := 0; k < 3; k++ {
		d := byte((v >> (8 - 4*k)) & 0xf)
		p := (nib + k) / 2
		if (nib+k)%2 == 0 {
			b[p] = (b[p] & 0x0f) | d<<4
		} else {
			b[p] = (b[p] & 0xf0) | d
		}
	}
	return b
}

func genC10(g *gen) {
	// the property's predicate on the implementation: dec(enc(b)) = b; enc(dec(p)) = p; injectivity; strictness
	rt := func(b []byte, diffed bool) {
		var phrase string
		enc := guard(func() string { phrase = misc.VerifBinToMnemonic(b); return "ok" })
		if enc != "ok" {
			g.check(false, "enc-refused", fmt.Sprintf("binToMnemonic refused %d bytes: %s", len(b), enc), "m.enc "+hx(b))
			return
		}
		dec := "m.dec48"
		if len(b) == 51 {
			dec = "m.dec51"
		} else if len(b) != 48 {
			dec = "m.dec"
		}
		var back []byte
		out := guard(func() string {
			switch dec {
			case "m.dec48":
				r := misc.MnemonicToSeedBin(phrase)
				back = r[:]
			case "m.dec51":
				r := misc.MnemonicToExtendedSeedBin(phrase)
				back = r[:]
			default:
				back = misc.VerifMnemonicToBin(phrase)
			}
			return "ok"
		})
		g.check(out == "ok" && bytes.Equal(back, b), "roundtrip", fmt.Sprintf("dec(enc(b)) != b for b=%s: %s %s", hx(b), out, hx(back)),
			"m.enc "+hx(b), dec+" "+hx([]byte(phrase)))
		if out == "ok" {
			again := misc.VerifBinToMnemonic(back)
			g.check(again == phrase, "reencode", "enc(dec(p)) != p for p="+phrase, dec+" "+hx([]byte(phrase)))
		}
		if diffed {
			g.op("m.enc %s", hx(b))
			g.op("%s %s", dec, hx([]byte(phrase)))
		}
	}
	nRandom, nDiffPerPos := 150, 24
	positions := []int{0, 1, 16, 31, 32, 33}
	if g.thorough {
		nRandom, nDiffPerPos = 2000, 64
		positions = nil
		for p := 0; p < 34; p++ {
			positions = append(positions, p)
		}
	}
	g.note("random seeds")
	for i := 0; i < nRandom; i++ {
		n := 48
		if i%2 == 1 {
			n = 51
		}
		rt(g.bytes(n), i < 60)
	}
	rt(make([]byte, 48), true)
	rt(bytes.Repeat([]byte{0xff}, 51), true)
	rt(g.bytes(3), true)
	rt(g.bytes(6), true)
	// every word repeated over the whole phrase (32 and 34 times): the shortest and the longest phrases there are
	for v := 0; v < 4096; v++ {
		for _, n := range []int{48, 51} {
			b := make([]byte, n)
			for i := 0; i+3 <= n; i += 3 {
				b[i], b[i+1], b[i+2] = byte(v>>4), byte(v<<4)|byte(v>>8), byte(v)
			}
			ph := misc.VerifBinToMnemonic(b)
			dec := "m.dec48"
			if n == 51 {
				dec = "m.dec51"
			}
			out := execOp(g.st, dec+" "+hx([]byte(ph)))
			g.check(out == "ok "+hx(b), "roundtrip", fmt.Sprintf("dec(enc(b)) != b for the %d-byte input made of the 12-bit group %d repeated (phrase of %d characters): %s", n, v, len(ph), trunc(out, 60)), "m.enc "+hx(b), dec+" "+hx([]byte(ph)))
		}
	}
	g.note("every 12-bit value at word positions %v", positions)
	for _, pos := range positions {
		seen := map[string]int{}
		for v := 0; v < 4096; v++ {
			n := 51
			if pos < 32 && v%2 == 0 {
				n = 48
			}
			b := g.seedWithGroup(n, pos, v)
			rt(b, v%(4096/nDiffPerPos) == g.rng.Intn(4096/nDiffPerPos))
			phrase := misc.VerifBinToMnemonic(b)
			w := strings.Split(phrase, " ")[pos]
			if prev, dup := seen[w]; dup {
				g.check(false, "word-collision", fmt.Sprintf("groups %d and %d both encode to %q at position %d", prev, v, w, pos), "m.enc "+hx(b))
			} else {
				g.check(true, "word-collision", "")
			}
			seen[w] = v
		}
	}
	// word list facts on the implementation's table
	seenW := map[string]int{}
	for i, w := range qrl.WordList {
		bad := w == "" || strings.ContainsAny(w, " \t\n") || strings.ToLower(w) != w
		g.check(!bad, "word-shape", fmt.Sprintf("word %d %q is empty, has whitespace or upper case", i, w))
		if j, dup := seenW[w]; dup {
			b := g.seedWithGroup(48, 0, j)
			g.check(false, "word-duplicate", fmt.Sprintf("WordList[%d] == WordList[%d] == %q", j, i, w), "m.enc "+hx(b), "m.dec48 "+hx([]byte(misc.VerifBinToMnemonic(b))))
		}
		seenW[w] = i
	}
	g.note("malformed phrases")
	good48 := misc.VerifBinToMnemonic(g.bytes(48))
	good51 := misc.VerifBinToMnemonic(g.bytes(51))
	words := strings.Split(good48, " ")
	mal := map[string]string{
		"empty":          "",
		"one-word":       "aback",
		"odd-count":      strings.Join(words[:31], " "),
		"double-space":   strings.Replace(good48, " ", "  ", 1),
		"leading-space":  " " + good48,
		"trailing-space": good48 + " ",
		"trailing-nl":    good48 + "\n",
		"tab-separated":  strings.Replace(good48, " ", "\t", 1),
		"upper-first":    strings.ToUpper(good48[:1]) + good48[1:],
		"upper-all":      strings.ToUpper(good48),
		"unknown-word":   strings.Replace(good48, words[5], "zzzzzz", 1),
		"truncated-word": strings.Replace(good48, words[7]+" ", words[7][:len(words[7])-1]+" ", 1),
		"nonascii":       strings.Replace(good48, words[3], "caf\xc3\xa9", 1),
		"two-spaces-end": good48 + "  ",
		"nul-inside":     strings.Replace(good48, " ", "\x00", 1),
		"comma-sep":      strings.Replace(good48, " ", ",", -1),
	}
	for name, p := range mal {
		for _, dec := range []string{"m.dec48", "m.dec51", "m.dec"} {
			out := g.op("%s %s", dec, hx([]byte(p)))
			if name == "truncated-word" && !strings.HasPrefix(out, "refuse:") {
				// a truncated word may itself be a list word: then it must decode to a different, well-defined value; not a strictness failure
				continue
			}
			g.check(strings.HasPrefix(out, "refuse:"), "strict:"+name, fmt.Sprintf("malformed phrase (%s) was not refused by %s: %s", name, dec, trunc(out, 80)), dec+" "+hx([]byte(p)))
		}
	}
	// near-miss tokens (implementation only): a list word with any one byte put in front of it or behind it, with one
	// letter changed, doubled, or with its case changed — at a random place of an otherwise valid phrase. None of them is a
	// list word, so every such phrase must be refused by all three decoders
	{
		inList := map[string]bool{}
		for _, w := range qrl.WordList {
			inList[w] = true
		}
		var picks []string
		for _, w := range qrl.WordList { // the first word of each length, then random ones (six-letter words are the longest)
			if len(picks) < 8 && (len(picks) == 0 || len(w) != len(picks[len(picks)-1])) {
				picks = append(picks, w)
			}
		}
		for len(picks) < 20 {
			picks = append(picks, qrl.WordList[g.rng.Intn(4096)])
		}
		picks = append(picks, qrl.WordList[0], qrl.WordList[4095])
		tried := 0
		for _, w := range picks {
			var toks []string
			for c := 0; c < 256; c++ {
				if c == ' ' {
					continue
				}
				toks = append(toks, string([]byte{byte(c)})+w, w+string([]byte{byte(c)}))
			}
			for i := 0; i < len(w); i++ {
				for _, d := range []int{-1, 1, -32, 32, 128} {
					b := []byte(w)
					b[i] = byte(int(b[i]) + d)
					toks = append(toks, string(b))
				}
			}
			toks = append(toks, w+w, w+"-"+w, strings.ToUpper(w), strings.Title(w), w+"xxxxxxxxxx", "xxxxxxxxxx"+w)
			for _, t := range toks {
				if inList[t] || strings.ContainsRune(t, ' ') {
					continue
				}
				ws := append([]string{}, words...)
				ws[g.rng.Intn(len(ws))] = t
				ph := strings.Join(ws, " ")
				dec := []string{"m.dec48", "m.dec", "m.dec51"}[tried%3]
				if dec == "m.dec51" {
					ws2 := strings.Split(good51, " ")
					ws2[g.rng.Intn(len(ws2))] = t
					ph = strings.Join(ws2, " ")
				}
				line := dec + " " + hx([]byte(ph))
				out := execOp(g.st, line)
				g.check(strings.HasPrefix(out, "refuse:"), "strict:near-miss-word", fmt.Sprintf("a phrase containing the unknown word %q was not refused by %s: %s", t, dec, trunc(out, 60)), line)
				tried++
			}
		}
		g.counts["near-miss-tokens"] = tried
	}
	// wrong size for the sized entry points
	g.check(strings.HasPrefix(g.op("m.dec48 %s", hx([]byte(good51))), "refuse:"), "strict:size", "34-word phrase accepted as a 48-byte seed")
	g.check(strings.HasPrefix(g.op("m.dec51 %s", hx([]byte(good48))), "refuse:"), "strict:size", "32-word phrase accepted as a 51-byte extended seed")
	g.op("m.enc %s", hx(g.bytes(47)))
	g.op("m.enc %s", hx(g.bytes(50)))
	// phrases made of random list words (valid): dec then enc must give the phrase back
	for i := 0; i < 40; i++ {
		n := 32 + 2*(i%2)
		ws := make([]string, n)
		for j := range ws {
			ws[j] = qrl.WordList[g.rng.Intn(4096)]
		}
		p := strings.Join(ws, " ")
		out := g.op("m.dec %s", hx([]byte(p)))
		if v, ok := okval(out); ok {
			back := misc.VerifBinToMnemonic(unhex(v))
			g.check(back == p, "reencode", "enc(dec(p)) != p for random valid phrase "+p, "m.dec "+hx([]byte(p)))
		} else {
			g.check(false, "valid-refused", "valid phrase refused: "+out, "m.dec "+hx([]byte(p)))
		}
	}
}

// ---------------------------------------------------------------- C11

func genC11(g *gen) {
	g.note("XMSS addresses from random public keys, every descriptor byte pair")
	npk := 300
	if g.thorough {
		npk = 5000
	}
	for i := 0; i < npk; i++ {
		pk := g.bytes(67)
		switch i % 4 {
		case 0: // a descriptor the library itself would produce
			pk[0] = byte(g.rng.Intn(3))
			pk[1] = byte(2 + g.rng.Intn(14))
			pk[2] = 0
		case 1:
			pk[1] &= 0x0f
		}
		out := g.op("a.xmss %s", hx(pk))
		d := xmss.NewQRLDescriptorFromBytes(pk[:3])
		if a, ok := okval(out); ok {
			addr := unhex(a)
			db := d.GetBytes()
			want := append(append([]byte{}, db[:]...), shake256sum(pk, 32)[15:]...)
			g.check(bytes.Equal(addr, want), "xmss-addr-spec", "address != descriptor || SHAKE256(pk)[15:32] for pk="+hx(pk), "a.xmss "+hx(pk))
			if uint(d.GetSignatureType()) == uint(common.XMSSSig) {
				v := g.op("a.xmssvalid %s", a)
				g.check(v == "ok true", "xmss-own-valid", "derived XMSS address is not valid for XMSS: "+a, "a.xmssvalid "+a)
				v2 := g.op("a.dilvalid %s", a)
				g.check(v2 == "ok false", "xmss-other-invalid", "derived XMSS address is valid for Dilithium: "+a, "a.dilvalid "+a)
			}
		} else {
			g.check(d.GetAddrFormatType() != common.SHA256_2X && out == "refuse:addr-format", "xmss-addr-refusal", "unexpected outcome "+out+" for pk="+hx(pk[:3]), "a.xmss "+hx(pk))
		}
		lo := g.op("a.legacy %s", hx(pk))
		if a, ok := okval(lo); ok {
			addr := unhex(a)
			db := d.GetBytes()
			h1 := sha256.Sum256(pk)
			body := append(append([]byte{}, db[:]...), h1[:]...)
			h2 := sha256.Sum256(body)
			want := append(body, h2[28:]...)
			g.check(bytes.Equal(addr, want), "legacy-addr-spec", "legacy address differs from reference for pk="+hx(pk), "a.legacy "+hx(pk))
			g.check(g.op("a.legacyvalid %s", a) == "ok true", "legacy-own-valid", "derived legacy address not valid: "+a, "a.legacyvalid "+a)
			// flip one bit anywhere: must become invalid (checksum covers bytes 0..34; flipping the checksum itself too)
			bit := g.rng.Intn(39 * 8)
			mut := append([]byte{}, addr...)
			mut[bit/8] ^= 1 << (bit % 8)
			ref := refLegacyValid(mut)
			v := g.op("a.legacyvalid %s", hx(mut))
			g.check(v == "ok "+bstr(ref), "legacy-valid-iff", fmt.Sprintf("IsValidLegacy(%s) = %s, reference %v", hx(mut), v, ref), "a.legacyvalid "+hx(mut))
		}
	}
	// checksums wrong in two or more bytes whose differences cancel under some accumulation (sum, xor, or):
	// every pair of checksum bytes × complementary masks, three- and four-byte patterns
	{
		body := g.bytes(35)
		body[1] &= 0x0f
		h := sha256.Sum256(body)
		good := append(append([]byte{}, body...), h[28:]...)
		try := func(mask [4]byte) {
			a := append([]byte{}, good...)
			for k := 0; k < 4; k++ {
				a[35+k] ^= mask[k]
			}
			ref := refLegacyValid(a)
			v := g.op("a.legacyvalid %s", hx(a))
			g.check(v == "ok "+bstr(ref), "legacy-valid-iff", fmt.Sprintf("IsValidLegacy(valid address with checksum xor %x) = %s, reference %v", mask[:], v, ref), "a.legacyvalid "+hx(a))
		}
		for i := 0; i < 4; i++ {
			for j := i + 1; j < 4; j++ {
				for _, m := range []int{1, 0x80, 0x7f, 0x55, 0xff} {
					var mk [4]byte
					mk[i], mk[j] = byte(m), byte(256-m)
					try(mk)
					mk[j] = byte(m) // equal masks: cancel under xor-folding
					try(mk)
				}
			}
		}
		try([4]byte{0x80, 0x40, 0x40, 0})
		try([4]byte{0x40, 0x40, 0x40, 0x40})
		try([4]byte{0xff, 0xff, 0x01, 0x01})
	}
	for i := 0; i < 200; i++ {
		a := g.bytes(39)
		if i%2 == 0 {
			a[1] &= 0x0f
		}
		if i%8 == 0 { // valid checksum, arbitrary descriptor
			h := sha256.Sum256(a[:35])
			copy(a[35:], h[28:])
		}
		ref := refLegacyValid(a)
		v := g.op("a.legacyvalid %s", hx(a))
		g.check(v == "ok "+bstr(ref), "legacy-valid-iff", fmt.Sprintf("IsValidLegacy(%s) = %s, reference %v", hx(a), v, ref), "a.legacyvalid "+hx(a))
	}
	g.note("Dilithium addresses")
	ndil := 40
	if g.thorough {
		ndil = 400
	}
	for i := 0; i < ndil; i++ {
		pk := g.bytes(2592)
		out := g.op("a.dil %s", hx(pk))
		a, _ := okval(out)
		want := append([]byte{0x10}, shake256sum(pk, 32)[13:]...)
		g.check(a == hx(want), "dil-addr-spec", "address != 0x10 || SHAKE256(pk)[13:32]", "a.dil "+hx(pk))
		g.check(g.op("a.dilvalid %s", a) == "ok true", "dil-own-valid", "derived Dilithium address not valid: "+a, "a.dilvalid "+a)
		g.check(g.op("a.xmssvalid %s", a) == "ok false", "dil-other-invalid", "derived Dilithium address valid for XMSS: "+a, "a.xmssvalid "+a)
	}
	g.note("address validity for every value of bytes 0 and 1")
	step := 7
	if g.thorough {
		step = 1
	}
	for v := 0; v < 65536; v += step {
		a := g.bytes(20)
		a[0], a[1] = byte(v>>8), byte(v)
		xv := g.op("a.xmssvalid %s", hx(a))
		dv := g.op("a.dilvalid %s", hx(a))
		g.check(xv == "ok "+bstr(a[0]>>4 == 0 && a[1]>>4 == 0), "xmss-valid-iff", "IsValidXMSSAddress disagrees with (sigtype=0 and format=0) for "+hx(a[:2]), "a.xmssvalid "+hx(a))
		g.check(dv == "ok "+bstr(a[0] == 0x10), "dil-valid-iff", "IsValidDilithiumAddress disagrees with byte0=0x10 for "+hx(a[:2]), "a.dilvalid "+hx(a))
		g.check(!(xv == "ok true" && dv == "ok true"), "disjoint", "address valid for both schemes: "+hx(a))
	}
	g.note("descriptor round trip for every field combination")
	for hf := 0; hf < 16; hf++ {
		for sg := 0; sg < 16; sg++ {
			for af := 0; af < 16; af++ {
				for h := 0; h <= 30; h += 2 {
					if !g.thorough && (hf*7+sg*5+af*3+h)%5 != int(g.seed%5+5)%5 && !(sg == 0 && af == 0 && hf < 3) {
						continue
					}
					out := g.op("d.new %d %d %d %d", h, hf, sg, af)
					want := fmt.Sprintf("%d %d %d %d", hf, sg, h, af)
					v, _ := okval(out)
					parts := strings.SplitN(v, " ", 2)
					g.check(len(parts) == 2 && parts[1] == want, "desc-roundtrip", fmt.Sprintf("decode(encode(h=%d hf=%d sig=%d fmt=%d)) = %s", h, hf, sg, af, v), fmt.Sprintf("d.new %d %d %d %d", h, hf, sg, af))
				}
			}
		}
	}
	for v := 0; v < 65536; v += step {
		g.op("d.frombytes %02x%02x%02x", v>>8, v&0xff, g.rng.Intn(256))
	}
}

func refLegacyValid(a []byte) bool {
	if a[1]>>4 != 0 {
		return false
	}
	h := sha256.Sum256(a[:35])
	return bytes.Equal(a[35:], h[28:])
}

// ---------------------------------------------------------------- C16

func (g *gen) hexVariants(b []byte) []string {
	h := hex.EncodeToString(b)
	return []string{h, "0x" + h, strings.ToUpper(h), "0x" + strings.ToUpper(h)}
}

func genC16(g *gen) {
	seed := [48]byte{}
	copy(seed[:], g.bytes(48))
	x := xmss.NewXMSSFromSeed(seed, 4, xmss.HashFunction(g.rng.Intn(3)), common.SHA256_2X)
	xpk := x.GetPK()
	d, _ := dilithium.NewDilithiumFromSeed(seed)
	dpk := d.GetPK()
	g.note("XMSS wrappers")
	for i := 0; i < 6; i++ {
		msg := g.bytes(g.rng.Intn(40))
		for j := range msg {
			msg[j] &= 0x7f
		}
		sig, _ := x.Sign(msg)
		core := xmss.Verify(msg, sig, xpk)
		for vi, hs := range g.hexVariants(sig) {
			hp := g.hexVariants(xpk[:])[(vi+i)%4]
			out := g.op("js.xverify %s %s %s", hx(msg), hx([]byte(hs)), hx([]byte(hp)))
			g.check(out == "ok "+bstr(core), "xmss-verify-wrapper", fmt.Sprintf("XMSSVerify(hex form %d/%d) = %s but core Verify = %v", vi, (vi+i)%4, out, core), fmt.Sprintf("js.xverify %s %s %s", hx(msg), hx([]byte(hs)), hx([]byte(hp))))
		}
		bad := append([]byte{}, sig...)
		bad[g.rng.Intn(len(bad))] ^= 0x10
		coreBad := xmss.Verify(msg, bad, xpk)
		out := g.op("js.xverify %s %s %s", hx(msg), hx([]byte(hex.EncodeToString(bad))), hx([]byte("0x"+hex.EncodeToString(xpk[:]))))
		g.check(out == "ok "+bstr(coreBad), "xmss-verify-wrapper", "XMSSVerify on a corrupted signature differs from core", g.ops[len(g.ops)-1])
	}
	// messages that look like an encoding of something else: the wrapper takes the message as it is (its bytes), whatever
	// it looks like — "0x…" text, hex text, upper case, the empty string; every signed × queried pair must agree with core
	{
		msgs := []string{"0xdeadbeef", "\xde\xad\xbe\xef", "0x", "", "deadbeef", "0XDEADBEEF", "0xdeadbee", "00", "\x00", "0x00", "Q0105", " 0xab", "0xab "}
		x2 := xmss.NewXMSSFromSeed(seed, 4, xmss.HashFunction(g.rng.Intn(3)), common.SHA256_2X)
		x2pk := x2.GetPK()
		var sigs [][]byte
		for _, m := range msgs {
			sg, _ := x2.Sign([]byte(m))
			sigs = append(sigs, sg)
		}
		for i, sg := range sigs {
			for j, q := range msgs {
				core := xmss.Verify([]byte(q), sg, x2pk)
				line := fmt.Sprintf("js.xverify %s %s %s", hx([]byte(q)), hx([]byte(g.hexVariants(sg)[(i+j)%4])), hx([]byte(g.hexVariants(x2pk[:])[(i*3+j)%4])))
				out := execOp(g.st, line)
				g.check(out == "ok "+bstr(core), "xmss-verify-wrapper", fmt.Sprintf("XMSSVerify(message %q, signature made for %q) = %s but core Verify on the message bytes = %v", q, msgs[i], out, core), line)
			}
		}
		// the same for the Dilithium wrapper (it takes the message as bytes)
		var dsigs [][4595]byte
		for _, m := range msgs {
			sg, _ := d.Sign([]byte(m))
			dsigs = append(dsigs, sg)
		}
		for i, sg := range dsigs {
			for j, q := range msgs {
				core := dilithium.Verify([]byte(q), sg, &dpk)
				line := fmt.Sprintf("js.dverify %s %s %s", hx([]byte(q)), hx([]byte(g.hexVariants(sg[:])[(i+j)%4])), hx([]byte(g.hexVariants(dpk[:])[(i*3+j)%4])))
				out := execOp(g.st, line)
				g.check(out == "ok "+bstr(core), "dil-verify-wrapper", fmt.Sprintf("DilithiumVerify(message %q, signature made for %q) = %s but core Verify = %v", q, msgs[i], out, core), line)
			}
		}
	}
	// valid signatures at heights up to 30 (crafted through the model): wrapper and core must agree there too
	g.note("XMSSVerify on valid signatures of tall trees")
	for k, t := range g.craftedTriples([]int{4, 10, 14, 16, 18, 20, 24, 30}) {
		hs := g.hexVariants(t.sig)[k%4]
		hp := g.hexVariants(t.pk[:])[(k/4)%4]
		line := fmt.Sprintf("js.xverify %s %s %s", hx(t.msg), hx([]byte(hs)), hx([]byte(hp)))
		coreT := xmss.Verify(t.msg, t.sig, t.pk)
		out := execOp(g.st, line)
		g.check(out == "ok "+bstr(coreT), "xmss-verify-wrapper", fmt.Sprintf("height %d: XMSSVerify = %s but core Verify = %v on a valid signature", t.h, out, coreT), line)
	}
	for i := 0; i < 40; i++ {
		pk := g.bytes(67)
		pk[1] &= 0x0f
		core := xmss.GetXMSSAddressFromPK(*(*[67]byte)(pk))
		for _, hp := range g.hexVariants(pk) {
			out := g.op("js.xaddr %s", hx([]byte(hp)))
			v, _ := okval(out)
			g.check(string(unhex(v)) == hex.EncodeToString(core[:]), "xmss-addr-wrapper", "GetXMSSAddressFromPK("+hp[:12]+"…) != hex(core address)", "js.xaddr "+hx([]byte(hp)))
		}
		a := g.bytes(20)
		if i%2 == 0 {
			a[0] &= 0x0f
			a[1] &= 0x0f
		}
		coreV := xmss.IsValidXMSSAddress(*(*[20]byte)(a))
		coreD := dilithium.IsValidDilithiumAddress(*(*[20]byte)(a))
		for _, ha := range g.hexVariants(a) {
			g.check(g.op("js.xvalid %s", hx([]byte(ha))) == "ok "+bstr(coreV), "xmss-valid-wrapper", "IsValidXMSSAddress wrapper differs from core for "+ha, "js.xvalid "+hx([]byte(ha)))
			g.check(g.op("js.dvalid %s", hx([]byte(ha))) == "ok "+bstr(coreD), "dil-valid-wrapper", "IsValidDilithiumAddress wrapper differs from core for "+ha, "js.dvalid "+hx([]byte(ha)))
		}
	}
	g.note("Dilithium wrappers")
	nd := 3
	if g.thorough {
		nd = 12
	}
	for i := 0; i < nd; i++ {
		msg := g.bytes(g.rng.Intn(64))
		sig, _ := d.Sign(msg)
		core := dilithium.Verify(msg, sig, &dpk)
		for vi, hs := range g.hexVariants(sig[:]) {
			hp := g.hexVariants(dpk[:])[(vi+i)%4]
			out := g.op("js.dverify %s %s %s", hx(msg), hx([]byte(hs)), hx([]byte(hp)))
			g.check(out == "ok "+bstr(core), "dil-verify-wrapper", fmt.Sprintf("DilithiumVerify(hex form %d) = %s but core = %v", vi, out, core), g.ops[len(g.ops)-1])
		}
		bad := sig
		bad[g.rng.Intn(len(bad))] ^= 4
		coreBad := dilithium.Verify(msg, bad, &dpk)
		out := g.op("js.dverify %s %s %s", hx(msg), hx([]byte(hex.EncodeToString(bad[:]))), hx([]byte(hex.EncodeToString(dpk[:]))))
		g.check(out == "ok "+bstr(coreBad), "dil-verify-wrapper", "DilithiumVerify on a corrupted signature differs from core", g.ops[len(g.ops)-1])
		pk := g.bytes(2592)
		coreA := dilithium.GetDilithiumAddressFromPK(*(*[2592]byte)(pk))
		for _, hp := range g.hexVariants(pk) {
			out := g.op("js.daddr %s", hx([]byte(hp)))
			v, _ := okval(out)
			g.check(string(unhex(v)) == "0x"+hex.EncodeToString(coreA[:]), "dil-addr-wrapper", "GetDilithiumAddressFromPK wrapper != '0x'+hex(core)", "js.daddr "+hx([]byte(hp)))
		}
	}
	// a string that is not hexadecimal but whose longest hexadecimal prefix is a genuine signature / key
	// (hex.DecodeString returns the bytes decoded before the error): must be refused, not "verified"
	g.note("non-hex strings with a genuine hexadecimal prefix")
	{
		msg := []byte("prefix")
		xs, _ := x.Sign(msg)
		ds, _ := d.Sign(msg)
		hxs, hds := hex.EncodeToString(xs), hex.EncodeToString(ds[:])
		hxp, hdp := hex.EncodeToString(xpk[:]), hex.EncodeToString(dpk[:])
		for _, tail := range []string{"zz", "\n", " ", "0", "g0", "0x"} {
			for _, pre := range []string{"", "0x"} {
				o1 := g.op("js.xverify %s %s %s", hx(msg), hx([]byte(pre+hxs+tail)), hx([]byte(hxp)))
				g.check(o1 == "ok false", "nonhex-xverify", "XMSSVerify accepted a signature string that is not hexadecimal (genuine signature + "+fmt.Sprintf("%q", tail)+")", g.ops[len(g.ops)-1])
				o2 := g.op("js.xverify %s %s %s", hx(msg), hx([]byte(hxs)), hx([]byte(pre+hxp+tail)))
				g.check(o2 == "ok false", "nonhex-xverify", "XMSSVerify accepted a public-key string that is not hexadecimal (genuine key + "+fmt.Sprintf("%q", tail)+")", g.ops[len(g.ops)-1])
				o3 := g.op("js.dverify %s %s %s", hx(msg), hx([]byte(pre+hds+tail)), hx([]byte(hdp)))
				g.check(o3 == "ok false", "nonhex-dverify", "DilithiumVerify accepted a signature string that is not hexadecimal (genuine signature + "+fmt.Sprintf("%q", tail)+")", g.ops[len(g.ops)-1])
				o4 := g.op("js.dverify %s %s %s", hx(msg), hx([]byte(hds)), hx([]byte(pre+hdp+tail)))
				g.check(o4 == "ok false", "nonhex-dverify", "DilithiumVerify accepted a public-key string that is not hexadecimal (genuine key + "+fmt.Sprintf("%q", tail)+")", g.ops[len(g.ops)-1])
				g.check(g.op("js.xaddr %s", hx([]byte(pre+hxp+tail))) == "ok -", "nonhex-xaddr", "GetXMSSAddressFromPK(genuine key + garbage) did not return the empty string", g.ops[len(g.ops)-1])
				g.check(g.op("js.daddr %s", hx([]byte(pre+hdp+tail))) == "ok -", "nonhex-daddr", "GetDilithiumAddressFromPK(genuine key + garbage) did not return the empty string", g.ops[len(g.ops)-1])
			}
		}
	}
	// addresses with leading zero bytes (a parser that reads the string as a number drops them) and strings that a
	// number parser accepts but that are not hexadecimal byte strings
	g.note("addresses with leading zero bytes; signed / spaced numerals")
	for _, lead := range [][]byte{{0x00, 0x10}, {0x00, 0x00, 0x10}, {0x00, 0x01}, {0x00, 0x00, 0x00}, {0x00}, {0x00, 0x10, 0x00}} {
		for r := 0; r < 3; r++ {
			a := append(append([]byte{}, lead...), g.bytes(20-len(lead))...)
			coreV := xmss.IsValidXMSSAddress(*(*[20]byte)(a))
			coreD := dilithium.IsValidDilithiumAddress(*(*[20]byte)(a))
			for _, ha := range g.hexVariants(a) {
				g.check(g.op("js.xvalid %s", hx([]byte(ha))) == "ok "+bstr(coreV), "xmss-valid-wrapper", "IsValidXMSSAddress wrapper differs from core for "+ha, "js.xvalid "+hx([]byte(ha)))
				g.check(g.op("js.dvalid %s", hx([]byte(ha))) == "ok "+bstr(coreD), "dil-valid-wrapper", "IsValidDilithiumAddress wrapper differs from core for "+ha, "js.dvalid "+hx([]byte(ha)))
			}
		}
	}
	{
		a := append([]byte{0x10}, g.bytes(19)...)
		ha := hex.EncodeToString(a)
		for _, bad := range []string{"+" + ha, "-" + ha, "+" + ha[1:], "0x+" + ha[1:], ha[:39] + "_", "0x" + ha[:38] + "_0", "0o" + ha[2:], "0X" + ha[2:] + "p0"} {
			hb := hx([]byte(bad))
			g.check(g.op("js.dvalid %s", hb) == "ok false", "nonhex-dvalid", "IsValidDilithiumAddress accepted a string that is not hexadecimal: "+bad, "js.dvalid "+hb)
			g.check(g.op("js.xvalid %s", hb) == "ok false", "nonhex-xvalid", "IsValidXMSSAddress accepted a string that is not hexadecimal: "+bad, "js.xvalid "+hb)
		}
	}
	g.note("strings that are not valid hexadecimal")
	h67 := hex.EncodeToString(xpk[:])
	bads := []string{"zz", "0x", "0xg0", "abc", "0xabc", h67[:len(h67)-1], "0x" + h67[:len(h67)-1], h67[:40] + "g" + h67[41:], " " + h67, h67 + " ", "0X" + h67, "0x0x" + h67, "é", "\x00\x00"}
	for _, b := range bads {
		hb := hx([]byte(b))
		isHex := func(s string) bool { _, err := hex.DecodeString(strings.TrimPrefix(s, "0x")); return err == nil }
		if isHex(b) {
			g.op("js.xvalid %s", hb)
			g.op("js.dvalid %s", hb)
			continue
		}
		g.check(g.op("js.xaddr %s", hb) == "ok -", "nonhex-xaddr", "GetXMSSAddressFromPK(non-hex "+fmt.Sprintf("%q", trunc(b, 20))+") did not return the empty string", "js.xaddr "+hb)
		g.check(g.op("js.daddr %s", hb) == "ok -", "nonhex-daddr", "GetDilithiumAddressFromPK(non-hex) did not return the empty string", "js.daddr "+hb)
		g.check(g.op("js.xvalid %s", hb) == "ok false", "nonhex-xvalid", "IsValidXMSSAddress(non-hex) did not return false", "js.xvalid "+hb)
		g.check(g.op("js.dvalid %s", hb) == "ok false", "nonhex-dvalid", "IsValidDilithiumAddress(non-hex) did not return false", "js.dvalid "+hb)
		g.check(g.op("js.xverify 00 %s %s", hb, hx([]byte(h67))) == "ok false", "nonhex-xverify", "XMSSVerify(non-hex signature) did not return false", g.ops[len(g.ops)-1])
		g.check(g.op("js.xverify 00 %s %s", hx([]byte("00")), hb) == "ok false", "nonhex-xverify", "XMSSVerify(non-hex pk) did not return false", g.ops[len(g.ops)-1])
		g.check(g.op("js.dverify 00 %s %s", hb, hx([]byte("00"))) == "ok false", "nonhex-dverify", "DilithiumVerify(non-hex signature) did not return false", g.ops[len(g.ops)-1])
		g.check(g.op("js.dverify 00 %s %s", hx([]byte("00")), hb) == "ok false", "nonhex-dverify", "DilithiumVerify(non-hex pk) did not return false", g.ops[len(g.ops)-1])
	}
}

// ---------------------------------------------------------------- C09

func genC09(g *gen) {
	// the recovered key must sign like the original on every message, also on those whose signing takes dozens of
	// rejection rounds (boundary corpus of the zero-seed key) — twice each, since signing is deterministic
	{
		var zseed [48]byte
		d0, _ := dilithium.NewDilithiumFromSeed(zseed)
		dm, _ := dilithium.NewDilithiumFromMnemonic(d0.GetMnemonic())
		dh, _ := dilithium.NewDilithiumFromHexSeed(d0.GetHexSeed()[2:])
		var ms [][]byte
		for _, k := range []string{"many-attempts", "attempts-ge-45", "attempts-ge-50", "nonce-ge-256", "hint-75"} {
			ms = append(ms, loadCorpus(k)[k]...)
		}
		var cmu sync.Mutex
		parallel(len(ms), func(i int) {
			s0, _ := d0.Sign(ms[i])
			s1, _ := dm.Sign(ms[i])
			s2, _ := dh.Sign(ms[i])
			s3, _ := d0.Sign(ms[i])
			cmu.Lock()
			g.check(s0 == s1 && s0 == s2 && s0 == s3, "dil-recovered-signature", "a Dilithium key recovered from its mnemonic / hex seed (or the same key asked twice) signs a message differently: msg="+hx(ms[i]),
				"dl.new z "+hx(zseed[:]), "dl.sign z "+hx(ms[i]))
			cmu.Unlock()
		})
	}
	g.note("descriptor level: every height and hash function")
	for h := 2; h <= 30; h += 2 {
		for hf := 0; hf < 3; hf++ {
			out := g.op("d.new %d %d 0 0", h, hf)
			f := strings.Fields(out)
			g.check(len(f) == 6 && f[2] == fmt.Sprint(hf) && f[3] == "0" && f[4] == fmt.Sprint(h) && f[5] == "0", "descriptor-roundtrip",
				fmt.Sprintf("NewQRLDescriptorFromBytes(GetBytes()) loses height=%d hash=%d: a wallet of this shape cannot be rebuilt from its extended seed", h, hf), g.ops[len(g.ops)-1])
		}
	}
	g.note("XMSS keys rebuilt from extended seed and mnemonic")
	heights := []int{4}
	nkeys := 3
	if g.thorough {
		heights = []int{4, 6, 8}
		nkeys = 6
	}
	id := 0
	for _, h := range heights {
		for hf := 0; hf < 3; hf++ {
			for k := 0; k < nkeys/3+1; k++ {
				if h > 4 && k > 0 {
					continue
				}
				seed := g.bytes(48)
				if h == 4 && k == 0 {
					// boundary secrets: every 12-bit group 0xFFF (last word of the list) / 0x000 (first word) / both alternating
					switch hf {
					case 0:
						seed = bytes.Repeat([]byte{0xff}, 48)
					case 1:
						seed = make([]byte, 48)
					case 2:
						seed = bytes.Repeat([]byte{0xff, 0xf0, 0x00}, 16)
					}
				}
				id++
				a, b, c := fmt.Sprintf("a%d", id), fmt.Sprintf("b%d", id), fmt.Sprintf("c%d", id)
				g.op("x.new %s %s %d %d 0", a, hx(seed), h, hf)
				info := g.op("x.info %s", a)
				ext, mn := field(info, "ext"), strings.TrimPrefix(field(info, "mn"), "ok:")
				g.op("x.newext %s %s", b, ext)
				dec := g.op("m.dec51 %s", mn)
				v, _ := okval(dec)
				g.check(v == ext, "xmss-mnemonic-roundtrip", "MnemonicToExtendedSeedBin(GetMnemonic()) != GetExtendedSeed()", "x.info "+a)
				g.op("x.newext %s %s", c, v)
				ib, ic := g.op("x.info %s", b), g.op("x.info %s", c)
				g.check(ib == info && ic == info, "xmss-recovered-identity", fmt.Sprintf("recovered key (h=%d hf=%d) reports different pk/address/seed", h, hf), g.ops[len(g.ops)-6:]...)
				j := g.rng.Intn(1 << h)
				msg := hx(g.bytes(9))
				for _, k := range []string{a, b, c} {
					g.op("x.setidx %s %d", k, j)
				}
				sa, sb, sc := g.op("x.sign %s %s", a, msg), g.op("x.sign %s %s", b, msg), g.op("x.sign %s %s", c, msg)
				g.check(sa == sb && sa == sc && strings.HasPrefix(sa, "ok "), "xmss-recovered-signature", fmt.Sprintf("recovered key signs differently at index %d (h=%d hf=%d)", j, h, hf), g.ops[len(g.ops)-12:]...)
			}
		}
	}
	// keys from fresh randomness: the stored seed regenerates the key
	for i := 0; i < 3; i++ {
		x := xmss.NewXMSSFromHeight(4, xmss.HashFunction(i%3))
		y := xmss.NewXMSSFromSeed(x.GetSeed(), 4, xmss.HashFunction(i%3), common.SHA256_2X)
		s1, _ := x.Sign([]byte("m"))
		s2, _ := y.Sign([]byte("m"))
		g.check(x.GetPK() == y.GetPK() && bytes.Equal(s1, s2) && x.GetAddress() == y.GetAddress(), "xmss-random-recoverable", "NewXMSSFromHeight: GetSeed() does not regenerate the key")
		es := x.GetExtendedSeed()
		z := xmss.NewXMSSFromExtendedSeed(es)
		g.check(z.GetPK() == x.GetPK(), "xmss-random-recoverable", "NewXMSSFromHeight: GetExtendedSeed() does not regenerate the key")
	}
	// exported strings must stay what they were when other exports follow (a backup listing of several wallets)
	g.note("exported mnemonics held across further exports")
	{
		sa, sb := g.bytes(48), g.bytes(48)
		a, b := newKey(sa, 4, 0), newKey(sb, 4, 1)
		var sd0, sd1 [48]byte
		copy(sd0[:], g.bytes(48))
		copy(sd1[:], g.bytes(48))
		d0, _ := dilithium.NewDilithiumFromSeed(sd0)
		d1, _ := dilithium.NewDilithiumFromSeed(sd1)
		mA := a.GetMnemonic() // held
		mD := d0.GetMnemonic()
		hD := d0.GetHexSeed()
		_ = b.GetMnemonic() // further exports in between
		_ = d1.GetMnemonic()
		_ = d1.GetHexSeed()
		_ = b.GetMnemonic()
		r := guard(func() string {
			es := misc.MnemonicToExtendedSeedBin(mA)
			if es != a.GetExtendedSeed() {
				return "extended seed differs"
			}
			if xmss.NewXMSSFromExtendedSeed(es).GetPK() != a.GetPK() {
				return "pk differs"
			}
			return "ok"
		})
		g.check(r == "ok", "held-mnemonic-xmss", "an XMSS mnemonic exported earlier no longer recovers the wallet after other exports: "+r,
			fmt.Sprintf("x.new a %s 4 0 0", hx(sa)), fmt.Sprintf("x.new b %s 4 1 0", hx(sb)), "x.info a", "x.info b")
		r = guard(func() string {
			x, err := dilithium.NewDilithiumFromMnemonic(mD)
			if err != nil || x.GetPK() != d0.GetPK() {
				return "mnemonic: pk differs"
			}
			y, err := dilithium.NewDilithiumFromHexSeed(hD[2:])
			if err != nil || y.GetPK() != d0.GetPK() {
				return "hexseed: pk differs"
			}
			return "ok"
		})
		g.check(r == "ok", "held-mnemonic-dilithium", "a Dilithium mnemonic / hex seed exported earlier no longer recovers the wallet after other exports: "+r,
			"dl.new d0 "+hx(sd0[:]), "dl.new d1 "+hx(sd1[:]))
	}
	// secrets whose mnemonic could be mistaken for something else: every word made of the letters a..f only
	// (32 three-letter words without the blanks are 96 hexadecimal digits, the length of a hex seed)
	g.note("mnemonics made of hexadecimal-looking words")
	{
		var hexWords []int
		for i, w := range qrl.WordList {
			ok := len(w) > 0
			for _, c := range w {
				ok = ok && c >= 'a' && c <= 'f'
			}
			if ok {
				hexWords = append(hexWords, i)
			}
		}
		g.counts["hex-looking-words"] = len(hexWords)
		var three []int
		for _, i := range hexWords {
			if len(qrl.WordList[i]) == 3 {
				three = append(three, i)
			}
		}
		mk := func(pool []int) (seed [48]byte) {
			var nib []byte
			for k := 0; k < 32; k++ {
				v := pool[g.rng.Intn(len(pool))]
				nib = append(nib, byte(v>>8), byte(v>>4)&15, byte(v)&15)
			}
			for k := 0; k < 48; k++ {
				seed[k] = nib[2*k]<<4 | nib[2*k+1]
			}
			return
		}
		for t := 0; t < 6 && len(hexWords) > 0; t++ {
			pool := hexWords
			if t%2 == 0 && len(three) > 0 {
				pool = three
			}
			seed := mk(pool)
			d0, _ := dilithium.NewDilithiumFromSeed(seed)
			mn := d0.GetMnemonic()
			var d1 *dilithium.Dilithium
			r := guard(func() string { d1, _ = dilithium.NewDilithiumFromMnemonic(mn); return "ok" })
			g.check(r == "ok" && d1 != nil && d1.GetSeed() == seed && d1.GetPK() == d0.GetPK(), "dil-mnemonic-recovery",
				"NewDilithiumFromMnemonic(GetMnemonic()) differs from the original for a mnemonic of hexadecimal-looking words ("+trunc(mn, 40)+"…): "+r, "dl.new h "+hx(seed[:]), "dl.newmn "+hx([]byte(mn)))
			g.op("dl.newmn %s", hx([]byte(mn)))
			es := append([]byte{0, 2, 0}, seed[:]...) // XMSS: descriptor SHA2_256 / h=4 in front of the same seed
			x := xmss.NewXMSSFromExtendedSeed(*(*[51]byte)(es))
			xm := x.GetMnemonic()
			r = guard(func() string {
				if misc.MnemonicToExtendedSeedBin(xm) != x.GetExtendedSeed() {
					return "differs"
				}
				return "ok"
			})
			g.check(r == "ok", "xmss-mnemonic-roundtrip", "MnemonicToExtendedSeedBin(GetMnemonic()) != GetExtendedSeed() for a mnemonic of hexadecimal-looking words: "+r, "m.dec51 "+hx([]byte(xm)))
		}
	}
	g.note("Dilithium constructors")
	nd := 3
	if g.thorough {
		nd = 20
	}
	for i := 0; i < nd; i++ {
		var seed [48]byte
		copy(seed[:], g.bytes(48))
		if i == 0 {
			copy(seed[:], bytes.Repeat([]byte{0xff}, 48)) // mnemonic made of the last word only
		}
		if i == 1 {
			seed = [48]byte{} // hex seed with leading zero digits, mnemonic made of the first word only
		}
		out := g.op("dl.new d%d %s", i, hx(seed[:]))
		d0, _ := dilithium.NewDilithiumFromSeed(seed)
		hs := d0.GetHexSeed()
		g.check(strings.HasPrefix(hs, "0x") && hs[2:] == hex.EncodeToString(seed[:]), "dil-hexseed", "GetHexSeed is not 0x + hex(seed)")
		var d1, d2 *dilithium.Dilithium
		r1 := guard(func() string { d1, _ = dilithium.NewDilithiumFromHexSeed(hs[2:]); return "ok" })
		r2 := guard(func() string { d2, _ = dilithium.NewDilithiumFromMnemonic(d0.GetMnemonic()); return "ok" })
		g.check(r1 == "ok" && d1 != nil && d1.GetPK() == d0.GetPK() && d1.GetSK() == d0.GetSK() && d1.GetAddress() == d0.GetAddress(), "dil-hexseed-recovery", "NewDilithiumFromHexSeed(GetHexSeed()[2:]) differs from the original: "+r1)
		g.check(r2 == "ok" && d2 != nil && d2.GetPK() == d0.GetPK() && d2.GetSK() == d0.GetSK() && d2.GetAddress() == d0.GetAddress(), "dil-mnemonic-recovery", "NewDilithiumFromMnemonic(GetMnemonic()) differs from the original: "+r2)
		g.check(field(out, "pk") == hx(func() []byte { p := d0.GetPK(); return p[:] }()), "dil-seed-deterministic", "NewDilithiumFromSeed not deterministic")
		if d1 != nil && d2 != nil {
			m := g.bytes(11)
			s0, _ := d0.Sign(m)
			s1, _ := d1.Sign(m)
			s2, _ := d2.Sign(m)
			g.check(s0 == s1 && s0 == s2, "dil-recovered-signature", "recovered Dilithium key signs differently")
			g.op("dl.sign d%d %s", i, hx(m))
		}
		o1 := g.op("dl.newhex %s", hx([]byte(hs[2:])))
		o2 := g.op("dl.newmn %s", hx([]byte(d0.GetMnemonic())))
		g.check(o1 == out && o2 == out, "dil-constructors-agree", "NewDilithiumFromHexSeed / FromMnemonic / FromSeed disagree", g.ops[len(g.ops)-3:]...)
		if i == 0 {
			g.op("dl.newhex %s", hx([]byte(hs)))              // with the 0x prefix: refused (documented: without prefix)
			g.op("dl.newhex %s", hx([]byte(hs[2:len(hs)-2]))) // 47 bytes
			g.op("dl.newhex %s", hx([]byte(hs[2:len(hs)-1]))) // odd length
			g.op("dl.newmn %s", hx([]byte(d0.GetMnemonic()+" aback aback")))
		}
		mnOut := g.op("m.enc %s", hx(seed[:]))
		mv, _ := okval(mnOut)
		g.check(string(unhex(mv)) == d0.GetMnemonic(), "dil-mnemonic", "GetMnemonic != SeedBinToMnemonic(seed)")
		g.op("m.dec48 %s", mv)
	}
	for i := 0; i < 2; i++ {
		d, err := dilithium.New()
		if err != nil {
			continue
		}
		e, _ := dilithium.NewDilithiumFromSeed(d.GetSeed())
		g.check(d.GetPK() == e.GetPK() && d.GetSK() == e.GetSK(), "dil-random-recoverable", "dilithium.New(): GetSeed() does not regenerate the key")
	}
}
