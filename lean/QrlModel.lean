import QrlModel.Gen.DilConst
import QrlModel.Gen.DilScalar
import QrlModel.Gen.DilLanes
import QrlModel.Gen.XmssConst
import QrlModel.Gen.Words
import QrlModel.Gen.Skeleton
import QrlModel.Gen.Effects
import QrlModel.Exec.Hash
