import QrlModel.Gen.Skeleton
/-! Tie obligations of C11: the canonical skeleton of every hand-modelled Go function this property's model
depends on must equal the digest the model was written against (tools/mk_tie.py). -/
namespace Qrl.Tie.C11
theorem xmss_GetXMSSAddressFromPK : Gen.Skel.xmss_GetXMSSAddressFromPK = "cbc5fcdc723f75b1" := by decide
theorem xmss_IsValidXMSSAddress : Gen.Skel.xmss_IsValidXMSSAddress = "359ae68bb96aed52" := by decide
theorem xmss_GetLegacyXMSSAddressFromPK : Gen.Skel.xmss_GetLegacyXMSSAddressFromPK = "449c5e8e1f82d3cb" := by decide
theorem xmss_IsValidLegacyXMSSAddress : Gen.Skel.xmss_IsValidLegacyXMSSAddress = "a97b566aeb539d00" := by decide
theorem dilithium_GetDilithiumAddressFromPK : Gen.Skel.dilithium_GetDilithiumAddressFromPK = "d8d94acd6b66b1dd" := by decide
theorem dilithium_IsValidDilithiumAddress : Gen.Skel.dilithium_IsValidDilithiumAddress = "a65b1f6ffa61979b" := by decide
theorem dilithium_GetDilithiumDescriptor : Gen.Skel.dilithium_GetDilithiumDescriptor = "aa8e3a9cec7bcecf" := by decide
theorem misc_SHAKE256 : Gen.Skel.misc_SHAKE256 = "b590c564199c4c4d" := by decide
theorem misc_SHA256 : Gen.Skel.misc_SHA256 = "ab3df487f983c2a9" := by decide
theorem xmss_NewQRLDescriptor : Gen.Skel.xmss_NewQRLDescriptor = "c15c38899e5f2a3a" := by decide
theorem xmss_NewQRLDescriptorFromBytes : Gen.Skel.xmss_NewQRLDescriptorFromBytes = "9f4d0f4834f9e48d" := by decide
theorem xmss_LegacyQRLDescriptorFromBytes : Gen.Skel.xmss_LegacyQRLDescriptorFromBytes = "9f4d0f4834f9e48d" := by decide
theorem xmss_NewQRLDescriptorFromExtendedPK : Gen.Skel.xmss_NewQRLDescriptorFromExtendedPK = "0d06579e49c5ff80" := by decide
theorem xmss_NewQRLDescriptorFromExtendedSeed : Gen.Skel.xmss_NewQRLDescriptorFromExtendedSeed = "0d06579e49c5ff80" := by decide
theorem xmss_LegacyQRLDescriptorFromExtendedPK : Gen.Skel.xmss_LegacyQRLDescriptorFromExtendedPK = "d4c5a1104d09950b" := by decide
theorem xmss_QRLDescriptor_GetBytes : Gen.Skel.xmss_QRLDescriptor_GetBytes = "50c8b9cc8188d43e" := by decide
theorem xmss_QRLDescriptor_GetHeight : Gen.Skel.xmss_QRLDescriptor_GetHeight = "f5887d2079b315cc" := by decide
theorem xmss_QRLDescriptor_GetHashFunction : Gen.Skel.xmss_QRLDescriptor_GetHashFunction = "b42b1986e3505099" := by decide
theorem xmss_QRLDescriptor_GetSignatureType : Gen.Skel.xmss_QRLDescriptor_GetSignatureType = "5052505240649642" := by decide
theorem xmss_QRLDescriptor_GetAddrFormatType : Gen.Skel.xmss_QRLDescriptor_GetAddrFormatType = "ae2f4a711c1d9eae" := by decide
end Qrl.Tie.C11
