import QrlModel.Gen.Skeleton
/-! Tie obligations of C14: the canonical skeleton of every hand-modelled Go function this property's model
depends on must equal the digest the model was written against (tools/mk_tie.py). -/
namespace Qrl.Tie.C14
theorem xmss_Verify : Gen.Skel.xmss_Verify = "8e0f78463aecd2c2" := by decide
theorem xmss_VerifyWithCustomWOTSParamW : Gen.Skel.xmss_VerifyWithCustomWOTSParamW = "224d9beed85b15bb" := by decide
theorem xmss_xmssVerifySig : Gen.Skel.xmss_xmssVerifySig = "de813c7bad02dba8" := by decide
theorem xmss_validateAuthPath : Gen.Skel.xmss_validateAuthPath = "0e886536f6a2c4f4" := by decide
theorem xmss_getHeightFromSigSize : Gen.Skel.xmss_getHeightFromSigSize = "5ededd66a65e0efc" := by decide
theorem xmss_calculateSignatureBaseSize : Gen.Skel.xmss_calculateSignatureBaseSize = "5b6fbc26c5b416b1" := by decide
theorem xmss_GetXMSSAddressFromPK : Gen.Skel.xmss_GetXMSSAddressFromPK = "cbc5fcdc723f75b1" := by decide
theorem xmss_IsValidXMSSAddress : Gen.Skel.xmss_IsValidXMSSAddress = "359ae68bb96aed52" := by decide
theorem xmss_GetLegacyXMSSAddressFromPK : Gen.Skel.xmss_GetLegacyXMSSAddressFromPK = "449c5e8e1f82d3cb" := by decide
theorem xmss_IsValidLegacyXMSSAddress : Gen.Skel.xmss_IsValidLegacyXMSSAddress = "a97b566aeb539d00" := by decide
theorem dilithium_GetDilithiumAddressFromPK : Gen.Skel.dilithium_GetDilithiumAddressFromPK = "d8d94acd6b66b1dd" := by decide
theorem dilithium_IsValidDilithiumAddress : Gen.Skel.dilithium_IsValidDilithiumAddress = "a65b1f6ffa61979b" := by decide
theorem dilithium_GetDilithiumDescriptor : Gen.Skel.dilithium_GetDilithiumDescriptor = "aa8e3a9cec7bcecf" := by decide
theorem misc_SHAKE256 : Gen.Skel.misc_SHAKE256 = "b590c564199c4c4d" := by decide
theorem misc_SHA256 : Gen.Skel.misc_SHA256 = "ab3df487f983c2a9" := by decide
theorem xmss_NewQRLDescriptor : Gen.Skel.xmss_NewQRLDescriptor = "c15c38899e5f2a3a" := by decide
theorem xmss_NewQRLDescriptorFromBytes : Gen.Skel.xmss_NewQRLDescriptorFromBytes = "9f4d0f4834f9e48d" := by decide
theorem xmss_LegacyQRLDescriptorFromBytes : Gen.Skel.xmss_LegacyQRLDescriptorFromBytes = "9f4d0f4834f9e48d" := by decide
theorem xmss_NewQRLDescriptorFromExtendedPK : Gen.Skel.xmss_NewQRLDescriptorFromExtendedPK = "0d06579e49c5ff80" := by decide
theorem xmss_NewQRLDescriptorFromExtendedSeed : Gen.Skel.xmss_NewQRLDescriptorFromExtendedSeed = "0d06579e49c5ff80" := by decide
theorem xmss_LegacyQRLDescriptorFromExtendedPK : Gen.Skel.xmss_LegacyQRLDescriptorFromExtendedPK = "d4c5a1104d09950b" := by decide
theorem xmss_QRLDescriptor_GetBytes : Gen.Skel.xmss_QRLDescriptor_GetBytes = "50c8b9cc8188d43e" := by decide
theorem xmss_QRLDescriptor_GetHeight : Gen.Skel.xmss_QRLDescriptor_GetHeight = "f5887d2079b315cc" := by decide
theorem xmss_QRLDescriptor_GetHashFunction : Gen.Skel.xmss_QRLDescriptor_GetHashFunction = "b42b1986e3505099" := by decide
theorem xmss_QRLDescriptor_GetSignatureType : Gen.Skel.xmss_QRLDescriptor_GetSignatureType = "5052505240649642" := by decide
theorem xmss_QRLDescriptor_GetAddrFormatType : Gen.Skel.xmss_QRLDescriptor_GetAddrFormatType = "ae2f4a711c1d9eae" := by decide
theorem misc_binToMnemonic : Gen.Skel.misc_binToMnemonic = "175900896d322972" := by decide
theorem misc_mnemonicToBin : Gen.Skel.misc_mnemonicToBin = "b42ca8a47ae2c142" := by decide
theorem misc_MnemonicToSeedBin : Gen.Skel.misc_MnemonicToSeedBin = "1552586b4474b064" := by decide
theorem misc_MnemonicToExtendedSeedBin : Gen.Skel.misc_MnemonicToExtendedSeedBin = "29be5f4de060e51e" := by decide
theorem misc_SeedBinToMnemonic : Gen.Skel.misc_SeedBinToMnemonic = "ad28731a816e077e" := by decide
theorem misc_ExtendedSeedBinToMnemonic : Gen.Skel.misc_ExtendedSeedBinToMnemonic = "ad28731a816e077e" := by decide
theorem dilithium_cryptoSignVerify : Gen.Skel.dilithium_cryptoSignVerify = "972d08317c6d8fd3" := by decide
theorem dilithium_cryptoSignOpen : Gen.Skel.dilithium_cryptoSignOpen = "89622acd6dd80546" := by decide
theorem dilithium_Verify : Gen.Skel.dilithium_Verify = "bd1b8a9f4e219406" := by decide
theorem dilithium_Open : Gen.Skel.dilithium_Open = "080540928a389c84" := by decide
theorem dilithium_unpackSig : Gen.Skel.dilithium_unpackSig = "d98159640ee8e521" := by decide
end Qrl.Tie.C14
