import QrlModel.Gen.Skeleton
/-! Tie obligations of C13: the canonical skeleton of every hand-modelled Go function this property's model
depends on must equal the digest the model was written against (tools/mk_tie.py). -/
namespace Qrl.Tie.C13
theorem dilithium_polyEtaPack : Gen.Skel.dilithium_polyEtaPack = "5f381a9dc3405348" := by decide
theorem dilithium_polyEtaUnpack : Gen.Skel.dilithium_polyEtaUnpack = "9a453d12d80d3a47" := by decide
theorem dilithium_polyT1Pack : Gen.Skel.dilithium_polyT1Pack = "f9a7f54ce92fd63a" := by decide
theorem dilithium_polyT1Unpack : Gen.Skel.dilithium_polyT1Unpack = "46e2308559a212aa" := by decide
theorem dilithium_polyT0Pack : Gen.Skel.dilithium_polyT0Pack = "7c63ba9c98988727" := by decide
theorem dilithium_polyT0Unpack : Gen.Skel.dilithium_polyT0Unpack = "7daca3da04d1070d" := by decide
theorem dilithium_polyZPack : Gen.Skel.dilithium_polyZPack = "52e92e68ef461d03" := by decide
theorem dilithium_polyZUnpack : Gen.Skel.dilithium_polyZUnpack = "964b3da4bd174a32" := by decide
theorem dilithium_polyW1Pack : Gen.Skel.dilithium_polyW1Pack = "a2d90dc7faf1ff8b" := by decide
theorem dilithium_packPk : Gen.Skel.dilithium_packPk = "fa714749a71bdf79" := by decide
theorem dilithium_unpackPk : Gen.Skel.dilithium_unpackPk = "f15d95eecdd5aabd" := by decide
theorem dilithium_packSk : Gen.Skel.dilithium_packSk = "2205b6cd1f711d0d" := by decide
theorem dilithium_unpackSk : Gen.Skel.dilithium_unpackSk = "5ea9e50b6225de21" := by decide
theorem dilithium_packSig : Gen.Skel.dilithium_packSig = "08c98b3187abfb9f" := by decide
theorem dilithium_unpackSig : Gen.Skel.dilithium_unpackSig = "d98159640ee8e521" := by decide
end Qrl.Tie.C13
