import QrlModel.Gen.Skeleton
/-! Tie obligations of C12: the canonical skeleton of every hand-modelled Go function this property's model
depends on must equal the digest the model was written against (tools/mk_tie.py). -/
namespace Qrl.Tie.C12
theorem dilithium_polyCAddQ : Gen.Skel.dilithium_polyCAddQ = "dda959fa4e4a646a" := by decide
theorem dilithium_polyReduce : Gen.Skel.dilithium_polyReduce = "06ba70464c099b71" := by decide
theorem dilithium_polyAdd : Gen.Skel.dilithium_polyAdd = "e32ba9c65da5a08b" := by decide
theorem dilithium_polySub : Gen.Skel.dilithium_polySub = "5ef121a1da029794" := by decide
theorem dilithium_polyShiftL : Gen.Skel.dilithium_polyShiftL = "295d9ae5e1d7b6c1" := by decide
theorem dilithium_polyNTT : Gen.Skel.dilithium_polyNTT = "63c777a7677efa99" := by decide
theorem dilithium_polyInvNTTToMont : Gen.Skel.dilithium_polyInvNTTToMont = "6ec4678fa09d9184" := by decide
theorem dilithium_polyPointWiseMontgomery : Gen.Skel.dilithium_polyPointWiseMontgomery = "8946da385bf72d5b" := by decide
theorem dilithium_polyPower2Round : Gen.Skel.dilithium_polyPower2Round = "864ee2faa53fe11e" := by decide
theorem dilithium_polyDecompose : Gen.Skel.dilithium_polyDecompose = "70afbe410571a404" := by decide
theorem dilithium_polyMakeHint : Gen.Skel.dilithium_polyMakeHint = "cd5dbfa0fa65a95b" := by decide
theorem dilithium_polyUseHint : Gen.Skel.dilithium_polyUseHint = "acd9f80fb2811853" := by decide
theorem dilithium_polyChkNorm : Gen.Skel.dilithium_polyChkNorm = "a398764ff7482fd2" := by decide
theorem dilithium_ntt : Gen.Skel.dilithium_ntt = "496a2de3d98bc739" := by decide
theorem dilithium_invNTTToMont : Gen.Skel.dilithium_invNTTToMont = "8b431cf4fe343052" := by decide
theorem dilithium_montgomeryReduce : Gen.Skel.dilithium_montgomeryReduce = "614df317a5bd22b3" := by decide
theorem dilithium_reduce32 : Gen.Skel.dilithium_reduce32 = "82111cbdf0abd009" := by decide
theorem dilithium_cAddQ : Gen.Skel.dilithium_cAddQ = "6d3944c952fe26a1" := by decide
theorem dilithium_power2Round : Gen.Skel.dilithium_power2Round = "1b7076bfb55b8d67" := by decide
theorem dilithium_decompose : Gen.Skel.dilithium_decompose = "f207cd650bdec422" := by decide
theorem dilithium_makeHint : Gen.Skel.dilithium_makeHint = "a38e9eb36a19ba9f" := by decide
theorem dilithium_useHint : Gen.Skel.dilithium_useHint = "11714d8ef81847a0" := by decide
end Qrl.Tie.C12
