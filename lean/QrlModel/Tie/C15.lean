import QrlModel.Gen.Skeleton
/-! Tie obligations of C15: the canonical skeleton of every hand-modelled Go function this property's model
depends on must equal the digest the model was written against (tools/mk_tie.py). -/
namespace Qrl.Tie.C15
end Qrl.Tie.C15
