import QrlModel.Gen.Skeleton
/-! Tie obligations of C10: the canonical skeleton of every hand-modelled Go function this property's model
depends on must equal the digest the model was written against (tools/mk_tie.py). -/
namespace Qrl.Tie.C10
theorem misc_binToMnemonic : Gen.Skel.misc_binToMnemonic = "175900896d322972" := by decide
theorem misc_mnemonicToBin : Gen.Skel.misc_mnemonicToBin = "b42ca8a47ae2c142" := by decide
theorem misc_MnemonicToSeedBin : Gen.Skel.misc_MnemonicToSeedBin = "1552586b4474b064" := by decide
theorem misc_MnemonicToExtendedSeedBin : Gen.Skel.misc_MnemonicToExtendedSeedBin = "29be5f4de060e51e" := by decide
theorem misc_SeedBinToMnemonic : Gen.Skel.misc_SeedBinToMnemonic = "ad28731a816e077e" := by decide
theorem misc_ExtendedSeedBinToMnemonic : Gen.Skel.misc_ExtendedSeedBinToMnemonic = "ad28731a816e077e" := by decide
end Qrl.Tie.C10
