import QrlModel.Gen.Skeleton
/-! Tie obligations of C04: the canonical skeleton of every hand-modelled Go function this property's model
depends on must equal the digest the model was written against (tools/mk_tie.py). -/
namespace Qrl.Tie.C04
theorem xmss_Verify : Gen.Skel.xmss_Verify = "8e0f78463aecd2c2" := by decide
theorem xmss_VerifyWithCustomWOTSParamW : Gen.Skel.xmss_VerifyWithCustomWOTSParamW = "224d9beed85b15bb" := by decide
theorem xmss_xmssVerifySig : Gen.Skel.xmss_xmssVerifySig = "de813c7bad02dba8" := by decide
theorem xmss_validateAuthPath : Gen.Skel.xmss_validateAuthPath = "0e886536f6a2c4f4" := by decide
theorem xmss_getHeightFromSigSize : Gen.Skel.xmss_getHeightFromSigSize = "5ededd66a65e0efc" := by decide
theorem xmss_calculateSignatureBaseSize : Gen.Skel.xmss_calculateSignatureBaseSize = "5b6fbc26c5b416b1" := by decide
theorem xmss_coreHash : Gen.Skel.xmss_coreHash = "f5ae2cf7e8c7ba3a" := by decide
theorem xmss_prf : Gen.Skel.xmss_prf = "10f4283789552e31" := by decide
theorem xmss_hashF : Gen.Skel.xmss_hashF = "a22eb7a0a589b6fa" := by decide
theorem xmss_hashH : Gen.Skel.xmss_hashH = "d4b6d60970fdbe7b" := by decide
theorem xmss_hMsg : Gen.Skel.xmss_hMsg = "02c8989bf78682e5" := by decide
theorem misc_SHAKE128 : Gen.Skel.misc_SHAKE128 = "56fc4d63b5f53114" := by decide
theorem misc_SHAKE256 : Gen.Skel.misc_SHAKE256 = "b590c564199c4c4d" := by decide
theorem misc_SHA256 : Gen.Skel.misc_SHA256 = "ab3df487f983c2a9" := by decide
theorem misc_AddrToByte : Gen.Skel.misc_AddrToByte = "55ac9d7fdd5b740f" := by decide
theorem misc_ToByteLittleEndian : Gen.Skel.misc_ToByteLittleEndian = "01692ae131c14562" := by decide
theorem misc_SetType : Gen.Skel.misc_SetType = "13df395292d574bf" := by decide
theorem misc_SetOTSAddr : Gen.Skel.misc_SetOTSAddr = "750f7b40ad72fdb8" := by decide
theorem misc_SetChainAddr : Gen.Skel.misc_SetChainAddr = "5a4a4659c7b30a9e" := by decide
theorem misc_SetHashAddr : Gen.Skel.misc_SetHashAddr = "6614ae3dc7c2e068" := by decide
theorem misc_SetLTreeAddr : Gen.Skel.misc_SetLTreeAddr = "750f7b40ad72fdb8" := by decide
theorem misc_SetTreeHeight : Gen.Skel.misc_SetTreeHeight = "5a4a4659c7b30a9e" := by decide
theorem misc_SetTreeIndex : Gen.Skel.misc_SetTreeIndex = "6614ae3dc7c2e068" := by decide
theorem misc_SetKeyAndMask : Gen.Skel.misc_SetKeyAndMask = "7a310198450b997c" := by decide
theorem misc_GetEndian : Gen.Skel.misc_GetEndian = "cc6d6d2dd8e4b527" := by decide
theorem xmss_genChain : Gen.Skel.xmss_genChain = "fea1e9da12083daa" := by decide
theorem xmss_expandSeed : Gen.Skel.xmss_expandSeed = "c0ad2b8902d25e44" := by decide
theorem xmss_wOTSPKGen : Gen.Skel.xmss_wOTSPKGen = "25673aefa9413418" := by decide
theorem xmss_wotsSign : Gen.Skel.xmss_wotsSign = "14b13fa0ea2b7aea" := by decide
theorem xmss_wotsPKFromSig : Gen.Skel.xmss_wotsPKFromSig = "103ac231c9757687" := by decide
theorem xmss_CalcBaseW : Gen.Skel.xmss_CalcBaseW = "ab53f49e2a55062d" := by decide
theorem xmss_lTree : Gen.Skel.xmss_lTree = "361764e444e70336" := by decide
theorem xmss_genLeafWOTS : Gen.Skel.xmss_genLeafWOTS = "dcc9df83c8ea0c9a" := by decide
theorem xmss_getSeed : Gen.Skel.xmss_getSeed = "02389ac7f3749b2c" := by decide
theorem xmss_NewWOTSParams : Gen.Skel.xmss_NewWOTSParams = "468960157756c9df" := by decide
theorem xmss_NewXMSSParams : Gen.Skel.xmss_NewXMSSParams = "7a59a6eb84ad3861" := by decide
theorem xmss_NewQRLDescriptor : Gen.Skel.xmss_NewQRLDescriptor = "c15c38899e5f2a3a" := by decide
theorem xmss_NewQRLDescriptorFromBytes : Gen.Skel.xmss_NewQRLDescriptorFromBytes = "9f4d0f4834f9e48d" := by decide
theorem xmss_LegacyQRLDescriptorFromBytes : Gen.Skel.xmss_LegacyQRLDescriptorFromBytes = "9f4d0f4834f9e48d" := by decide
theorem xmss_NewQRLDescriptorFromExtendedPK : Gen.Skel.xmss_NewQRLDescriptorFromExtendedPK = "0d06579e49c5ff80" := by decide
theorem xmss_NewQRLDescriptorFromExtendedSeed : Gen.Skel.xmss_NewQRLDescriptorFromExtendedSeed = "0d06579e49c5ff80" := by decide
theorem xmss_LegacyQRLDescriptorFromExtendedPK : Gen.Skel.xmss_LegacyQRLDescriptorFromExtendedPK = "d4c5a1104d09950b" := by decide
theorem xmss_QRLDescriptor_GetBytes : Gen.Skel.xmss_QRLDescriptor_GetBytes = "50c8b9cc8188d43e" := by decide
theorem xmss_QRLDescriptor_GetHeight : Gen.Skel.xmss_QRLDescriptor_GetHeight = "f5887d2079b315cc" := by decide
theorem xmss_QRLDescriptor_GetHashFunction : Gen.Skel.xmss_QRLDescriptor_GetHashFunction = "b42b1986e3505099" := by decide
theorem xmss_QRLDescriptor_GetSignatureType : Gen.Skel.xmss_QRLDescriptor_GetSignatureType = "5052505240649642" := by decide
theorem xmss_QRLDescriptor_GetAddrFormatType : Gen.Skel.xmss_QRLDescriptor_GetAddrFormatType = "ae2f4a711c1d9eae" := by decide
theorem misc_ToByteBigEndian : Gen.Skel.misc_ToByteBigEndian = "46159521b4343e77" := by decide
end Qrl.Tie.C04
