import QrlModel.Gen.Skeleton
/-! Tie obligations of C02: the canonical skeleton of every hand-modelled Go function this property's model
depends on must equal the digest the model was written against (tools/mk_tie.py). -/
namespace Qrl.Tie.C02
theorem xmss_initializeTree : Gen.Skel.xmss_initializeTree = "acc65e4f585e1401" := by decide
theorem xmss_NewXMSSFromSeed : Gen.Skel.xmss_NewXMSSFromSeed = "3b1f391d040e9bbb" := by decide
theorem xmss_NewXMSSFromExtendedSeed : Gen.Skel.xmss_NewXMSSFromExtendedSeed = "e112ec1b415ee130" := by decide
theorem xmss_NewXMSSFromHeight : Gen.Skel.xmss_NewXMSSFromHeight = "1c7e2fb1632adc89" := by decide
theorem xmss_XMSS_SetIndex : Gen.Skel.xmss_XMSS_SetIndex = "40a54625b65a84b2" := by decide
theorem xmss_XMSS_Sign : Gen.Skel.xmss_XMSS_Sign = "1f4ff9c831050cbc" := by decide
theorem xmss_XMSS_GetIndex : Gen.Skel.xmss_XMSS_GetIndex = "91ff38d4d8d37eb7" := by decide
theorem xmss_XMSS_GetPK : Gen.Skel.xmss_XMSS_GetPK = "58bbce6599c883b4" := by decide
theorem xmss_XMSS_GetRoot : Gen.Skel.xmss_XMSS_GetRoot = "e925de9546c541fa" := by decide
theorem xmss_XMSS_GetPKSeed : Gen.Skel.xmss_XMSS_GetPKSeed = "e9792de89c74ba51" := by decide
theorem xmss_XMSS_GetSeed : Gen.Skel.xmss_XMSS_GetSeed = "e570af7da70c5b3e" := by decide
theorem xmss_XMSS_GetExtendedSeed : Gen.Skel.xmss_XMSS_GetExtendedSeed = "a0c07a0b621fb815" := by decide
theorem xmss_XMSS_GetMnemonic : Gen.Skel.xmss_XMSS_GetMnemonic = "5c47856f6253d0bf" := by decide
theorem xmss_XMSS_GetAddress : Gen.Skel.xmss_XMSS_GetAddress = "63869eb890e5ee7c" := by decide
theorem xmss_XMSS_GetHexSeed : Gen.Skel.xmss_XMSS_GetHexSeed = "b934050a3f2ef41e" := by decide
theorem xmss_XMSS_GetSK : Gen.Skel.xmss_XMSS_GetSK = "dc0da7c2b2a486fe" := by decide
theorem xmss_XMSS_GetHeight : Gen.Skel.xmss_XMSS_GetHeight = "f5887d2079b315cc" := by decide
theorem xmss_XMSS_GetLegacyAddress : Gen.Skel.xmss_XMSS_GetLegacyAddress = "6b7d759d24874333" := by decide
theorem xmss_xmssFastUpdate : Gen.Skel.xmss_xmssFastUpdate = "977a98fba95d6187" := by decide
theorem xmss_xmssFastSignMessage : Gen.Skel.xmss_xmssFastSignMessage = "9fbd25ca9c57ed8c" := by decide
theorem xmss_getSignatureSize : Gen.Skel.xmss_getSignatureSize = "6394463e108edd14" := by decide
theorem xmss_calculateSignatureBaseSize : Gen.Skel.xmss_calculateSignatureBaseSize = "5b6fbc26c5b416b1" := by decide
theorem xmss_XMSSFastGenKeyPair : Gen.Skel.xmss_XMSSFastGenKeyPair = "0898933c14de7e5c" := by decide
end Qrl.Tie.C02
