import QrlModel.Gen.Skeleton
/-! Tie obligations of C09: the canonical skeleton of every hand-modelled Go function this property's model
depends on must equal the digest the model was written against (tools/mk_tie.py). -/
namespace Qrl.Tie.C09
theorem xmss_NewQRLDescriptor : Gen.Skel.xmss_NewQRLDescriptor = "c15c38899e5f2a3a" := by decide
theorem xmss_NewQRLDescriptorFromBytes : Gen.Skel.xmss_NewQRLDescriptorFromBytes = "9f4d0f4834f9e48d" := by decide
theorem xmss_LegacyQRLDescriptorFromBytes : Gen.Skel.xmss_LegacyQRLDescriptorFromBytes = "9f4d0f4834f9e48d" := by decide
theorem xmss_NewQRLDescriptorFromExtendedPK : Gen.Skel.xmss_NewQRLDescriptorFromExtendedPK = "0d06579e49c5ff80" := by decide
theorem xmss_NewQRLDescriptorFromExtendedSeed : Gen.Skel.xmss_NewQRLDescriptorFromExtendedSeed = "0d06579e49c5ff80" := by decide
theorem xmss_LegacyQRLDescriptorFromExtendedPK : Gen.Skel.xmss_LegacyQRLDescriptorFromExtendedPK = "d4c5a1104d09950b" := by decide
theorem xmss_QRLDescriptor_GetBytes : Gen.Skel.xmss_QRLDescriptor_GetBytes = "50c8b9cc8188d43e" := by decide
theorem xmss_QRLDescriptor_GetHeight : Gen.Skel.xmss_QRLDescriptor_GetHeight = "f5887d2079b315cc" := by decide
theorem xmss_QRLDescriptor_GetHashFunction : Gen.Skel.xmss_QRLDescriptor_GetHashFunction = "b42b1986e3505099" := by decide
theorem xmss_QRLDescriptor_GetSignatureType : Gen.Skel.xmss_QRLDescriptor_GetSignatureType = "5052505240649642" := by decide
theorem xmss_QRLDescriptor_GetAddrFormatType : Gen.Skel.xmss_QRLDescriptor_GetAddrFormatType = "ae2f4a711c1d9eae" := by decide
theorem xmss_initializeTree : Gen.Skel.xmss_initializeTree = "acc65e4f585e1401" := by decide
theorem xmss_NewXMSSFromSeed : Gen.Skel.xmss_NewXMSSFromSeed = "3b1f391d040e9bbb" := by decide
theorem xmss_NewXMSSFromExtendedSeed : Gen.Skel.xmss_NewXMSSFromExtendedSeed = "e112ec1b415ee130" := by decide
theorem xmss_NewXMSSFromHeight : Gen.Skel.xmss_NewXMSSFromHeight = "1c7e2fb1632adc89" := by decide
theorem xmss_XMSS_SetIndex : Gen.Skel.xmss_XMSS_SetIndex = "40a54625b65a84b2" := by decide
theorem xmss_XMSS_Sign : Gen.Skel.xmss_XMSS_Sign = "1f4ff9c831050cbc" := by decide
theorem xmss_XMSS_GetIndex : Gen.Skel.xmss_XMSS_GetIndex = "91ff38d4d8d37eb7" := by decide
theorem xmss_XMSS_GetPK : Gen.Skel.xmss_XMSS_GetPK = "58bbce6599c883b4" := by decide
theorem xmss_XMSS_GetRoot : Gen.Skel.xmss_XMSS_GetRoot = "e925de9546c541fa" := by decide
theorem xmss_XMSS_GetPKSeed : Gen.Skel.xmss_XMSS_GetPKSeed = "e9792de89c74ba51" := by decide
theorem xmss_XMSS_GetSeed : Gen.Skel.xmss_XMSS_GetSeed = "e570af7da70c5b3e" := by decide
theorem xmss_XMSS_GetExtendedSeed : Gen.Skel.xmss_XMSS_GetExtendedSeed = "a0c07a0b621fb815" := by decide
theorem xmss_XMSS_GetMnemonic : Gen.Skel.xmss_XMSS_GetMnemonic = "5c47856f6253d0bf" := by decide
theorem xmss_XMSS_GetAddress : Gen.Skel.xmss_XMSS_GetAddress = "63869eb890e5ee7c" := by decide
theorem xmss_XMSS_GetHexSeed : Gen.Skel.xmss_XMSS_GetHexSeed = "b934050a3f2ef41e" := by decide
theorem xmss_XMSS_GetSK : Gen.Skel.xmss_XMSS_GetSK = "dc0da7c2b2a486fe" := by decide
theorem xmss_XMSS_GetHeight : Gen.Skel.xmss_XMSS_GetHeight = "f5887d2079b315cc" := by decide
theorem xmss_XMSS_GetLegacyAddress : Gen.Skel.xmss_XMSS_GetLegacyAddress = "6b7d759d24874333" := by decide
theorem xmss_xmssFastUpdate : Gen.Skel.xmss_xmssFastUpdate = "977a98fba95d6187" := by decide
theorem xmss_xmssFastSignMessage : Gen.Skel.xmss_xmssFastSignMessage = "9fbd25ca9c57ed8c" := by decide
theorem xmss_getSignatureSize : Gen.Skel.xmss_getSignatureSize = "6394463e108edd14" := by decide
theorem xmss_calculateSignatureBaseSize : Gen.Skel.xmss_calculateSignatureBaseSize = "5b6fbc26c5b416b1" := by decide
theorem dilithium_New : Gen.Skel.dilithium_New = "0f065127349607f5" := by decide
theorem dilithium_NewDilithiumFromMnemonic : Gen.Skel.dilithium_NewDilithiumFromMnemonic = "6dfddddde3741f6a" := by decide
theorem dilithium_NewDilithiumFromHexSeed : Gen.Skel.dilithium_NewDilithiumFromHexSeed = "1a04a68579e6331d" := by decide
theorem dilithium_Dilithium_GetHexSeed : Gen.Skel.dilithium_Dilithium_GetHexSeed = "0f4280944eb2962f" := by decide
theorem dilithium_Dilithium_GetMnemonic : Gen.Skel.dilithium_Dilithium_GetMnemonic = "a48749df7c2a63ac" := by decide
theorem dilithium_Dilithium_GetSeed : Gen.Skel.dilithium_Dilithium_GetSeed = "e570af7da70c5b3e" := by decide
theorem dilithium_Dilithium_GetPK : Gen.Skel.dilithium_Dilithium_GetPK = "50f8a543fc2cff1c" := by decide
theorem dilithium_Dilithium_GetSK : Gen.Skel.dilithium_Dilithium_GetSK = "dc0da7c2b2a486fe" := by decide
theorem dilithium_Dilithium_GetAddress : Gen.Skel.dilithium_Dilithium_GetAddress = "e46fcc98cedbf38e" := by decide
theorem misc_binToMnemonic : Gen.Skel.misc_binToMnemonic = "175900896d322972" := by decide
theorem misc_mnemonicToBin : Gen.Skel.misc_mnemonicToBin = "b42ca8a47ae2c142" := by decide
theorem misc_MnemonicToSeedBin : Gen.Skel.misc_MnemonicToSeedBin = "1552586b4474b064" := by decide
theorem misc_MnemonicToExtendedSeedBin : Gen.Skel.misc_MnemonicToExtendedSeedBin = "29be5f4de060e51e" := by decide
theorem misc_SeedBinToMnemonic : Gen.Skel.misc_SeedBinToMnemonic = "ad28731a816e077e" := by decide
theorem misc_ExtendedSeedBinToMnemonic : Gen.Skel.misc_ExtendedSeedBinToMnemonic = "ad28731a816e077e" := by decide
end Qrl.Tie.C09
