import QrlModel.Gen.Skeleton
/-! Tie obligations of C16: the canonical skeleton of every hand-modelled Go function this property's model
depends on must equal the digest the model was written against (tools/mk_tie.py). -/
namespace Qrl.Tie.C16
theorem xmssjs_XMSSVerify : Gen.Skel.xmssjs_XMSSVerify = "83fbbe072641e15a" := by decide
theorem xmssjs_GetXMSSAddressFromPK : Gen.Skel.xmssjs_GetXMSSAddressFromPK = "cffa44874e94e5af" := by decide
theorem xmssjs_IsValidXMSSAddress : Gen.Skel.xmssjs_IsValidXMSSAddress = "ca5ddfadffe65604" := by decide
theorem dilithiumjs_DilithiumVerify : Gen.Skel.dilithiumjs_DilithiumVerify = "d3f94a4310f15ed4" := by decide
theorem dilithiumjs_GetDilithiumAddressFromPK : Gen.Skel.dilithiumjs_GetDilithiumAddressFromPK = "dd8eeea88bb99448" := by decide
theorem dilithiumjs_IsValidDilithiumAddress : Gen.Skel.dilithiumjs_IsValidDilithiumAddress = "1c2621bcfc2a3521" := by decide
theorem dilithiumjs_clearPrefix0x : Gen.Skel.dilithiumjs_clearPrefix0x = "6cec2404e4ceb690" := by decide
theorem xmssjs_clearPrefix0x : Gen.Skel.xmssjs_clearPrefix0x = "6cec2404e4ceb690" := by decide
end Qrl.Tie.C16
