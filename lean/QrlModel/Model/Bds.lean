/-! Generic model of the BDS tree traversal of `xmss/xmss_fast.go` (k = 2), polymorphic in the node
type `α`: `treeHashSetup`, `bdsRound`, `bdsTreeHashUpdate`, `treeHashMinHeightOnStack`, `treeHashUpdate`.
The control flow uses only heights, indices and counters — never node values — which is what makes
the label-level theorems of `Proofs/BdsLabel` apply to every seed and hash function. Core-only. -/
namespace Qrl.Bds

/-- node operations: leaf generation and inner-node hashing `H height index left right`
(`height` is the height of the children, `index` the index of the parent at `height+1`). -/
structure Ops (α : Type) where
  zero : α
  leaf : Nat → α
  H : Nat → Nat → α → α → α

structure TH (α : Type) where
  h : Nat
  nextIdx : Nat
  stackUsage : Nat
  completed : Nat
  node : α
  deriving DecidableEq, Repr

structure St (α : Type) where
  stack : List α
  stackOffset : Nat
  stackLevels : List Nat
  auth : List α
  keep : List α
  treeHash : List (TH α)
  retain : List α
  deriving DecidableEq, Repr

def K : Nat := 2

/-- index of the sibling of node `n` at its level -/
def sib (n : Nat) : Nat := if n % 2 = 0 then n + 1 else n - 1

variable {α : Type} (o : Ops α)

def thZero : TH α := ⟨0, 0, 0, 0, o.zero⟩

/-- `NewBDSState(h, n, k)` -/
def newState (h : Nat) : St α :=
  { stack := List.replicate (h+1) o.zero, stackOffset := 0, stackLevels := List.replicate (h+1) 0,
    auth := List.replicate h o.zero, keep := List.replicate (h/2) o.zero,
    treeHash := List.replicate (h-K) (thZero o), retain := List.replicate ((1 <<< K) - K - 1) o.zero }

def modTH (l : List (TH α)) (i : Nat) (f : TH α → TH α) : List (TH α) :=
  l.set i (f (l.getD i (thZero o)))

/-- inner merge loop of `treeHashSetup` (local stack `stack`/`lv`/`off`); `fuel` bounds the iterations. -/
def setupMerge (h i index : Nat) : Nat → (List α × List Nat × Nat × St α) → (List α × List Nat × Nat × St α)
  | 0, x => x
  | fuel+1, (stack, lv, off, s) =>
    if off > 1 ∧ lv.getD (off-1) 0 = lv.getD (off-2) 0 then
      let nodeH := lv.getD (off-1) 0
      let top := stack.getD (off-1) o.zero
      let s :=
        if i >>> nodeH = 1 then { s with auth := s.auth.set nodeH top }
        else if nodeH < h - K ∧ i >>> nodeH = 3 then
          { s with treeHash := modTH o s.treeHash nodeH (fun t => { t with node := top }) }
        else if nodeH ≥ h - K then
          let r := (1 <<< (h - 1 - nodeH)) + nodeH - h + (((i >>> nodeH) - 3) >>> 1)
          { s with retain := s.retain.set r top }
        else s
      let nh := o.H nodeH (index >>> (nodeH+1)) (stack.getD (off-2) o.zero) top
      setupMerge h i index fuel (stack.set (off-2) nh, lv.set (off-2) (nodeH+1), off-1, s)
    else (stack, lv, off, s)

def setupLoop (h : Nat) : Nat → Nat → (List α × List Nat × Nat × St α) → (List α × List Nat × Nat × St α)
  | 0, _, x => x
  | n+1, idx, (stack, lv, off, s) =>
    let stack := stack.set off (o.leaf idx)
    let lv := lv.set off 0
    let off := off + 1
    -- `copy(treeHash[0].node, stack[stackOffset*n:])` at i == 3 reads the slot above the top of the stack
    let s := if h - K > 0 ∧ idx = 3 then
        { s with treeHash := modTH o s.treeHash 0 (fun t => { t with node := stack.getD off o.zero }) } else s
    let x := setupMerge o h idx idx (h+1) (stack, lv, off, s)
    setupLoop h n (idx+1) x

/-- `treeHashSetup` from index 0: returns the traversal state and the root. -/
def treeHashSetup (h : Nat) : St α × α :=
  let s0 := newState o h
  -- `for i < h-k { treeHash[i].h = i; completed = 1; stackUsage = 0 }` on the freshly allocated instances
  let s0 := (List.range (h - K)).foldl (fun s i =>
    { s with treeHash := modTH o s.treeHash i (fun t => { t with h := i, completed := 1, stackUsage := 0 }) }) s0
  let (stack, _, _, s) := setupLoop o h (2^h) 0 (List.replicate (h+1) o.zero, List.replicate (h+1) 0, 0, s0)
  (s, stack.getD 0 o.zero)

def tauOf (h leafIdx : Nat) : Nat → Nat → Nat
  | 0, _ => h
  | f+1, i => if (leafIdx >>> i) % 2 = 0 then i else tauOf h leafIdx f (i+1)

def bdsRound (h : Nat) (s : St α) (leafIdx : Nat) : St α :=
  let tau := tauOf h leafIdx h 0
  let buf0 := if tau > 0 then s.auth.getD (tau-1) o.zero else o.zero
  let buf1 := if tau > 0 then s.keep.getD ((tau-1) >>> 1) o.zero else o.zero
  let s := if (leafIdx >>> (tau+1)) % 2 = 0 ∧ tau < h - 1 then
      { s with keep := s.keep.set (tau >>> 1) (s.auth.getD tau o.zero) } else s
  if tau = 0 then { s with auth := s.auth.set 0 (o.leaf leafIdx) }
  else
    let s := { s with auth := s.auth.set tau (o.H (tau-1) (leafIdx >>> tau) buf0 buf1) }
    let s := (List.range tau).foldl (fun s i =>
      if i < h - K then { s with auth := s.auth.set i ((s.treeHash.getD i (thZero o)).node) }
      else
        let offset := (1 <<< (h - 1 - i)) + i - h
        let rowIdx := ((leafIdx >>> i) - 1) >>> 1
        { s with auth := s.auth.set i (s.retain.getD (offset + rowIdx) o.zero) }) s
    let cmp := if tau < h - K then tau else h - K
    (List.range cmp).foldl (fun s i =>
      let startIdx := leafIdx + 1 + 3 * (1 <<< i)
      if startIdx < 1 <<< h then
        { s with treeHash := modTH o s.treeHash i (fun t => { t with h := i, nextIdx := startIdx, completed := 0, stackUsage := 0 }) }
      else s) s

def minHeightOnStack (h : Nat) (s : St α) (t : TH α) : Nat :=
  (List.range t.stackUsage).foldl (fun r i =>
    let l := s.stackLevels.getD (s.stackOffset - i - 1) 0
    if l < r then l else r) h

/-- merge loop of `treeHashUpdate`: (node, nodeHeight, stackUsage, stackOffset) -/
def thMerge (s : St α) (nextIdx : Nat) : Nat → (α × Nat × Nat × Nat) → (α × Nat × Nat × Nat)
  | 0, x => x
  | f+1, (node, nodeHeight, usage, off) =>
    if usage > 0 ∧ s.stackLevels.getD (off-1) 0 = nodeHeight then
      let n := o.H nodeHeight (nextIdx >>> (nodeHeight+1)) (s.stack.getD (off-1) o.zero) node
      thMerge s nextIdx f (n, nodeHeight+1, usage-1, off-1)
    else (node, nodeHeight, usage, off)

def treeHashUpdate (h : Nat) (s : St α) (level : Nat) : St α :=
  let t := s.treeHash.getD level (thZero o)
  let (node, nodeHeight, usage, off) := thMerge o s t.nextIdx (h+1) (o.leaf t.nextIdx, 0, t.stackUsage, s.stackOffset)
  if nodeHeight = t.h then
    { s with stackOffset := off,
             treeHash := s.treeHash.set level { t with stackUsage := usage, node := node, completed := 1 } }
  else
    { s with stack := s.stack.set off node, stackLevels := s.stackLevels.set off nodeHeight, stackOffset := off + 1,
             treeHash := s.treeHash.set level { t with stackUsage := usage + 1, nextIdx := t.nextIdx + 1 } }

def pickLevel (h : Nat) (s : St α) : Nat :=
  let r := (List.range (h-K)).foldl (fun (acc : Nat × Nat) i =>
    let t := s.treeHash.getD i (thZero o)
    let low := if t.completed = 1 then h else if t.stackUsage = 0 then i else minHeightOnStack h s t
    if low < acc.2 then (i, low) else acc) (h-K, h)
  r.1

def bdsTreeHashUpdate (h : Nat) : Nat → St α → St α
  | 0, s => s
  | u+1, s =>
    let level := pickLevel o h s
    if level = h - K then s else bdsTreeHashUpdate h u (treeHashUpdate o h s level)

/-- the traversal step performed after signing index `idx` (and, as a separate copy in the Go code,
for every skipped index in `xmssFastUpdate`). -/
def step (h : Nat) (s : St α) (idx : Nat) : St α :=
  bdsTreeHashUpdate o h ((h-K) >>> 1) (bdsRound o h s idx)

/-- `n` consecutive traversal steps for indices `j, j+1, …` (the loop of `xmssFastUpdate`). -/
def fastForward (h : Nat) : Nat → Nat → St α → St α
  | 0, _, s => s
  | n+1, j, s => fastForward h n (j+1) (step o h s j)

end Qrl.Bds
