import QrlModel.Model.Dilithium
import QrlModel.Model.Hex
import QrlModel.Model.Mnemonic
/-! Constructors of `dilithium/dilithium.go`: all funnel into `NewDilithiumFromSeed`. -/
namespace Qrl.Dil
section
variable (shake128 shake256 : Bytes → Nat → Bytes)

/-- `NewDilithiumFromSeed(seed48)`: key pair from SHAKE256(seed)[0:32] -/
def fromSeed (seed : Bytes) : KeyPair := keypair shake128 shake256 (shake256 seed 32)

/-- `NewDilithiumFromHexSeed(hexSeed)` (no 0x prefix) -/
def fromHexSeed (hs : Bytes) : Outcome KeyPair :=
  match Hex.hexDecode hs with
  | none => .refuse "hexseed-decode"
  | some b => if b.length ≠ 48 then .refuse "hexseed-size" else .ok (fromSeed shake128 shake256 b)

/-- `NewDilithiumFromMnemonic(mnemonic)` -/
def fromMnemonic (m : Bytes) : Outcome KeyPair :=
  match Mnemonic.mnemonicToSeedBin m with
  | .ok s => .ok (fromSeed shake128 shake256 s)
  | .refuse c => .refuse c
  | .fault w => .fault w

/-- `GetHexSeed()` -/
def hexSeedOf (seed : Bytes) : Bytes := Hex.pfx0x ++ Hex.hexEncode seed
end
end Qrl.Dil
