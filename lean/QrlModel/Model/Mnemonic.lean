import QrlModel.Model.Basic
import QrlModel.Gen.Words
/-! Model of the mnemonic codec of `misc/helper.go` over the generated word list. Go strings are byte
strings; a phrase is modelled as `Bytes`. -/
namespace Qrl.Mnemonic

/-- the word table as byte strings, from the regenerated `qrl.WordList`. -/
def wordsB : List Bytes := Gen.words.map (fun w => w.map UInt8.ofNat)

def space : UInt8 := 32

/-- 12-bit groups of a byte string whose length is a multiple of 3: each 3 bytes `a b c` give
`(a << 4) + (b >> 4)` and `((b & 0xf) << 8) + c` — what the nibble-indexed loop of `binToMnemonic`
computes (nibble = 0, 3, 6, …; `p = nibble/2`; even/odd nibble cases). Other lengths are refused before. -/
def groups : Bytes → List Nat
  | a :: b :: c :: rest => ((a.toNat <<< 4) + (b.toNat >>> 4)) :: (((b.toNat % 16) <<< 8) + c.toNat) :: groups rest
  | _ => []

def joinWords : List Bytes → Bytes
  | [] => []
  | [w] => w
  | w :: rest => w ++ space :: joinWords rest

/-- `binToMnemonic` -/
def binToMnemonic (input : Bytes) : Outcome Bytes :=
  if input.length % 3 ≠ 0 then .refuse "mnemonic-bytes" else
  .ok (joinWords ((groups input).map (fun g => wordsB.getD g [])))

/-- `strings.Split(s, " ")` -/
def splitOnSpace (s : Bytes) : List Bytes :=
  let r := s.foldl (fun (acc : List Bytes × Bytes) c =>
    if c = space then (acc.2.reverse :: acc.1, []) else (acc.1, c :: acc.2)) ([], [])
  (r.2.reverse :: r.1).reverse

/-- the lookup map built by `wordLookup[word] = i` in index order: a later duplicate wins. -/
def lookup (w : Bytes) : Option Nat :=
  wordsB.zipIdx.foldl (fun acc (x, i) => if x = w then some i else acc) none

structure DecSt where
  current : Nat := 0
  buffering : Nat := 0
  out : Bytes := []          -- result[0 .. resultIndex)
  deriving Repr

/-- the inner `for buffering > 2` loop; writes go through the bounds check of `result[resultIndex]`. -/
def drain (cap : Nat) : Nat → DecSt → Outcome DecSt
  | 0, s => .ok s
  | f+1, s =>
    if s.buffering > 2 then
      let shift := 4 * (s.buffering - 2)
      let tmp := s.current >>> shift
      if s.out.length < cap then
        drain cap f { current := s.current % (2 ^ shift), buffering := s.buffering - 2,
                      out := s.out ++ [UInt8.ofNat tmp] }
      else .fault "result[resultIndex]"
    else .ok s

/-- body of the `for _, w := range mnemonicWords` loop -/
def decWord (cap : Nat) (acc : Outcome DecSt) (w : Bytes) : Outcome DecSt :=
  match acc with
  | .ok s =>
    match lookup w with
    | none => .refuse "mnemonic-word"
    | some v => drain cap 4 { s with buffering := s.buffering + 3, current := (s.current <<< 12) + v }
  | e => e

/-- the final `if buffering > 0 { result[resultIndex] = uint8(current & 0xFF) }` and `return result` -/
def decFlush (cap : Nat) (s : DecSt) : Outcome Bytes :=
  if s.buffering > 0 then
    if s.out.length < cap then
      .ok (s.out ++ [UInt8.ofNat (s.current % 256)] ++ zeros (cap - s.out.length - 1))
    else .fault "result[resultIndex]"
  else .ok (s.out ++ zeros (cap - s.out.length))

/-- `mnemonicToBin` -/
def mnemonicToBin (m : Bytes) : Outcome Bytes :=
  let ws := splitOnSpace m
  if ws.length % 2 ≠ 0 then .refuse "mnemonic-odd" else
  let cap := ws.length * 15 / 10
  match ws.foldl (decWord cap) (.ok {}) with
  | .ok s => decFlush cap s
  | .refuse c => .refuse c
  | .fault w => .fault w

def mnemonicToSized (size : Nat) (m : Bytes) : Outcome Bytes := do
  let o ← mnemonicToBin m
  if o.length ≠ size then .refuse "mnemonic-size" else pure o

def mnemonicToSeedBin := mnemonicToSized 48
def mnemonicToExtendedSeedBin := mnemonicToSized 51

end Qrl.Mnemonic
