import QrlModel.Model.Xmss
import QrlModel.Model.Bds
import QrlModel.Model.Address
/-! The stateful XMSS key object (`XMSS` in xmss.go), signing, index updates and verification. -/
namespace Qrl.Xmss
open Qrl.Bds

structure Key where
  h : Nat
  hf : Nat
  desc : Desc
  seed : Bytes          -- 48 bytes
  sk : Bytes            -- 132 bytes: idx(4) ‖ SK_SEED ‖ SK_PRF ‖ PUB_SEED ‖ root
  bds : St Bytes
  deriving Repr, DecidableEq

def Key.skSeed (k : Key) : Bytes := (k.sk.drop 4).take 32
def Key.skPRF (k : Key) : Bytes := (k.sk.drop 36).take 32
def Key.pubSeed (k : Key) : Bytes := (k.sk.drop 68).take 32
def Key.root (k : Key) : Bytes := (k.sk.drop 100).take 32
/-- `GetIndex`: big-endian decode of `sk[0..3]`. -/
def indexOf (sk : Bytes) : Nat :=
  (sk.getD 0 0).toNat * 16777216 + (sk.getD 1 0).toNat * 65536 + (sk.getD 2 0).toNat * 256 + (sk.getD 3 0).toNat
def Key.index (k : Key) : Nat := indexOf k.sk
def setIdxBytes (sk : Bytes) (i : Nat) : Bytes := toBytesBE i 4 ++ sk.drop 4
def Key.pk (k : Key) : Bytes := k.desc.bytes ++ k.root ++ k.pubSeed
def Key.extendedSeed (k : Key) : Bytes := k.desc.bytes ++ k.seed

section
variable (hashOf : Nat → Bytes → Bytes) (shake256 : Bytes → Nat → Bytes)

def opsFor (hf : Nat) (skSeed pubSeed : Bytes) : Ops Bytes :=
  { zero := zeros 32
    leaf := fun i => genLeafWOTS (hashOf hf) wp16 skSeed pubSeed i
    H := fun ht idx l r => nodeH (hashOf hf) pubSeed ht idx l r }

/-- `initializeTree` / `XMSSFastGenKeyPair` -/
def initializeTree (desc : Desc) (seed : Bytes) : Outcome Key :=
  let h := desc.height
  if 2 ≥ h ∨ (h - 2) % 2 = 1 then .refuse "params" else
  let rb := shake256 seed 96
  let skSeed := rb.take 32
  let pubSeed := (rb.drop 64).take 32
  let (st, root) := treeHashSetup (opsFor hashOf desc.hashFn skSeed pubSeed) h
  .ok { h := h, hf := desc.hashFn, desc := desc, seed := seed, sk := zeros 4 ++ rb ++ root, bds := st }

/-- `NewXMSSFromSeed` -/
def newFromSeed (seed : Bytes) (height hf addrFmt : Nat) : Outcome Key :=
  if height > 30 then .refuse "height" else
  initializeTree hashOf shake256 ⟨hf, 0, height, addrFmt⟩ seed

/-- `NewXMSSFromExtendedSeed` (51 bytes) -/
def newFromExtendedSeed (es : Bytes) : Outcome Key :=
  initializeTree hashOf shake256 (Desc.ofPrefix es) (es.drop 3)

def Key.ops (k : Key) : Ops Bytes := opsFor hashOf k.hf k.skSeed k.pubSeed

/-- `SetIndex` / `xmssFastUpdate` -/
def setIndex (k : Key) (newIdx : Nat) : Outcome Key :=
  let cur := k.index
  if newIdx ≥ 2 ^ k.h then .refuse "index-high"
  else if newIdx < cur then .refuse "rewind"
  else .ok { k with bds := Bds.fastForward (k.ops hashOf) k.h (newIdx - cur) cur k.bds, sk := setIdxBytes k.sk newIdx }

/-- `Sign` = `SetIndex(GetIndex())` then `xmssFastSignMessage` -/
def sign (k : Key) (msg : Bytes) : Outcome (Key × Bytes) := do
  let k ← setIndex hashOf k k.index
  let hash := hashOf k.hf
  let idx := k.index
  let r := prf hash (toBytesBE idx 32) k.skPRF
  let hashKey := r ++ k.root ++ toBytesBE idx 32
  let msgHash := hMsg hash msg hashKey
  let otsSeed := getSeed hash k.skSeed idx
  let wsig ← wotsSign hash wp16 msgHash otsSeed k.pubSeed idx
  let sig := toBytesBE idx 4 ++ r ++ wsig.flatten ++ (k.bds.auth.take k.h).flatten
  let bds := if idx < 2 ^ k.h - 1 then step (k.ops hashOf) k.h k.bds idx else k.bds
  pure ({ k with sk := setIdxBytes k.sk ((idx + 1) % 4294967296), bds := bds }, sig)

/-- `count` consecutive 32-byte slices `l[off:off+32], l[off+32:off+64], …`, each with its bounds check. -/
def slicesO (l : Bytes) (what : String) : Nat → Nat → Outcome (List Bytes)
  | 0, _ => .ok []
  | n+1, off =>
    match sliceO l off (off+32) what with
    | .ok s =>
      match slicesO l what n (off+32) with
      | .ok rest => .ok (s :: rest)
      | .refuse c => .refuse c
      | .fault w => .fault w
    | .refuse c => .refuse c
    | .fault w => .fault w

/-- `xmssVerifySig` with the bounds checks of every slice expression. -/
def verifySig (hf : Nat) (p : WParams) (msg sig pk : Bytes) (h : Nat) : Outcome Bool := do
  let hash := hashOf hf
  let pubSeed ← sliceO pk 32 64 "pk[n:2n]"
  let i0 ← getO sig 0 "sigMsg[0]"
  let i1 ← getO sig 1 "sigMsg[1]"
  let i2 ← getO sig 2 "sigMsg[2]"
  let i3 ← getO sig 3 "sigMsg[3]"
  let idx := i0.toNat * 16777216 + i1.toNat * 65536 + i2.toNat * 256 + i3.toNat
  let r ← sliceO sig 4 36 "sigMsg[4:4+n]"
  let root ← sliceO pk 0 32 "pk[:n]"
  let hashKey := r ++ root ++ toBytesBE idx 32
  let msgHash := hMsg hash msg hashKey
  let wots ← sliceO sig 36 sig.length "sigMsg[36:]"
  -- wotsPKFromSig slices sig[offset:offset+n] for every chain
  let chains ← slicesO wots "wots sig chain" p.len 0
  let wpk ← wotsPKFromSig hash p chains msgHash pubSeed idx
  let leaf := lTree hash pubSeed idx p.len 0 wpk
  let authB ← sliceO sig (36 + p.keySize) sig.length "sigMsg[36+keySize:]"
  let auth ← slicesO authB "authpath" h 0
  let root' := validateAuthPath hash pubSeed leaf idx auth
  pure (root' == root)

def supportedHash (hf : Nat) : Bool := hf == 0 || hf == 1 || hf == 2

/-- `VerifyWithCustomWOTSParamW` for w ∈ {4, 16, 256}; `epk` is the 67-byte extended public key. -/
def verifyW (msg sig epk : Bytes) (w : Nat) : Outcome Bool :=
  match wparams? w with
  | none => .refuse "logW"
  | some p =>
    let base := 4 + 32 + p.keySize
    if sig.length > base + 30 * 32 then .refuse "sig-size" else
    let d := Desc.ofPrefix epk
    if d.sigType ≠ 0 then .refuse "sig-type" else
    if sig.length < base then .refuse "sig-size" else
    if (sig.length - 4) % 32 ≠ 0 then .refuse "sig-size" else
    let height := (sig.length - base) / 32
    if height = 0 ∨ d.height ≠ height then .ok false else
    if !supportedHash d.hashFn then .ok false else
    if 2 ≥ height ∨ (height - 2) % 2 = 1 then .refuse "params" else
    verifySig hashOf d.hashFn p msg sig (epk.drop 3) height

def verify (msg sig epk : Bytes) : Outcome Bool := verifyW hashOf msg sig epk 16

/-- A valid (message, signature, public key) triple for a tree of height `h` that is never built: a genuine WOTS key at
leaf `idx`, an arbitrary authentication path `auth` (its `h` nodes *define* the rest of the tree), the root that path
leads to, and a WOTS signature on the message hash under that root. Used by the harness to obtain triples the
verifier must accept at heights where generating a key (2^h leaves) is out of reach, and for the Winternitz parameters
4 and 256, with which the library itself never signs. -/
def craft (p : WParams) (hf h idx : Nat) (msg otsSeed pubSeed r : Bytes) (auth : List Bytes) : Outcome (Bytes × Bytes) := do
  let hash := hashOf hf
  let wpk := wotsPKGen hash p otsSeed pubSeed idx
  let leaf := lTree hash pubSeed idx p.len 0 wpk
  let root := validateAuthPath hash pubSeed leaf idx (auth.take h)
  let msgHash := hMsg hash msg (r ++ root ++ toBytesBE idx 32)
  let wsig ← wotsSign hash p msgHash otsSeed pubSeed idx
  pure (toBytesBE idx 4 ++ r ++ wsig.flatten ++ (auth.take h).flatten, Desc.bytes ⟨hf, 0, h, 0⟩ ++ root ++ pubSeed)

end
end Qrl.Xmss
