import QrlModel.Model.Basic
import QrlModel.Gen.DilConst
import QrlModel.Gen.DilScalar
import QrlModel.Gen.DilLanes
/-! Structural model of `dilithium/` (poly.go, polyvec.go, ntt.go, packing.go, sign.go). Coefficients
are `BitVec 32` with Go's wrap-around semantics; every scalar function and every packer lane is the
*generated* definition (`Gen.Dil.*`), so theorems about them are re-checked against today's source.
XOFs are parameters: `shake128/256 msg n` = the first `n` output bytes. -/
namespace Qrl.Dil
open Gen.Dil

abbrev Coeff := BitVec 32
abbrev Poly := List Coeff

def N : Nat := 256
def zeroPoly : Poly := List.replicate N 0#32

def zeta (k : Nat) : Coeff := BitVec.ofInt 32 (zetas.getD k 0)

/-- `montgomeryReduce(int64(a) * int64(b))` -/
def montMul (a b : Coeff) : Coeff := montgomeryReduce (BitVec.signExtend 64 a * BitVec.signExtend 64 b)

/-- forward NTT as a recursion over the CRT tree: node `k` applies the Cooley–Tukey butterfly with
`zetas[k]` to its block and recurses into the halves with nodes `2k` and `2k+1`. The Go code runs the
same butterflies layer by layer (`k` counts 1, 2..3, 4..7, …). -/
def nttRec : Nat → Nat → Poly → Poly
  | 0, _, a => a
  | lvl+1, k, a =>
    let half := a.length / 2
    let lo := a.take half
    let hi := a.drop half
    let t := hi.map (montMul (zeta k))
    nttRec lvl (2*k) (List.zipWith (· + ·) lo t) ++ nttRec lvl (2*k+1) (List.zipWith (· - ·) lo t)

def ntt (a : Poly) : Poly := nttRec 8 1 a

/-- inverse NTT (Gentleman–Sande, bottom-up), followed by the multiplication by `f = 41978`. -/
def invRec : Nat → Nat → Poly → Poly
  | 0, _, a => a
  | lvl+1, k, a =>
    let half := a.length / 2
    let lo := invRec lvl (2*k+1) (a.take half)
    let hi := invRec lvl (2*k) (a.drop half)
    List.zipWith (· + ·) lo hi ++ (List.zipWith (· - ·) lo hi).map (montMul (-(zeta k)))

def invNTTToMont (a : Poly) : Poly := (invRec 8 1 a).map (montMul 41978#32)

def polyAdd (a b : Poly) : Poly := List.zipWith (· + ·) a b
def polySub (a b : Poly) : Poly := List.zipWith (· - ·) a b
def polyReduce (a : Poly) : Poly := a.map reduce32
def polyCAddQ (a : Poly) : Poly := a.map cAddQ
def polyShiftL (a : Poly) : Poly := a.map (fun x : Coeff => x <<< 13)
def polyPointwise (a b : Poly) : Poly := List.zipWith montMul a b
def polyPower2Round (a : Poly) : Poly × Poly := ((a.map fun x => (power2Round x).1), (a.map fun x => (power2Round x).2))
def polyDecompose (a : Poly) : Poly × Poly := ((a.map fun x => (decompose x).1), (a.map fun x => (decompose x).2))
def polyMakeHint (a0 a1 : Poly) : Poly := List.zipWith (fun x y => BitVec.setWidth 32 (makeHint x y)) a0 a1
def polyUseHint (a h : Poly) : Poly := List.zipWith (fun x y => useHint x (BitVec.signExtend 64 y)) a h
def hintWeight (h : Poly) : Nat := h.foldl (fun s x => s + (BitVec.signExtend 64 x).toNat) 0

/-- `polyChkNorm`: 1 iff the bound is too large or some coefficient violates it. -/
def polyChkNorm (a : Poly) (B : Coeff) : Bool :=
  polyChkNorm_guard0 B || a.any (fun x => (polyChkNorm_exit B x).isSome)

-- ---------------------------------------------------------------------------------------------
-- packers: the loop structure (stride, iteration count) around the generated lanes

def bv8 (b : UInt8) : BitVec 8 := b.toBitVec
def u8 (b : BitVec 8) : UInt8 := UInt8.ofBitVec b

def polyEtaPack (a : Poly) : Bytes :=
  ((chunks 8 a).flatMap fun c => match c with
    | [a0,a1,a2,a3,a4,a5,a6,a7] => polyEtaPack_lane a0 a1 a2 a3 a4 a5 a6 a7
    | _ => []).map u8
def polyEtaUnpack (b : Bytes) : Poly :=
  ((chunks 3 (b.take 96)).flatMap fun c => match c.map bv8 with
    | [a0,a1,a2] => polyEtaUnpack_lane a0 a1 a2
    | _ => [])
def polyT1Pack (a : Poly) : Bytes :=
  ((chunks 4 a).flatMap fun c => match c with
    | [a0,a1,a2,a3] => polyT1Pack_lane a0 a1 a2 a3
    | _ => []).map u8
def polyT1Unpack (b : Bytes) : Poly :=
  ((chunks 5 (b.take 320)).flatMap fun c => match c.map bv8 with
    | [a0,a1,a2,a3,a4] => polyT1Unpack_lane a0 a1 a2 a3 a4
    | _ => [])
def polyT0Pack (a : Poly) : Bytes :=
  ((chunks 8 a).flatMap fun c => match c with
    | [a0,a1,a2,a3,a4,a5,a6,a7] => polyT0Pack_lane a0 a1 a2 a3 a4 a5 a6 a7
    | _ => []).map u8
def polyT0Unpack (b : Bytes) : Poly :=
  ((chunks 13 (b.take 416)).flatMap fun c => match c.map bv8 with
    | [a0,a1,a2,a3,a4,a5,a6,a7,a8,a9,a10,a11,a12] => polyT0Unpack_lane a0 a1 a2 a3 a4 a5 a6 a7 a8 a9 a10 a11 a12
    | _ => [])
def polyZPack (a : Poly) : Bytes :=
  ((chunks 2 a).flatMap fun c => match c with
    | [a0,a1] => polyZPack_lane a0 a1
    | _ => []).map u8
def polyZUnpack (b : Bytes) : Poly :=
  ((chunks 5 (b.take 640)).flatMap fun c => match c.map bv8 with
    | [a0,a1,a2,a3,a4] => polyZUnpack_lane a0 a1 a2 a3 a4
    | _ => [])
def polyW1Pack (a : Poly) : Bytes :=
  ((chunks 2 a).flatMap fun c => match c with
    | [a0,a1] => polyW1Pack_lane a0 a1
    | _ => []).map u8

-- ---------------------------------------------------------------------------------------------
-- samplers over byte streams

/-- `rejUniform(a[:n], buf)`: accepted 23-bit candidates `< Q`, at most `n` of them. -/
def rejUniform : Nat → Bytes → List Coeff
  | 0, _ => []
  | n+1, b0 :: b1 :: b2 :: rest =>
    let t := (b0.toNat + b1.toNat * 256 + b2.toNat * 65536) % 8388608
    if t < Q then BitVec.ofNat 32 t :: rejUniform n rest else rejUniform (n+1) rest
  | _, _ => []
termination_by n b => b.length
decreasing_by all_goals simp_wf <;> omega

def etaMap (t : Nat) : Coeff := BitVec.ofInt 32 (2 - ((t - ((205 * t) >>> 10) * 5 : Nat) : Int))

/-- `rejEta(a[:n], buf)` -/
def rejEta : Nat → Bytes → List Coeff
  | 0, _ => []
  | _, [] => []
  | n+1, b :: rest =>
    let t0 := b.toNat % 16
    let t1 := b.toNat / 16
    if t0 < 15 then
      if t1 < 15 ∧ 0 < n then etaMap t0 :: etaMap t1 :: rejEta (n-1) rest
      else etaMap t0 :: rejEta n rest
    else
      if t1 < 15 then etaMap t1 :: rejEta n rest
      else rejEta (n+1) rest
termination_by n b => b.length
decreasing_by all_goals simp_wf <;> omega

section xof
variable (shake128 shake256 : Bytes → Nat → Bytes)

def nonceBytes (nonce : Nat) : Bytes := [UInt8.ofNat (nonce % 65536), UInt8.ofNat ((nonce % 65536) >>> 8)]

/-- `polyUniform`: the first squeeze is 842 bytes (the Go buffer is two bytes longer than the five blocks
the specification reads); later blocks of 168 continue from stream offset 842. -/
def polyUniformLoop (stream : Nat → Bytes) : Nat → Nat → List Coeff → List Coeff
  | 0, _, acc => acc
  | fuel+1, consumed, acc =>
    if acc.length < N then
      let blk := (stream (consumed + 168)).drop consumed
      polyUniformLoop stream fuel (consumed + 168) (acc ++ rejUniform (N - acc.length) blk)
    else acc

def polyUniform (seed : Bytes) (nonce : Nat) : Poly :=
  let stream := shake128 (seed ++ nonceBytes nonce)
  polyUniformLoop stream 64 842 (rejUniform N (stream 842))

def polyUniformEtaLoop (stream : Nat → Bytes) : Nat → Nat → List Coeff → List Coeff
  | 0, _, acc => acc
  | fuel+1, consumed, acc =>
    if acc.length < N then
      let blk := (stream (consumed + 136)).drop consumed
      polyUniformEtaLoop stream fuel (consumed + 136) (acc ++ rejEta (N - acc.length) blk)
    else acc

def polyUniformEta (seed : Bytes) (nonce : Nat) : Poly :=
  let stream := shake256 (seed ++ nonceBytes nonce)
  polyUniformEtaLoop stream 64 136 (rejEta N (stream 136))

def polyUniformGamma1 (seed : Bytes) (nonce : Nat) : Poly :=
  polyZUnpack (shake256 (seed ++ nonceBytes nonce) 680)

/-- inner loop of `polyChallenge`: next stream byte `b ≤ i`. Returns (b, new position). -/
def challengeNext (stream : Nat → Bytes) (i : Nat) : Nat → Nat → Nat × Nat
  | 0, pos => (0, pos)
  | fuel+1, pos =>
    let b := ((stream ((pos / 136 + 1) * 136)).getD pos 0).toNat
    if b > i then challengeNext stream i fuel (pos+1) else (b, pos+1)

/-- `polyChallenge` (SampleInBall, τ = 60) -/
def polyChallenge (seed : Bytes) : Poly :=
  let stream := shake256 seed
  let first := stream 136
  let signs := (List.range 8).foldl (fun s i => s + (first.getD i 0).toNat <<< (8*i)) 0
  let r := (List.range TAU).foldl (fun (st : Poly × Nat × Nat) j =>
      let (c, pos, signs) := st
      let i := N - TAU + j
      let (b, pos) := challengeNext stream i 4096 pos
      let c := c.set i (c.getD b 0)
      let c := c.set b (if signs % 2 = 1 then BitVec.ofInt 32 (-1) else 1#32)
      (c, pos, signs / 2)) (zeroPoly, 8, signs)
  r.1

/-- `polyVecMatrixExpand`: K rows of L polynomials. -/
def matrixExpand (rho : Bytes) : List (List Poly) :=
  (List.range K).map fun i => (List.range L).map fun j => polyUniform shake128 rho (i * 256 + j)

/-- `polyVecLPointWiseAccMontgomery` -/
def pointwiseAcc (u v : List Poly) : Poly :=
  match List.zipWith polyPointwise u v with
  | [] => zeroPoly
  | p :: ps => ps.foldl polyAdd p

def matVec (mat : List (List Poly)) (v : List Poly) : List Poly := mat.map fun row => pointwiseAcc row v

structure KeyPair where
  pk : Bytes
  sk : Bytes

/-- `cryptoSignKeypair(seed32)` -/
def keypair (seed : Bytes) : KeyPair :=
  let buf := shake256 seed 128
  let rho := buf.take 32
  let rhoPrime := (buf.drop 32).take 64
  let key := (buf.drop 96).take 32
  let mat := matrixExpand shake128 rho
  let s1 := (List.range L).map fun i => polyUniformEta shake256 rhoPrime i
  let s2 := (List.range K).map fun i => polyUniformEta shake256 rhoPrime (L + i)
  let s1hat := s1.map ntt
  let t := (matVec mat s1hat).map fun p => invNTTToMont (polyReduce p)
  let t := (List.zipWith polyAdd t s2).map polyCAddQ
  let t1 := t.map fun p => (polyPower2Round p).1
  let t0 := t.map fun p => (polyPower2Round p).2
  let pk := rho ++ (t1.flatMap polyT1Pack)
  let tr := shake256 pk 32
  let sk := rho ++ key ++ tr ++ s1.flatMap polyEtaPack ++ s2.flatMap polyEtaPack ++ t0.flatMap polyT0Pack
  ⟨pk, sk⟩

/-- did the rejection-sampling loops of key generation fill all 256 coefficients of every polynomial?
(the library loops until they do; the model gives them 64 blocks — this is the decidable form of the
hypothesis `Expanded` of the end-to-end theorems, evaluated by the driver on every seed of a run) -/
def keygenFilled (seed : Bytes) : Bool :=
  let buf := shake256 seed 128
  let rho := buf.take 32
  let rhoPrime := (buf.drop 32).take 64
  (matrixExpand shake128 rho).all (fun row => row.all fun p => p.length == 256) &&
    ((List.range L).all fun i => (polyUniformEta shake256 rhoPrime i).length == 256) &&
    ((List.range K).all fun i => (polyUniformEta shake256 rhoPrime (L + i)).length == 256)

/-- positions of the non-zero coefficients of a hint row, ascending -/
def rowPositions (row : Poly) : List Nat := (List.range N).filter (fun j => row.getD j 0#32 != 0#32)

/-- running totals of the row weights -/
def cumCounts : Nat → List (List Nat) → List Nat
  | _, [] => []
  | k, r :: rest => (k + r.length) :: cumCounts (k + r.length) rest

/-- hint section of `packSig` (for total weight ≤ ω): the positions of all rows in order, zero padding up to
ω = 75 bytes, then the 8 cumulative counts. The Go code produces this by sequential writes `sig[k] = j; k++` and
`sig[OMEGA+i] = k` into a zeroed buffer. -/
def packHints (h : List Poly) : Bytes :=
  let pos := h.map rowPositions
  pos.flatten.map UInt8.ofNat ++ zeros (OMEGA - pos.flatten.length) ++ (cumCounts 0 pos).map UInt8.ofNat

def packSig (c : Bytes) (z h : List Poly) : Bytes := c ++ z.flatMap polyZPack ++ packHints h

/-- one row of `unpackSig`: positions `hs[k .. cnt)` must be strictly increasing; sets those coefficients to 1.
`j` runs from `k`; `n = cnt - j` steps remain. -/
def decodeRow (hs : Bytes) (k : Nat) : Nat → Nat → Poly → Option Poly
  | 0, _, p => some p
  | n+1, j, p =>
    if j > k ∧ (hs.getD j 0).toNat ≤ (hs.getD (j-1) 0).toNat then none
    else decodeRow hs k n (j+1) (p.set (hs.getD j 0).toNat 1#32)

/-- the row loop of `unpackSig`: `rows` rows remain, the next is row `i`, `k` positions consumed so far -/
def unpackRows (hs : Bytes) : Nat → Nat → Nat → Option (List Poly × Nat)
  | 0, _, k => some ([], k)
  | rows+1, i, k =>
    let cnt := (hs.getD (OMEGA + i) 0).toNat
    if cnt < k ∨ cnt > OMEGA then none else
    match decodeRow hs k (cnt - k) k zeroPoly with
    | none => none
    | some p =>
      match unpackRows hs rows (i+1) cnt with
      | none => none
      | some (ps, k') => some (p :: ps, k')

/-- hint section of `unpackSig`; `none` = return code 1. -/
def unpackHints (hs : Bytes) : Option (List Poly) :=
  match unpackRows hs K 0 0 with
  | none => none
  | some (rows, k) =>
    if (List.range (OMEGA - k)).any (fun d => hs.getD (k + d) 0 != 0) then none else some rows

structure SigParts where
  c : Bytes
  z : List Poly
  h : List Poly

def unpackSig (sig : Bytes) : Option SigParts :=
  let c := sig.take 32
  let zb := (sig.drop 32).take (L * 640)
  let z := (chunks 640 zb).map polyZUnpack
  match unpackHints (sig.drop (32 + L * 640)) with
  | none => none
  | some h => some ⟨c, z, h⟩

def vecChkNorm (v : List Poly) (B : Coeff) : Bool := v.any (fun p => polyChkNorm p B)

/-- specification-level norm test (independent of the generated `polyChkNorm` lane): some coefficient whose centred
representative mod q has absolute value ≥ bound. Used only to *label* what a malicious signer violated. -/
def specNormBad (v : List Poly) (bound : Nat) : Bool :=
  v.any fun p => p.any fun c =>
    let r := Int.bmod c.toInt 8380417
    decide ((bound : Int) ≤ (if r < 0 then -r else r))

inductive Exit where | zNorm | w0Norm | ct0Norm | hintCount | accept
  deriving Repr, DecidableEq

structure SignCfg where  -- signing-side checks that a malicious signer may skip (all false = the library)
  skipZ : Bool := false
  skipW0 : Bool := false
  skipCt0 : Bool := false
  skipHint : Bool := false

/-- one iteration of the rejection loop for a given nonce: the exit taken, the signature if accepted, and
the names of the signing-side checks that were skipped (`cfg`) although they would have rejected. -/
def signAttempt (cfg : SignCfg) (mat : List (List Poly)) (mu rhoPrime : Bytes) (s1 s2 t0 : List Poly) (nonce : Nat) :
    Exit × Bytes × List String :=
  let y := (List.range L).map fun i => polyUniformGamma1 shake256 rhoPrime ((L * nonce + i) % 65536)
  let z := y.map ntt
  let w := (matVec mat z).map fun p => polyCAddQ (invNTTToMont (polyReduce p))
  let w1 := w.map fun p => (polyDecompose p).1
  let w0 := w.map fun p => (polyDecompose p).2
  let w1p := w1.flatMap polyW1Pack
  let ctil := shake256 (mu ++ w1p) 32
  let cp := ntt (polyChallenge shake256 ctil)
  let z := (s1.map fun p => invNTTToMont (polyPointwise cp p))
  let z := (List.zipWith polyAdd z y).map polyReduce
  let zBad := vecChkNorm z (BitVec.ofNat 32 (GAMMA1 - BETA))
  if !cfg.skipZ && zBad then (.zNorm, [], []) else
  let h := s2.map fun p => invNTTToMont (polyPointwise cp p)
  let w0 := (List.zipWith polySub w0 h).map polyReduce
  let w0Bad := vecChkNorm w0 (BitVec.ofNat 32 (GAMMA2 - BETA))
  if !cfg.skipW0 && w0Bad then (.w0Norm, [], []) else
  let h := t0.map fun p => polyReduce (invNTTToMont (polyPointwise cp p))
  let ctBad := vecChkNorm h (BitVec.ofNat 32 GAMMA2)
  if !cfg.skipCt0 && ctBad then (.ct0Norm, [], []) else
  let w0' := w0
  let w0 := List.zipWith polyAdd w0 h
  let hint := List.zipWith polyMakeHint w0 w1
  let n := (hint.map hintWeight).foldl (· + ·) 0
  let hBad := decide (n > OMEGA)
  if !cfg.skipHint && hBad then (.hintCount, [], []) else
  (.accept, packSig ctil z hint,
    (if specNormBad z (GAMMA1 - BETA) then ["z"] else []) ++ (if specNormBad w0' (GAMMA2 - BETA) then ["w0"] else []) ++
    (if specNormBad h (GAMMA2) then ["ct0"] else []) ++ (if hBad then ["hint"] else []))

def signLoop (cfg : SignCfg) (mat : List (List Poly)) (mu rhoPrime : Bytes) (s1 s2 t0 : List Poly) :
    Nat → Nat → List Exit → Option (Bytes × List Exit × List String)
  | 0, _, _ => none
  | fuel+1, nonce, exits =>
    match signAttempt shake256 cfg mat mu rhoPrime s1 s2 t0 nonce with
    | (.accept, sig, viol) => some (sig, (Exit.accept :: exits).reverse, viol)
    | (e, _, _) => signLoop cfg mat mu rhoPrime s1 s2 t0 fuel (nonce+1) (e :: exits)

/-- `cryptoSignSignature` (deterministic): signature and the sequence of rejection-loop exits.
`none` only if the fuel (1000 attempts) is exhausted. -/
def signDetached (cfg : SignCfg) (sk msg : Bytes) : Option (Bytes × List Exit × List String) :=
  let rho := sk.take 32
  let key := (sk.drop 32).take 32
  let tr := (sk.drop 64).take 32
  let rest := sk.drop 96
  let s1 := (chunks 96 (rest.take (L*96))).map polyEtaUnpack
  let rest := rest.drop (L*96)
  let s2 := (chunks 96 (rest.take (K*96))).map polyEtaUnpack
  let rest := rest.drop (K*96)
  let t0 := (chunks 416 (rest.take (K*416))).map polyT0Unpack
  let mu := shake256 (tr ++ msg) 64
  let rhoPrime := shake256 (key ++ mu) 64
  let mat := matrixExpand shake128 rho
  signLoop shake256 cfg mat mu rhoPrime (s1.map ntt) (s2.map ntt) (t0.map ntt) 1000 0 []

/-- `cryptoSignVerify` on a 4595-byte signature and a 2592-byte public key. -/
def verify (sig msg pk : Bytes) : Bool :=
  let rho := pk.take 32
  let t1 := (chunks 320 ((pk.drop 32).take (K*320))).map polyT1Unpack
  match unpackSig sig with
  | none => false
  | some ⟨c, z, h⟩ =>
    if vecChkNorm z (BitVec.ofNat 32 (GAMMA1 - BETA)) then false else
    let mu := shake256 (shake256 pk 32 ++ msg) 64
    let cp := ntt (polyChallenge shake256 c)
    let mat := matrixExpand shake128 rho
    let w1 := matVec mat (z.map ntt)
    let t1 := t1.map fun p => polyPointwise cp (ntt (polyShiftL p))
    let w1 := (List.zipWith polySub w1 t1).map fun p => polyCAddQ (invNTTToMont (polyReduce p))
    let w1 := List.zipWith polyUseHint w1 h
    let c2 := shake256 (mu ++ w1.flatMap polyW1Pack) 32
    c == c2

/-- `unpackSk`: (ρ, key, tr, s1, s2, t0) of a 4864-byte secret key -/
def unpackSk (sk : Bytes) : Bytes × Bytes × Bytes × List Poly × List Poly × List Poly :=
  let rest := sk.drop 96
  let s1 := (chunks 96 (rest.take (L*96))).map polyEtaUnpack
  let rest := rest.drop (L*96)
  let s2 := (chunks 96 (rest.take (K*96))).map polyEtaUnpack
  let rest := rest.drop (K*96)
  let t0 := (chunks 416 (rest.take (K*416))).map polyT0Unpack
  (sk.take 32, (sk.drop 32).take 32, (sk.drop 64).take 32, s1, s2, t0)

/-- `unpackPk`: (ρ, t1) of a 2592-byte public key -/
def unpackPk (pk : Bytes) : Bytes × List Poly :=
  (pk.take 32, (chunks 320 ((pk.drop 32).take (K*320))).map polyT1Unpack)

/-- `cryptoSign` (sealed message) -/
def sealMsg (sk msg : Bytes) : Option Bytes := (signDetached shake128 shake256 {} sk msg).map fun r => r.1 ++ msg

/-- `cryptoSignOpen` / `Open` -/
def openSealed (sm pk : Bytes) : Option Bytes :=
  if sm.length < CryptoBytes then none else
  let sig := sm.take CryptoBytes
  let msg := sm.drop CryptoBytes
  if verify shake128 shake256 sig msg pk then some msg else none

end xof
end Qrl.Dil
