import QrlModel.Model.Basic
/-! `encoding/hex` and the string wrappers of `qrllib-js/` (pure functions only). Strings are byte lists. -/
namespace Qrl.Hex

def hexVal (c : UInt8) : Option Nat :=
  if 48 ≤ c.toNat ∧ c.toNat ≤ 57 then some (c.toNat - 48)
  else if 97 ≤ c.toNat ∧ c.toNat ≤ 102 then some (c.toNat - 87)
  else if 65 ≤ c.toNat ∧ c.toNat ≤ 70 then some (c.toNat - 55)
  else none

/-- `hex.DecodeString`: `none` stands for a non-nil error (odd length or a non-hex character). -/
def hexDecode : Bytes → Option Bytes
  | [] => some []
  | [_] => none
  | a :: b :: rest =>
    match hexVal a, hexVal b, hexDecode rest with
    | some x, some y, some r => some (UInt8.ofNat (x * 16 + y) :: r)
    | _, _, _ => none

def digit (n : Nat) : UInt8 := if n < 10 then UInt8.ofNat (48 + n) else UInt8.ofNat (87 + n)

/-- `hex.EncodeToString` (lower case) -/
def hexEncode : Bytes → Bytes
  | [] => []
  | x :: rest => digit (x.toNat / 16) :: digit (x.toNat % 16) :: hexEncode rest

/-- `clearPrefix0x` -/
def clearPrefix0x (s : Bytes) : Bytes :=
  match s with
  | 48 :: 120 :: rest => rest
  | _ => s

/-- `copy(sized[:], b)` into a zero-initialised array of length `n`. -/
def fit (n : Nat) (b : Bytes) : Bytes := (b ++ zeros n).take n

def pfx0x : Bytes := [48, 120]

section
variable (strip : Bool)  -- whether the wrapper calls clearPrefix0x (all Dilithium wrappers; the XMSS ones after the fix)
def pre (s : Bytes) : Bytes := if strip then clearPrefix0x s else s

/-- `XMSSVerify(message, signature, pk)` / `DilithiumVerify` shape: decode both, size the key, call the core. -/
def verifyJS (core : Bytes → Bytes → Bytes → Outcome Bool) (pkSize : Nat) (sigSize : Option Nat)
    (msg sig pk : Bytes) : Outcome Bool :=
  match hexDecode (pre strip sig) with
  | none => .ok false
  | some s =>
    match hexDecode (pre strip pk) with
    | none => .ok false
    | some p =>
      let s := match sigSize with | some n => fit n s | none => s
      core msg s (fit pkSize p)

/-- `Get*AddressFromPK(pk string) string` -/
def addressFromPKJS (core : Bytes → Outcome Bytes) (pkSize : Nat) (with0x : Bool) (pk : Bytes) : Outcome Bytes :=
  match hexDecode (pre strip pk) with
  | none => .ok []
  | some p => do
    let a ← core (fit pkSize p)
    pure ((if with0x then pfx0x else []) ++ hexEncode a)

/-- `IsValid*Address(address string) bool` -/
def isValidAddressJS (core : Bytes → Bool) (addr : Bytes) : Bool :=
  match hexDecode (pre strip addr) with
  | none => false
  | some a => core (fit 20 a)
end

end Qrl.Hex
