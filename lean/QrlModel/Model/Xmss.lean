import QrlModel.Model.Basic
/-! Structural model of `xmss/` (hash.go, xmss.go, xmss_fast.go, params.go, descriptor.go) and the
address helpers of `misc/helper.go`. n = 32 throughout (WOTSParamN). Polymorphic in the 32-byte hash
`hash : Bytes → Bytes`, so that theorems hold for every hash function. -/
namespace Qrl.Xmss

/-- The `[8]uint32` hash address. Go threads one mutable array through nested calls; every field is
overwritten before it is read, so the model builds each address afresh. -/
structure Addr where
  a0 : Nat := 0
  a1 : Nat := 0
  a2 : Nat := 0
  ty : Nat := 0      -- addr[3]
  a4 : Nat := 0      -- OTS / L-tree address
  a5 : Nat := 0      -- chain address / tree height
  a6 : Nat := 0      -- hash address / tree index
  km : Nat := 0      -- key-and-mask
  deriving Repr, DecidableEq

/-- `misc.AddrToByte` on a little-endian host. -/
def addrBytes (a : Addr) : Bytes :=
  toBytesBE a.a0 4 ++ toBytesBE a.a1 4 ++ toBytesBE a.a2 4 ++ toBytesBE a.ty 4 ++
  toBytesBE a.a4 4 ++ toBytesBE a.a5 4 ++ toBytesBE a.a6 4 ++ toBytesBE a.km 4

section hashed
variable (hash : Bytes → Bytes)

/-- `coreHash`: `hash (toByte(type, 32) ‖ key ‖ in)`. -/
def coreHash (ty : Nat) (key inp : Bytes) : Bytes := hash (toBytesBE ty 32 ++ key ++ inp)
def prf (inp key : Bytes) : Bytes := coreHash hash 3 key inp
def hMsg (msg key : Bytes) : Bytes := coreHash hash 2 key msg

def hashF (pubSeed : Bytes) (a : Addr) (inp : Bytes) : Bytes :=
  let key := prf hash (addrBytes { a with km := 0 }) pubSeed
  let mask := prf hash (addrBytes { a with km := 1 }) pubSeed
  coreHash hash 0 key (xorBytes inp mask)

def hashH (pubSeed : Bytes) (a : Addr) (l r : Bytes) : Bytes :=
  let key := prf hash (addrBytes { a with km := 0 }) pubSeed
  let m0 := prf hash (addrBytes { a with km := 1 }) pubSeed
  let m1 := prf hash (addrBytes { a with km := 2 }) pubSeed
  coreHash hash 1 key (xorBytes (l ++ r) (m0 ++ m1))

/-- `genChain`: `for i := start; i < start+steps && i < w; i++ { out = hashF(out) with hashAddr = i }`. -/
def genChain (pubSeed : Bytes) (a : Addr) (w : Nat) : Nat → Nat → Bytes → Bytes
  | 0, _, x => x
  | steps+1, start, x =>
    if start < w then genChain pubSeed a w steps (start+1) (hashF hash pubSeed { a with a6 := start } x) else x

end hashed

structure WParams where
  w : Nat
  logW : Nat
  len1 : Nat
  len2 : Nat
  deriving Repr, DecidableEq
def WParams.len (p : WParams) : Nat := p.len1 + p.len2
def WParams.keySize (p : WParams) : Nat := p.len * 32

/-- `NewWOTSParams(32, w)` for the three supported Winternitz parameters (the Go code computes these in
floating point; the values are compared with the real function by the correspondence check). -/
def wparams? (w : Nat) : Option WParams :=
  if w = 16 then some ⟨16, 4, 64, 3⟩
  else if w = 4 then some ⟨4, 2, 128, 5⟩
  else if w = 256 then some ⟨256, 8, 32, 2⟩
  else none

def wp16 : WParams := ⟨16, 4, 64, 3⟩

/-- loop of `CalcBaseW`, with the bounds check of `input[in]`; state: (in, total, bits), digits so far in `acc`. -/
def baseWGo (p : WParams) (input : Bytes) : Nat → Nat → Nat → Nat → List Nat → Outcome (List Nat)
  | 0, _, _, _, acc => .ok acc.reverse
  | n+1, inp, total, bits, acc =>
    if bits = 0 then
      match input[inp]? with
      | none => .fault "CalcBaseW input index"
      | some b =>
        let bits := 8 - p.logW
        baseWGo p input n (inp+1) b.toNat bits (((b.toNat >>> bits) % p.w) :: acc)
    else
      let bits := bits - p.logW
      baseWGo p input n inp total bits (((total >>> bits) % p.w) :: acc)

/-- `CalcBaseW(output, outLen, input, params)` -/
def calcBaseW (p : WParams) (outLen : Nat) (input : Bytes) : Outcome (List Nat) := baseWGo p input outLen 0 0 0 []

/-- message digits followed by checksum digits (`wotsSign` and `wotsPKFromSig` compute these identically). -/
def wotsDigits (p : WParams) (msgHash : Bytes) : Outcome (List Nat) := do
  let d ← calcBaseW p p.len1 msgHash
  let csum := d.foldl (fun c x => (c + (p.w - 1 - x)) % 4294967296) 0
  let csum := (csum <<< (8 - ((p.len2 * p.logW) % 8))) % 4294967296
  let nb := (p.len2 * p.logW + 7) / 8
  let c ← calcBaseW p p.len2 (toBytesBE csum nb)
  pure (d ++ c)

section hashed
variable (hash : Bytes → Bytes)

def otsAddr (idx chain : Nat) : Addr := { ty := 0, a4 := idx, a5 := chain }

def expandSeed (seed : Bytes) (len : Nat) : List Bytes :=
  (List.range len).map (fun i => prf hash (toBytesBE i 32) seed)

def wotsPKGen (p : WParams) (seed pubSeed : Bytes) (idx : Nat) : List Bytes :=
  (expandSeed hash seed p.len).zipIdx.map (fun (sk, i) => genChain hash pubSeed (otsAddr idx i) p.w (p.w - 1) 0 sk)

def wotsSign (p : WParams) (msgHash seed pubSeed : Bytes) (idx : Nat) : Outcome (List Bytes) := do
  let ds ← wotsDigits p msgHash
  pure (((expandSeed hash seed p.len).zip ds).zipIdx.map
    (fun ((sk, d), i) => genChain hash pubSeed (otsAddr idx i) p.w d 0 sk))

def wotsPKFromSig (p : WParams) (sig : List Bytes) (msgHash pubSeed : Bytes) (idx : Nat) : Outcome (List Bytes) := do
  let ds ← wotsDigits p msgHash
  pure ((sig.zip ds).zipIdx.map
    (fun ((s, d), i) => genChain hash pubSeed (otsAddr idx i) p.w (p.w - 1 - d) d s))

def lAddr (idx height index : Nat) : Addr := { ty := 1, a4 := idx, a5 := height, a6 := index }

/-- one level of the L-tree: hash adjacent pairs, carry an odd last node up unchanged. -/
def lTreeLevel (pubSeed : Bytes) (idx height : Nat) : Nat → List Bytes → List Bytes
  | i, l :: r :: rest => hashH hash pubSeed (lAddr idx height i) l r :: lTreeLevel pubSeed idx height (i+1) rest
  | _, rest => rest

def lTree (pubSeed : Bytes) (idx : Nat) : Nat → Nat → List Bytes → Bytes
  | 0, _, nodes => nodes.headD (zeros 32)
  | fuel+1, height, nodes =>
    if nodes.length > 1 then lTree pubSeed idx fuel (height+1) (lTreeLevel hash pubSeed idx height 0 nodes)
    else nodes.headD (zeros 32)

def getSeed (skSeed : Bytes) (idx : Nat) : Bytes := prf hash (addrBytes (otsAddr idx 0)) skSeed

def genLeafWOTS (p : WParams) (skSeed pubSeed : Bytes) (idx : Nat) : Bytes :=
  lTree hash pubSeed idx p.len 0 (wotsPKGen hash p (getSeed hash skSeed idx) pubSeed idx)

def nodeAddr (height index : Nat) : Addr := { ty := 2, a5 := height, a6 := index }
def nodeH (pubSeed : Bytes) (height index : Nat) (l r : Bytes) : Bytes :=
  hashH hash pubSeed (nodeAddr height index) l r

/-- `validateAuthPath`: fold the authentication path up to the root. -/
def validateAuthPath (pubSeed : Bytes) (leaf : Bytes) (leafIdx : Nat) (auth : List Bytes) : Bytes :=
  (auth.zipIdx.foldl (fun (acc : Bytes × Nat) (a, i) =>
      let (node, idx) := acc
      let parent := idx / 2
      if idx % 2 = 1 then (nodeH hash pubSeed i parent a node, parent)
      else (nodeH hash pubSeed i parent node a, parent)) (leaf, leafIdx)).1

end hashed
end Qrl.Xmss
