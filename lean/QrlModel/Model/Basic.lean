/-! Shared vocabulary of the structural model: outcomes, byte helpers. Core-only. -/
namespace Qrl

/-- Result of a library entry point: a value, one of the library's own explicit refusals
(a `panic("...")` with a string), or a runtime fault (out-of-range access, nil dereference). -/
inductive Outcome (α : Type) where
  | ok (a : α)
  | refuse (cls : String)
  | fault (what : String)
  deriving Repr, DecidableEq

namespace Outcome
def bind {α β} (x : Outcome α) (f : α → Outcome β) : Outcome β :=
  match x with
  | ok a => f a
  | refuse c => refuse c
  | fault w => fault w
instance : Monad Outcome where
  pure := ok
  bind := bind
def isFault {α} : Outcome α → Bool
  | fault _ => true
  | _ => false
end Outcome

abbrev Bytes := List UInt8

def zeros (n : Nat) : Bytes := List.replicate n 0

/-- `misc.ToByteLittleEndian(out, v, n)`: despite its name it stores the *most* significant byte first;
`v` is a uint32, so for `n > 4` the leading bytes are zero. -/
def toBytesBE (v : Nat) (n : Nat) : Bytes :=
  (List.range n).map (fun i => UInt8.ofNat ((v % 4294967296) >>> (8 * (n - 1 - i))))

/-- `misc.ToByteBigEndian(out, v, n)`: least significant byte first. -/
def toBytesLE (v : Nat) (n : Nat) : Bytes :=
  (List.range n).map (fun i => UInt8.ofNat ((v % 4294967296) >>> (8 * i)))

def xorBytes (a b : Bytes) : Bytes := List.zipWith (· ^^^ ·) a b

/-- Go slice expression `l[a:b]` with its bounds check. -/
def slice? {α} (l : List α) (a b : Nat) : Option (List α) :=
  if a ≤ b ∧ b ≤ l.length then some ((l.drop a).take (b - a)) else none

def sliceO {α} (l : List α) (a b : Nat) (what : String) : Outcome (List α) :=
  match slice? l a b with
  | some s => .ok s
  | none => .fault what

def getO {α} (l : List α) (i : Nat) (what : String) : Outcome α :=
  match l[i]? with
  | some s => .ok s
  | none => .fault what

/-- split a list into consecutive chunks of `n > 0` elements (the last may be shorter). -/
def chunksAux {α} (n : Nat) : Nat → List α → List (List α)
  | 0, _ => []
  | f+1, l => if l.isEmpty then [] else l.take n :: chunksAux n f (l.drop n)
def chunks {α} (n : Nat) (l : List α) : List (List α) := chunksAux n l.length l

def hexDigit (n : Nat) : Char := if n < 10 then Char.ofNat (48 + n) else Char.ofNat (87 + n)
def hexOf (b : Bytes) : String :=
  String.ofList (b.flatMap (fun x => [hexDigit (x.toNat / 16), hexDigit (x.toNat % 16)]))

end Qrl
