import QrlModel.Model.Bds
/-! The label instance of the generic BDS model: a node is *named* by its (height, index); hashing
returns `bad` unless its arguments are exactly the two children the address names. -/
namespace Qrl.BdsLabel
open Qrl.Bds

inductive Lbl where
  | zero | bad | nd (ht idx : Nat)
  deriving DecidableEq, Repr, Inhabited

def hashH (ht ti : Nat) (l r : Lbl) : Lbl :=
  match l, r with
  | .nd hl il, .nd hr ir =>
    if hl = ht ∧ hr = ht ∧ il = 2*ti ∧ ir = 2*ti+1 then .nd (ht+1) ti else .bad
  | _, _ => .bad

def ops : Ops Lbl := { zero := .zero, leaf := fun i => .nd 0 i, H := hashH }

def lblStr : Lbl → String
  | .zero => "0" | .bad => "BAD" | .nd h i => s!"{h}.{i}"

def showSt (s : St Lbl) : String :=
  let th := s.treeHash.map fun t => s!"{t.h}/{t.nextIdx}/{t.stackUsage}/{t.completed}/{lblStr t.node}"
  -- stack slots at or above stackOffset are dead (never read before being rewritten) and are not printed
  s!"off={s.stackOffset} lv={s.stackLevels.take s.stackOffset} stack={(s.stack.take s.stackOffset).map lblStr} auth={s.auth.map lblStr} keep={s.keep.map lblStr} th={th} retain={s.retain.map lblStr}"

/-- Lean source of a label / state (for emitting segment certificates; the emitted terms are re-checked by the kernel) -/
def lblSrc : Lbl → String
  | .zero => ".zero" | .bad => ".bad" | .nd h i => s!".nd {h} {i}"

def stSrc (s : St Lbl) : String :=
  let l (xs : List Lbl) := "[" ++ ", ".intercalate (xs.map lblSrc) ++ "]"
  let th := s.treeHash.map fun t => s!"⟨{t.h}, {t.nextIdx}, {t.stackUsage}, {t.completed}, {lblSrc t.node}⟩"
  "{ stack := " ++ l s.stack ++ s!", stackOffset := {s.stackOffset}, stackLevels := {s.stackLevels}, auth := " ++ l s.auth ++
    ", keep := " ++ l s.keep ++ ", treeHash := [" ++ ", ".intercalate th ++ "], retain := " ++ l s.retain ++ " }"

end Qrl.BdsLabel
