import QrlModel.Model.Basic
/-! Descriptors (`xmss/descriptor.go`) and addresses (`xmss/xmss.go`, `dilithium/dilithium.go`).
Hash functions are parameters. -/
namespace Qrl

/-- `QRLDescriptor`: the fields are Go `uint`/`uint8` values; constructors accept arbitrary values. -/
structure Desc where
  hashFn : Nat
  sigType : Nat
  height : Nat     -- uint8
  addrFmt : Nat
  deriving Repr, DecidableEq

/-- `NewQRLDescriptorFromBytes` (and the identical `LegacyQRLDescriptorFromBytes`) on bytes 0 and 1;
byte 2 is ignored. The nibble operations `b & 0x0f`, `(b >> 4) & 0x0f`, `(b & 0x0f) << 1`, `(b & 0xf0) >> 4`
are written arithmetically. -/
def Desc.ofBytes (b0 b1 : UInt8) : Desc :=
  { hashFn := b0.toNat % 16
    sigType := b0.toNat / 16
    height := (b1.toNat % 16) * 2
    addrFmt := b1.toNat / 16 }

/-- `QRLDescriptor.GetBytes`: `(uint8(sig) << 4) | (uint8(hf) & 0x0f)`, `(uint8(fmt) << 4) | ((height >> 1) & 0x0f)`, 0 -/
def Desc.bytes (d : Desc) : Bytes :=
  [ UInt8.ofNat ((d.sigType % 16) * 16 + d.hashFn % 16),
    UInt8.ofNat ((d.addrFmt % 16) * 16 + (d.height % 256) / 2 % 16),
    0 ]

/-- parse the 3-byte descriptor at the head of a byte string (Go panics unless exactly 3 bytes are passed;
all call sites slice exactly `[:3]` of a fixed-size array). -/
def Desc.ofPrefix (b : Bytes) : Desc := Desc.ofBytes (b.getD 0 0) (b.getD 1 0)

section
variable (shake256 : Bytes → Nat → Bytes) (sha256 : Bytes → Bytes)

/-- `GetXMSSAddressFromPK` (argument: the 67-byte extended public key). -/
def xmssAddressFromPK (epk : Bytes) : Outcome Bytes :=
  let d := Desc.ofPrefix epk
  if d.addrFmt ≠ 0 then .refuse "addr-format" else
  .ok (d.bytes ++ (shake256 epk 32).drop 15)

/-- `IsValidXMSSAddress` (argument: 20 bytes). -/
def isValidXmssAddress (a : Bytes) : Bool :=
  let d := Desc.ofPrefix a
  d.sigType == 0 && d.addrFmt == 0

/-- `GetLegacyXMSSAddressFromPK` -/
def legacyAddressFromPK (epk : Bytes) : Outcome Bytes :=
  let d := Desc.ofPrefix epk
  if d.addrFmt ≠ 0 then .refuse "addr-format" else
  let body := d.bytes ++ sha256 epk
  .ok (body ++ (sha256 body).drop 28)

/-- `IsValidLegacyXMSSAddress` (argument: 39 bytes). -/
def isValidLegacyAddress (a : Bytes) : Bool :=
  let d := Desc.ofPrefix a
  d.addrFmt == 0 && (a.drop 35 == (sha256 (a.take 35)).drop 28)

/-- `GetDilithiumAddressFromPK` -/
def dilAddressFromPK (pk : Bytes) : Bytes := 0x10 :: (shake256 pk 32).drop 13

def isValidDilAddress (a : Bytes) : Bool := a.getD 0 0 == 0x10
end

end Qrl
