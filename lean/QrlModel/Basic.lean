def hello := "world"
