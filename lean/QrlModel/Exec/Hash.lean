/-! Executable SHA-256 / Keccak (SHAKE128/256) — parameters of the model, core-only.
Validated against crypto/sha256 and x/crypto/sha3 by the correspondence check. -/
namespace Qrl.Hash


def rc : Array UInt64 := #[
  0x0000000000000001, 0x0000000000008082, 0x800000000000808A, 0x8000000080008000,
  0x000000000000808B, 0x0000000080000001, 0x8000000080008081, 0x8000000000008009,
  0x000000000000008A, 0x0000000000000088, 0x0000000080008009, 0x000000008000000A,
  0x000000008000808B, 0x800000000000008B, 0x8000000000008089, 0x8000000000008003,
  0x8000000000008002, 0x8000000000000080, 0x000000000000800A, 0x800000008000000A,
  0x8000000080008081, 0x8000000000008080, 0x0000000080000001, 0x8000000080008008]

def rotc : Array Nat := #[1,3,6,10,15,21,28,36,45,55,2,14,27,41,56,8,25,43,62,18,39,61,20,44]
def piln : Array Nat := #[10,7,11,17,18,3,5,16,8,21,24,4,15,23,19,13,12,2,20,14,22,9,6,1]

@[inline] def rotl (x : UInt64) (n : Nat) : UInt64 :=
  (x <<< (UInt64.ofNat n)) ||| (x >>> (UInt64.ofNat (64 - n)))

def keccakRound (st : Array UInt64) (r : Nat) : Array UInt64 := Id.run do
  let mut st := st
  -- theta
  let mut bc : Array UInt64 := Array.replicate 5 0
  for i in [0:5] do
    bc := bc.set! i (st[i]! ^^^ st[i+5]! ^^^ st[i+10]! ^^^ st[i+15]! ^^^ st[i+20]!)
  for i in [0:5] do
    let t := bc[(i+4)%5]! ^^^ rotl bc[(i+1)%5]! 1
    for j in [0:5] do
      st := st.set! (j*5+i) (st[j*5+i]! ^^^ t)
  -- rho pi
  let mut t := st[1]!
  for i in [0:24] do
    let j := piln[i]!
    let b := st[j]!
    st := st.set! j (rotl t rotc[i]!)
    t := b
  -- chi
  for j in [0:5] do
    let a0 := st[j*5]!; let a1 := st[j*5+1]!; let a2 := st[j*5+2]!; let a3 := st[j*5+3]!; let a4 := st[j*5+4]!
    st := st.set! (j*5)   (a0 ^^^ ((~~~a1) &&& a2))
    st := st.set! (j*5+1) (a1 ^^^ ((~~~a2) &&& a3))
    st := st.set! (j*5+2) (a2 ^^^ ((~~~a3) &&& a4))
    st := st.set! (j*5+3) (a3 ^^^ ((~~~a4) &&& a0))
    st := st.set! (j*5+4) (a4 ^^^ ((~~~a0) &&& a1))
  st := st.set! 0 (st[0]! ^^^ rc[r]!)
  return st

def keccakF (st : Array UInt64) : Array UInt64 := Id.run do
  let mut st := st
  for r in [0:24] do st := keccakRound st r
  return st

def xorLane (st : Array UInt64) (byteIdx : Nat) (b : UInt8) : Array UInt64 :=
  let l := byteIdx / 8
  st.set! l (st[l]! ^^^ ((b.toUInt64) <<< (UInt64.ofNat (8 * (byteIdx % 8)))))

def getByte (st : Array UInt64) (byteIdx : Nat) : UInt8 :=
  (st[byteIdx/8]! >>> (UInt64.ofNat (8 * (byteIdx % 8)))).toUInt8

/-- SHAKE with given rate; absorb msg, squeeze outLen bytes. -/
def shake (rate : Nat) (msg : ByteArray) (outLen : Nat) : ByteArray := Id.run do
  let mut st : Array UInt64 := Array.replicate 25 0
  let mut pos := 0
  for b in msg do
    st := xorLane st pos b
    pos := pos + 1
    if pos == rate then
      st := keccakF st
      pos := 0
  st := xorLane st pos 0x1F
  st := xorLane st (rate-1) 0x80
  st := keccakF st
  let mut out := ByteArray.empty
  let mut p := 0
  for _ in [0:outLen] do
    if p == rate then
      st := keccakF st
      p := 0
    out := out.push (getByte st p)
    p := p + 1
  return out

def shake128 := shake 168
def shake256 := shake 136

def k256 : Array UInt32 := #[
  0x428a2f98,0x71374491,0xb5c0fbcf,0xe9b5dba5,0x3956c25b,0x59f111f1,0x923f82a4,0xab1c5ed5,
  0xd807aa98,0x12835b01,0x243185be,0x550c7dc3,0x72be5d74,0x80deb1fe,0x9bdc06a7,0xc19bf174,
  0xe49b69c1,0xefbe4786,0x0fc19dc6,0x240ca1cc,0x2de92c6f,0x4a7484aa,0x5cb0a9dc,0x76f988da,
  0x983e5152,0xa831c66d,0xb00327c8,0xbf597fc7,0xc6e00bf3,0xd5a79147,0x06ca6351,0x14292967,
  0x27b70a85,0x2e1b2138,0x4d2c6dfc,0x53380d13,0x650a7354,0x766a0abb,0x81c2c92e,0x92722c85,
  0xa2bfe8a1,0xa81a664b,0xc24b8b70,0xc76c51a3,0xd192e819,0xd6990624,0xf40e3585,0x106aa070,
  0x19a4c116,0x1e376c08,0x2748774c,0x34b0bcb5,0x391c0cb3,0x4ed8aa4a,0x5b9cca4f,0x682e6ff3,
  0x748f82ee,0x78a5636f,0x84c87814,0x8cc70208,0x90befffa,0xa4506ceb,0xbef9a3f7,0xc67178f2]

@[inline] def rotr32 (x : UInt32) (n : UInt32) : UInt32 := (x >>> n) ||| (x <<< (32 - n))

def sha256Block (hs : Array UInt32) (blk : ByteArray) (off : Nat) : Array UInt32 := Id.run do
  let mut w : Array UInt32 := Array.replicate 64 0
  for i in [0:16] do
    let b0 := blk[off+4*i]!.toUInt32; let b1 := blk[off+4*i+1]!.toUInt32
    let b2 := blk[off+4*i+2]!.toUInt32; let b3 := blk[off+4*i+3]!.toUInt32
    w := w.set! i ((b0 <<< 24) ||| (b1 <<< 16) ||| (b2 <<< 8) ||| b3)
  for i in [16:64] do
    let s0 := rotr32 w[i-15]! 7 ^^^ rotr32 w[i-15]! 18 ^^^ (w[i-15]! >>> 3)
    let s1 := rotr32 w[i-2]! 17 ^^^ rotr32 w[i-2]! 19 ^^^ (w[i-2]! >>> 10)
    w := w.set! i (w[i-16]! + s0 + w[i-7]! + s1)
  let mut a := hs[0]!; let mut b := hs[1]!; let mut c := hs[2]!; let mut d := hs[3]!
  let mut e := hs[4]!; let mut f := hs[5]!; let mut g := hs[6]!; let mut h := hs[7]!
  for i in [0:64] do
    let S1 := rotr32 e 6 ^^^ rotr32 e 11 ^^^ rotr32 e 25
    let ch := (e &&& f) ^^^ ((~~~e) &&& g)
    let t1 := h + S1 + ch + k256[i]! + w[i]!
    let S0 := rotr32 a 2 ^^^ rotr32 a 13 ^^^ rotr32 a 22
    let mj := (a &&& b) ^^^ (a &&& c) ^^^ (b &&& c)
    let t2 := S0 + mj
    h := g; g := f; f := e; e := d + t1; d := c; c := b; b := a; a := t1 + t2
  return #[hs[0]! + a, hs[1]! + b, hs[2]! + c, hs[3]! + d, hs[4]! + e, hs[5]! + f, hs[6]! + g, hs[7]! + h]

def sha256 (msg : ByteArray) : ByteArray := Id.run do
  let bitLen := msg.size * 8
  let mut m := msg.push 0x80
  while m.size % 64 != 56 do m := m.push 0
  for i in [0:8] do
    m := m.push (UInt8.ofNat ((bitLen >>> (8 * (7 - i))) % 256))
  let mut hs : Array UInt32 := #[0x6a09e667,0xbb67ae85,0x3c6ef372,0xa54ff53a,0x510e527f,0x9b05688c,0x1f83d9ab,0x5be0cd19]
  for blk in [0:m.size/64] do
    hs := sha256Block hs m (blk*64)
  let mut out := ByteArray.empty
  for x in hs do
    out := (((out.push (x >>> 24).toUInt8).push (x >>> 16).toUInt8).push (x >>> 8).toUInt8).push x.toUInt8
  return out

def hex (b : ByteArray) : String :=
  let d := "0123456789abcdef".toList.toArray
  b.foldl (fun s x => s.push d[x.toNat / 16]! |>.push d[x.toNat % 16]!) ""



/-- incremental SHAKE stream: all output bytes `[off, off+len)` of the XOF on `msg`. -/
def shakeL (rate : Nat) (msg : List UInt8) (outLen : Nat) : List UInt8 :=
  (shake rate (ByteArray.mk msg.toArray) outLen).toList

def shake128L (msg : List UInt8) (outLen : Nat) : List UInt8 := shakeL 168 msg outLen
def shake256L (msg : List UInt8) (outLen : Nat) : List UInt8 := shakeL 136 msg outLen
def sha256L (msg : List UInt8) : List UInt8 := (sha256 (ByteArray.mk msg.toArray)).toList

end Qrl.Hash
