import QrlModel.Proofs.XmssBasic
/-! # C02 — a one-time index is never reused, rewound or exceeded

`step` packages `Sign` / `SetIndex` of the model key object as a state machine in which a refused
operation returns the *same* key. The theorems relate it to the counter automaton of the property for
every key, every hash function whose output is 32 bytes, and every operation history. -/
namespace Qrl.Xmss.C02

inductive Op where
  | sign (msg : Bytes)
  | setIndex (j : Nat)

inductive Out where
  | sig (bytes : Bytes)
  | done
  | refused (cls : String)
  | faulted (what : String)
  deriving DecidableEq

section
variable (hashOf : Nat → Bytes → Bytes)

/-- one operation on the key object; refusals (the library's panics) leave the object untouched -/
def step (k : Key) : Op → Key × Out
  | .sign m =>
    match sign hashOf k m with
    | .ok (k', s) => (k', .sig s)
    | .refuse c => (k, .refused c)
    | .fault w => (k, .faulted w)
  | .setIndex j =>
    match setIndex hashOf k j with
    | .ok k' => (k', .done)
    | .refuse c => (k, .refused c)
    | .fault w => (k, .faulted w)

/-- the counter automaton of the property: idx ∈ [0, 2^h] -/
inductive SpecOut where
  | emit (idx : Nat) | done | refuse
  deriving DecidableEq

def specStep (h idx : Nat) : Op → Nat × SpecOut
  | .sign _ => if idx < 2 ^ h then (idx + 1, .emit idx) else (idx, .refuse)
  | .setIndex j => if j ≥ 2 ^ h ∨ j < idx then (idx, .refuse) else (j, .done)

/-- what an observer sees of an output: the embedded index of a signature, success, or refusal -/
def observe : Out → Option SpecOut
  | .sig s => some (.emit (indexOf s))
  | .done => some .done
  | .refused _ => some .refuse
  | .faulted _ => none

def HashLen : Prop := ∀ hf x, (hashOf hf x).length = 32

/-- what one step guarantees, relative to the automaton -/
structure StepOK (k : Key) (op : Op) : Prop where
  out : observe (step hashOf k op).2 = some (specStep k.h k.index op).2
  idx : (step hashOf k op).1.index = (specStep k.h k.index op).1
  h : (step hashOf k op).1.h = k.h
  pk : (step hashOf k op).1.pk = k.pk
  seed : (step hashOf k op).1.seed = k.seed
  desc : (step hashOf k op).1.desc = k.desc
  same : (specStep k.h k.index op).2 = .refuse → (step hashOf k op).1 = k

theorem setIndex_refines (k : Key) (j : Nat) (h30 : k.h ≤ 30) (hj : j < 4294967296) : StepOK hashOf k (.setIndex j) := by
  by_cases h1 : j ≥ 2 ^ k.h
  · have e : setIndex hashOf k j = .refuse "index-high" := by simp [setIndex, h1]
    constructor <;> simp [step, e, specStep, h1, observe]
  · by_cases h2 : j < k.index
    · have e : setIndex hashOf k j = .refuse "rewind" := by simp [setIndex, h1, h2]
      constructor <;> simp [step, e, specStep, h2, observe]
    · have e := setIndex_ok hashOf k j (by omega) (by omega)
      have hs : specStep k.h k.index (.setIndex j) = (j, .done) := by simp [specStep, h1, h2]
      constructor
      · simp [step, e, hs, observe]
      · simp only [step, e, hs]; exact indexOf_setIdxBytes _ _ hj
      · simp [step, e]
      · simp only [step, e]; exact pk_setIdx k j _
      · simp [step, e]
      · simp [step, e]
      · rw [hs]; intro h; cases h

theorem sign_refines (hlen : HashLen hashOf) (k : Key) (m : Bytes) (h30 : k.h ≤ 30) : StepOK hashOf k (.sign m) := by
  have hp := pow_le30 k.h h30
  by_cases h1 : k.index < 2 ^ k.h
  · obtain ⟨body, e⟩ := sign_ok hashOf hlen k m h30 h1
    have hs : specStep k.h k.index (.sign m) = (k.index + 1, .emit k.index) := by simp [specStep, h1]
    constructor
    · simp only [step, e, hs, observe]
      rw [indexOf_toBytesBE_append _ _ (by omega)]
    · simp only [step, e, hs]
      exact indexOf_setIdxBytes _ (k.index + 1) (by omega)
    · simp [step, e]
    · simp only [step, e, setIdx_setIdx]; exact pk_setIdx k _ _
    · simp [step, e]
    · simp [step, e]
    · rw [hs]; intro h; cases h
  · have hge : k.index ≥ 2 ^ k.h := by omega
    have e : sign hashOf k m = .refuse "index-high" := by simp [sign, setIndex, hge, bind, Outcome.bind]
    constructor <;> simp [step, e, specStep, h1, observe]

/-- the whole history: run the key object and the counter automaton side by side -/
def run (k : Key) : List Op → Key × List Out
  | [] => (k, [])
  | op :: rest => ((run (step hashOf k op).1 rest).1, (step hashOf k op).2 :: (run (step hashOf k op).1 rest).2)

def specRun (h idx : Nat) : List Op → Nat × List SpecOut
  | [] => (idx, [])
  | op :: rest => ((specRun h (specStep h idx op).1 rest).1, (specStep h idx op).2 :: (specRun h (specStep h idx op).1 rest).2)

def opOK : Op → Prop
  | .sign _ => True
  | .setIndex j => j < 4294967296

/-- **refinement**: for every history of Sign / SetIndex(j ∈ uint32) calls the observable behaviour of the
key object is exactly that of the counter automaton, and public key, seed and descriptor never change -/
theorem refines_counter (hlen : HashLen hashOf) : ∀ (ops : List Op) (k : Key), k.h ≤ 30 → (∀ op ∈ ops, opOK op) →
    (run hashOf k ops).2.map observe = (specRun k.h k.index ops).2.map some ∧
    (run hashOf k ops).1.index = (specRun k.h k.index ops).1 ∧
    (run hashOf k ops).1.pk = k.pk ∧ (run hashOf k ops).1.seed = k.seed ∧ (run hashOf k ops).1.desc = k.desc
  | [], k, _, _ => ⟨rfl, rfl, rfl, rfl, rfl⟩
  | op :: rest, k, h30, hops => by
    have hstep : StepOK hashOf k op := by
      cases op with
      | sign m => exact sign_refines hashOf hlen k m h30
      | setIndex j => exact setIndex_refines hashOf k j h30 (hops (.setIndex j) (by simp))
    have ih := refines_counter hlen rest (step hashOf k op).1 (by rw [hstep.h]; exact h30)
      (fun o ho' => hops o (List.mem_cons_of_mem _ ho'))
    simp only [run, specRun, List.map_cons]
    rw [hstep.h, hstep.idx] at ih
    exact ⟨by rw [hstep.out, ih.1], ih.2.1, by rw [ih.2.2.1, hstep.pk], by rw [ih.2.2.2.1, hstep.seed], by rw [ih.2.2.2.2, hstep.desc]⟩

/-- consequences for the counter automaton itself: emitted indices are ≥ the counter and below 2^h -/
theorem spec_emits_bounds (h : Nat) : ∀ (ops : List Op) (idx : Nat) (i : Nat),
    SpecOut.emit i ∈ (specRun h idx ops).2 → idx ≤ i ∧ i < 2 ^ h
  | [], _, _, hm => by simp [specRun] at hm
  | op :: rest, idx, i, hm => by
    simp only [specRun, List.mem_cons] at hm
    cases op with
    | sign m =>
      simp only [specStep] at hm
      by_cases hlt : idx < 2 ^ h
      · simp only [hlt, if_true] at hm
        rcases hm with hm | hm
        · injection hm with hm; subst hm; exact ⟨Nat.le_refl _, hlt⟩
        · have := spec_emits_bounds h rest (idx+1) i hm; omega
      · simp only [hlt, if_false] at hm
        rcases hm with hm | hm
        · cases hm
        · exact spec_emits_bounds h rest idx i hm
    | setIndex j =>
      simp only [specStep] at hm
      by_cases hc : j ≥ 2 ^ h ∨ j < idx
      · simp only [hc, if_true] at hm
        rcases hm with hm | hm
        · cases hm
        · exact spec_emits_bounds h rest idx i hm
      · simp only [hc, if_false] at hm
        rcases hm with hm | hm
        · cases hm
        · have := spec_emits_bounds h rest j i hm; omega

/-- emitted indices are strictly increasing along any history -/
theorem spec_emits_strictly_increasing (h : Nat) : ∀ (ops : List Op) (idx : Nat),
    ((specRun h idx ops).2.filterMap (fun o => match o with | .emit i => some i | _ => none)).Pairwise (· < ·)
  | [], _ => by simp [specRun]
  | op :: rest, idx => by
    have ih := spec_emits_strictly_increasing h rest
    cases op with
    | sign m =>
      simp only [specRun, specStep]
      by_cases hlt : idx < 2 ^ h
      · simp only [hlt, if_true, List.filterMap_cons]
        refine List.Pairwise.cons (fun j hj => ?_) (ih (idx+1))
        obtain ⟨o, ho, hoj⟩ := List.mem_filterMap.mp hj
        cases o with
        | emit i' =>
          simp only [Option.some.injEq] at hoj; subst hoj
          have := (spec_emits_bounds h rest (idx+1) i' ho).1; omega
        | done => cases hoj
        | refuse => cases hoj
      · simp only [hlt, if_false, List.filterMap_cons]; exact ih idx
    | setIndex j =>
      simp only [specRun, specStep]
      by_cases hc : j ≥ 2 ^ h ∨ j < idx
      · simp only [hc, if_true, List.filterMap_cons]; exact ih idx
      · simp only [hc, if_false, List.filterMap_cons]; exact ih j

theorem spec_no_emit_after_exhaustion (h : Nat) (ops : List Op) (i : Nat) : SpecOut.emit i ∉ (specRun h (2 ^ h) ops).2 := by
  intro hm
  have := spec_emits_bounds h ops (2 ^ h) i hm
  omega

/-- a refused operation returns the very same key object (whole state, not just the index) -/
theorem refused_is_identity (k : Key) (op : Op) (c : String) (h : (step hashOf k op).2 = .refused c) :
    (step hashOf k op).1 = k := by
  cases op with
  | sign m =>
    simp only [step] at h ⊢
    split at h <;> simp_all
  | setIndex j =>
    simp only [step] at h ⊢
    split at h <;> simp_all

end

-- non-vacuity: the premises are met (a height within range; uint32 jump targets)
example : opOK (.setIndex 4294967295) := by simp [opOK]
example : (specRun 2 0 [.sign [], .setIndex 3, .sign [], .sign [], .setIndex 1]).2 =
    [.emit 0, .done, .emit 3, .refuse, .refuse] := by decide

end Qrl.Xmss.C02
