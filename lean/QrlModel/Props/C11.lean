import QrlModel.Model.Address
/-! # C11 — addresses and descriptors are derived and validated as specified

Hash functions are arbitrary parameters (`shake256 : Bytes → Nat → Bytes`, `sha256 : Bytes → Bytes`);
only the output lengths are assumed where a length matters. -/
namespace Qrl.C11

theorem toNat_ofNat (n : Nat) : (UInt8.ofNat n).toNat = n % 256 := by simp [UInt8.ofNat, UInt8.toNat]

theorem ofPrefix_bytes (d : Desc) :
    Desc.ofPrefix d.bytes =
      ⟨((d.sigType % 16) * 16 + d.hashFn % 16) % 256 % 16, ((d.sigType % 16) * 16 + d.hashFn % 16) % 256 / 16,
       (((d.addrFmt % 16) * 16 + (d.height % 256) / 2 % 16) % 256 % 16) * 2,
       ((d.addrFmt % 16) * 16 + (d.height % 256) / 2 % 16) % 256 / 16⟩ := by
  simp [Desc.ofPrefix, Desc.bytes, Desc.ofBytes, toNat_ofNat]

/-- **decode(encode(d)) = d** for every hash-function id, signature type and address format below 16 and
every even height up to 30 -/
theorem desc_roundtrip (d : Desc) (h1 : d.hashFn < 16) (h2 : d.sigType < 16) (h3 : d.addrFmt < 16)
    (h4 : d.height % 2 = 0) (h5 : d.height ≤ 30) : Desc.ofPrefix d.bytes = d := by
  obtain ⟨hf, sg, h, af⟩ := d
  simp only at h1 h2 h3 h4 h5
  rw [ofPrefix_bytes]
  dsimp only
  congr 1 <;> omega

/-- the decoded fields are always nibbles, the height even and at most 30 -/
theorem decoded_fields (b0 b1 : UInt8) :
    (Desc.ofBytes b0 b1).hashFn < 16 ∧ (Desc.ofBytes b0 b1).sigType < 16 ∧ (Desc.ofBytes b0 b1).addrFmt < 16 ∧
    (Desc.ofBytes b0 b1).height % 2 = 0 ∧ (Desc.ofBytes b0 b1).height ≤ 30 := by
  have := b0.toNat_lt; have := b1.toNat_lt
  simp only [Desc.ofBytes]; omega

/-- decoding, re-encoding and decoding again is the identity on decoded descriptors, for all byte pairs -/
theorem decode_encode_decode (b0 b1 : UInt8) : Desc.ofPrefix (Desc.ofBytes b0 b1).bytes = Desc.ofBytes b0 b1 := by
  obtain ⟨a, b, c, d, e⟩ := decoded_fields b0 b1
  exact desc_roundtrip _ a b c d e

/-- encoding is injective on the supported parameter space -/
theorem desc_bytes_injective (d e : Desc) (hd : d.hashFn < 16 ∧ d.sigType < 16 ∧ d.addrFmt < 16 ∧ d.height % 2 = 0 ∧ d.height ≤ 30)
    (he : e.hashFn < 16 ∧ e.sigType < 16 ∧ e.addrFmt < 16 ∧ e.height % 2 = 0 ∧ e.height ≤ 30) (h : d.bytes = e.bytes) : d = e := by
  rw [← desc_roundtrip d hd.1 hd.2.1 hd.2.2.1 hd.2.2.2.1 hd.2.2.2.2, ← desc_roundtrip e he.1 he.2.1 he.2.2.1 he.2.2.2.1 he.2.2.2.2, h]

section
variable (shake256 : Bytes → Nat → Bytes) (sha256 : Bytes → Bytes)

/-- XMSS address = re-encoded descriptor ‖ SHAKE256(pk)[15..32], 20 bytes; refused iff the format nibble is not 0 -/
theorem xmss_addr_spec (epk : Bytes) :
    xmssAddressFromPK shake256 epk =
      if (Desc.ofPrefix epk).addrFmt ≠ 0 then .refuse "addr-format"
      else .ok ((Desc.ofPrefix epk).bytes ++ (shake256 epk 32).drop 15) := rfl

theorem xmss_addr_length (epk a : Bytes) (hlen : (shake256 epk 32).length = 32)
    (h : xmssAddressFromPK shake256 epk = .ok a) : a.length = 20 := by
  rw [xmss_addr_spec] at h
  split at h
  · cases h
  · injection h with h; subst h; simp [Desc.bytes, hlen]

theorem ofPrefix_append (d : Desc) (rest : Bytes) : Desc.ofPrefix (d.bytes ++ rest) = Desc.ofPrefix d.bytes := by
  simp [Desc.ofPrefix, Desc.bytes]

/-- every address derived from a public key whose descriptor names the XMSS signature type is valid for
XMSS and invalid for Dilithium -/
theorem xmss_own_valid_other_invalid (epk a : Bytes) (hsig : (Desc.ofPrefix epk).sigType = 0)
    (h : xmssAddressFromPK shake256 epk = .ok a) :
    isValidXmssAddress a = true ∧ isValidDilAddress a = false := by
  rw [xmss_addr_spec] at h
  split at h
  · cases h
  · rename_i hfmt
    injection h with h; subst h
    have hfmt0 : (Desc.ofPrefix epk).addrFmt = 0 := by simpa using hfmt
    have hd : Desc.ofPrefix ((Desc.ofPrefix epk).bytes ++ (shake256 epk 32).drop 15) = Desc.ofPrefix epk := by
      rw [ofPrefix_append]; exact decode_encode_decode _ _
    constructor
    · simp [isValidXmssAddress, hd, hsig, hfmt0]
    · simp only [isValidDilAddress, Desc.bytes, hsig, List.cons_append, List.getD_cons_zero]
      apply beq_false_of_ne
      intro hc
      have := congrArg UInt8.toNat hc
      rw [toNat_ofNat] at this
      have h16 : (0x10 : UInt8).toNat = 16 := rfl
      rw [h16] at this
      omega

/-- Dilithium address = 0x10 ‖ SHAKE256(pk)[13..32]; valid for Dilithium, invalid for XMSS -/
theorem dil_addr_spec (pk : Bytes) : dilAddressFromPK shake256 pk = 0x10 :: (shake256 pk 32).drop 13 := rfl

theorem dil_addr_length (pk : Bytes) (hlen : (shake256 pk 32).length = 32) : (dilAddressFromPK shake256 pk).length = 20 := by
  simp [dilAddressFromPK, hlen]

theorem sigType_of_0x10 (b1 : UInt8) : (Desc.ofBytes 0x10 b1).sigType = 1 := rfl

theorem dil_own_valid_other_invalid (pk : Bytes) :
    isValidDilAddress (dilAddressFromPK shake256 pk) = true ∧ isValidXmssAddress (dilAddressFromPK shake256 pk) = false := by
  constructor
  · simp [isValidDilAddress, dilAddressFromPK]
  · simp [isValidXmssAddress, dilAddressFromPK, Desc.ofPrefix, sigType_of_0x10]

/-- no 20-byte string is a valid address of both schemes -/
theorem address_spaces_disjoint (a : Bytes) : ¬ (isValidXmssAddress a = true ∧ isValidDilAddress a = true) := by
  intro ⟨hx, hd⟩
  simp only [isValidDilAddress, beq_iff_eq] at hd
  simp only [isValidXmssAddress, Desc.ofPrefix, hd, sigType_of_0x10, Bool.and_eq_true, beq_iff_eq] at hx
  omega

/-- a legacy address is accepted exactly when the format nibble is 0 and bytes 35.. equal the last four
bytes of SHA-256 of bytes 0..34 -/
theorem legacy_valid_iff (a : Bytes) :
    isValidLegacyAddress sha256 a = true ↔
      (Desc.ofPrefix a).addrFmt = 0 ∧ a.drop 35 = (sha256 (a.take 35)).drop 28 := by
  simp [isValidLegacyAddress]

/-- every legacy address the library derives is accepted by its own validator -/
theorem legacy_derived_valid (epk a : Bytes) (hlen : (sha256 epk).length = 32)
    (h : legacyAddressFromPK sha256 epk = .ok a) : isValidLegacyAddress sha256 a = true := by
  unfold legacyAddressFromPK at h
  simp only at h
  split at h
  · cases h
  · rename_i hfmt
    injection h with h; subst h
    have hfmt0 : (Desc.ofPrefix epk).addrFmt = 0 := by simpa using hfmt
    have hbl : ((Desc.ofPrefix epk).bytes ++ sha256 epk).length = 35 := by simp [Desc.bytes, hlen]
    rw [legacy_valid_iff]
    constructor
    · rw [List.append_assoc, ofPrefix_append]
      have := decode_encode_decode (epk.getD 0 0) (epk.getD 1 0)
      simp only [Desc.ofPrefix] at this hfmt0 ⊢
      rw [this]; exact hfmt0
    · rw [List.drop_left' hbl, List.take_left' hbl]

/-- the checksum is determined by the first 35 bytes: two accepted legacy addresses that agree there are equal, so a
change confined to the checksum bytes (any one of them, any value) is always refused -/
theorem legacy_checksum_unique (a b : Bytes) (ha : isValidLegacyAddress sha256 a = true)
    (hb : isValidLegacyAddress sha256 b = true) (h : a.take 35 = b.take 35) : a = b := by
  rw [legacy_valid_iff] at ha hb
  have hd : a.drop 35 = b.drop 35 := by rw [ha.2, hb.2, h]
  rw [← List.take_append_drop 35 a, ← List.take_append_drop 35 b, h, hd]

theorem legacy_checksum_change_refused (a b : Bytes) (ha : isValidLegacyAddress sha256 a = true)
    (h : a.take 35 = b.take 35) (hne : a ≠ b) : isValidLegacyAddress sha256 b = false := by
  cases hb : isValidLegacyAddress sha256 b with
  | false => rfl
  | true => exact absurd (legacy_checksum_unique sha256 a b ha hb h) hne

end

-- non-vacuity: concrete descriptors meet the hypotheses
example : Desc.ofPrefix (Desc.bytes ⟨1, 0, 10, 0⟩) = ⟨1, 0, 10, 0⟩ := by decide
example : (Desc.ofPrefix [0x01, 0x02, 0x00]).sigType = 0 := by decide

end Qrl.C11
