import QrlModel.Proofs.DilPack
import QrlModel.Proofs.DilSigCanon
import QrlModel.Proofs.DilE2E
/-! # C13 — Dilithium key and signature encodings are lossless and canonical

Lane identities are proved on the *generated* lane functions (the loop bodies of the ten pack/unpack
functions of poly.go, regenerated on every run) by `bv_decide`, and lifted over all 256 positions. The
`bv_decide` axioms (one per call: CaDiCaL proof checked by the verified LRAT checker, evaluated natively) are
accepted for these bit-shuffling identities only and are listed in the evidence. -/
namespace Qrl.C13
open Qrl.Dil Qrl.DilPack

/-- t1 (10 bits): unpack ∘ pack = id on [0, 2^10)^256 -/
theorem t1_lossless (a : Poly) (hl : a.length = 256) (hr : ∀ x ∈ a, x < 1024#32) : polyT1Unpack (polyT1Pack a) = a :=
  t1_roundtrip a hl hr
/-- t1: pack ∘ unpack = id on all 320-byte strings (canonical) -/
theorem t1_canonical (b : Bytes) (hl : b.length = 320) : polyT1Pack (polyT1Unpack b) = b := DilPack.t1_canonical b hl

/-- t0 (13 bits, centred): unpack ∘ pack = id on (−2^12, 2^12]^256 -/
theorem t0_lossless (a : Poly) (hl : a.length = 256)
    (hr : ∀ x ∈ a, BitVec.slt (BitVec.ofInt 32 (-4096)) x = true ∧ BitVec.sle x 4096#32 = true) : polyT0Unpack (polyT0Pack a) = a :=
  t0_roundtrip a hl hr

/-- eta: unpack ∘ pack = id on [−2, 2]^256 -/
theorem eta_lossless (a : Poly) (hl : a.length = 256)
    (hr : ∀ x ∈ a, BitVec.sle (BitVec.ofInt 32 (-2)) x = true ∧ BitVec.sle x 2#32 = true) : polyEtaUnpack (polyEtaPack a) = a :=
  eta_roundtrip a hl hr

/-- z (20 bits, centred): unpack ∘ pack = id on (−2^19, 2^19]^256 -/
theorem z_lossless (a : Poly) (hl : a.length = 256)
    (hr : ∀ x ∈ a, BitVec.slt (BitVec.ofInt 32 (-524288)) x = true ∧ BitVec.sle x 524288#32 = true) : polyZUnpack (polyZPack a) = a :=
  z_roundtrip a hl hr
/-- z: pack ∘ unpack = id on all 640-byte strings (canonical): accepted z-sections re-encode to themselves -/
theorem z_canonical (b : Bytes) (hl : b.length = 640) : polyZPack (polyZUnpack b) = b := DilPack.z_canonical b hl

/-- w1 (4 bits): the packing is injective on [0,16)^256 -/
theorem w1_lossless (a b : Poly) (ha : a.length = 256) (hb : b.length = 256) (hra : ∀ x ∈ a, x < 16#32) (hrb : ∀ x ∈ b, x < 16#32)
    (h : polyW1Pack a = polyW1Pack b) : a = b := w1_injective a b ha hb hra hrb h

/-- **hint vectors of every admissible weight round-trip**: K rows of 256 coefficients in {0,1}, total weight
≤ ω = 75 (weight exactly 75 and empty rows included) -/
theorem hints_lossless (h : List Poly) (hK : h.length = Gen.Dil.K) (hv : ∀ r ∈ h, DilHints.ValidRow r)
    (hw : ((h.map rowPositions).flatten).length ≤ Gen.Dil.OMEGA) : unpackHints (packHints h) = some h :=
  DilHints.hints_roundtrip h hK hv hw

/-- **accepted ⇒ canonical**: whenever the decoder accepts a 4595-byte signature, re-encoding the decoded
(c̃, z, h) reproduces exactly those bytes — so distinct accepted byte strings decode to distinct values -/
theorem sig_canonical (sig : Bytes) (hl : sig.length = Gen.Dil.CryptoBytes) (parts : SigParts) (h : unpackSig sig = some parts) :
    packSig parts.c parts.z parts.h = sig := DilHints.sig_canonical sig hl parts h

/-- the signature layout: c̃ (32) ‖ z (7·640) ‖ hints (83) -/
theorem sig_layout (c : Bytes) (z h : List Poly) (hc : c.length = 32) :
    (packSig c z h).take 32 = c ∧ ((packSig c z h).drop 32).take (z.flatMap polyZPack).length = z.flatMap polyZPack := by
  simp [packSig, ← hc]

/-- **secret-key layout is lossless**: ρ ‖ key ‖ tr ‖ pack(s1) ‖ pack(s2) ‖ pack(t0) decodes to exactly those components,
for every s1 ∈ [−2,2]^{L×256}, s2 ∈ [−2,2]^{K×256}, t0 ∈ (−2^12, 2^12]^{K×256} (all K rows of s2 and t0, all L rows of s1) -/
theorem sk_lossless (rho key tr : Bytes) (s1 s2 t0 : List Poly) (hr : rho.length = 32) (hk : key.length = 32) (ht : tr.length = 32)
    (l1 : s1.length = Gen.Dil.L) (l2 : s2.length = Gen.Dil.K) (l3 : t0.length = Gen.Dil.K)
    (g1 : ∀ p ∈ s1, NttBridge.Good (-2) 2 p) (g2 : ∀ p ∈ s2, NttBridge.Good (-2) 2 p) (g3 : ∀ p ∈ t0, NttBridge.Good (-4095) 4096 p) :
    unpackSk (rho ++ key ++ tr ++ s1.flatMap polyEtaPack ++ s2.flatMap polyEtaPack ++ t0.flatMap polyT0Pack) = (rho, key, tr, s1, s2, t0) := by
  obtain ⟨u1, u2, u3, u4, u5, u6⟩ := NttBridge.sk_unpack rho key tr s1 s2 t0 hr hk ht l1 l2 l3 g1 g2 g3
  unfold unpackSk
  dsimp only
  rw [u1, u2, u3, u4, u5, u6]

/-- **public-key layout is lossless**: ρ ‖ pack(t1) decodes to (ρ, t1) for every t1 ∈ [0, 2^10)^{K×256} -/
theorem pk_lossless (rho : Bytes) (t1 : List Poly) (hr : rho.length = 32) (l1 : t1.length = Gen.Dil.K) (g1 : ∀ p ∈ t1, NttBridge.Good 0 1023 p) :
    unpackPk (rho ++ t1.flatMap polyT1Pack) = (rho, t1) := by
  obtain ⟨p1, p2⟩ := NttBridge.pk_unpack rho t1 hr l1 g1
  unfold unpackPk
  rw [p1, p2]

-- non-vacuity: extreme values are inside the stated ranges
example : BitVec.slt (BitVec.ofInt 32 (-524288)) (BitVec.ofInt 32 (-524287)) = true ∧ BitVec.sle (524288#32) 524288#32 = true := by decide
example : (1023#32 : BitVec 32) < 1024#32 := by decide

end Qrl.C13
