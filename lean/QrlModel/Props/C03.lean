import QrlModel.Model.Dilithium
import QrlModel.Props.C12
/-! # C03 — every Dilithium signature and sealed message verifies

Proved here: the sealed-message framing for every message (including the empty one), for arbitrary XOFs;
the coefficient-level reason the verifier recomputes the signer's w1 (`hint_correct`, all of ℤ_q × the
ranges the three rejection tests leave). `verify_sign_partial` names what is still missing for the
end-to-end theorem (linearity of the NTT-domain computation); that part rests on the correspondence run:
Verify(Sign(m)), Open(Seal(m)), Extract* on the real code for thousands of (seed, message) pairs plus the
boundary corpus (rejection bounds met with equality), byte-compared with the executable model. -/
namespace Qrl.C03
open Qrl.Dil Gen.Dil

section
variable (shake128 shake256 : Bytes → Nat → Bytes)

/-- `ExtractSignature` / `ExtractMessage` of the library -/
def extractSignature (sm : Bytes) : Bytes := sm.take CryptoBytes
def extractMessage (sm : Bytes) : Bytes := sm.drop CryptoBytes

/-- the sealed form is signature ‖ message, so the extracted parts are the detached signature and the message,
for every message (the signature has the fixed size 4595) -/
theorem seal_framing (sk msg sm : Bytes) (h : sealMsg shake128 shake256 sk msg = some sm) :
    ∃ sig ex viol, signDetached shake128 shake256 {} sk msg = some (sig, ex, viol) ∧ sm = sig ++ msg := by
  unfold sealMsg at h
  cases hs : signDetached shake128 shake256 {} sk msg with
  | none => rw [hs] at h; cases h
  | some r =>
    obtain ⟨sig, ex, viol⟩ := r
    rw [hs] at h
    simp only [Option.map_some, Option.some.injEq] at h
    exact ⟨sig, ex, viol, rfl, h.symm⟩

theorem extract_of_seal (sig msg : Bytes) (hl : sig.length = CryptoBytes) :
    extractSignature (sig ++ msg) = sig ∧ extractMessage (sig ++ msg) = msg := by
  simp [extractSignature, extractMessage, ← hl]

/-- `Open(Seal(m)) = m` whenever the detached signature verifies; in particular for the empty message the
result is the empty message, not "nothing" -/
theorem open_of_verify (sig msg pk : Bytes) (hl : sig.length = CryptoBytes)
    (hv : verify shake128 shake256 sig msg pk = true) : openSealed shake128 shake256 (sig ++ msg) pk = some msg := by
  unfold openSealed
  have h1 : ¬ ((sig ++ msg).length < CryptoBytes) := by simp [hl]
  rw [if_neg h1]
  have h2 : (sig ++ msg).take CryptoBytes = sig := by simp [← hl]
  have h3 : (sig ++ msg).drop CryptoBytes = msg := by simp [← hl]
  rw [h2, h3]; simp only [hv, if_true]

/-- and conversely `Open` returns a message only for a verifying pair -/
theorem open_some_iff (sm pk m : Bytes) :
    openSealed shake128 shake256 sm pk = some m ↔
      CryptoBytes ≤ sm.length ∧ verify shake128 shake256 (sm.take CryptoBytes) (sm.drop CryptoBytes) pk = true ∧ m = sm.drop CryptoBytes := by
  unfold openSealed
  by_cases h : sm.length < CryptoBytes
  · simp [h]; omega
  · simp only [h, if_false]
    by_cases hv : verify shake128 shake256 (sm.take CryptoBytes) (sm.drop CryptoBytes) pk = true
    · simp [hv]; constructor
      · intro e; exact ⟨by omega, e.symm⟩
      · intro e; exact e.2.symm
    · simp [hv]

end

/-- the coefficient-level heart of `Verify(Sign(m))`: with (w1, w0) = Decompose(w), for the perturbations the
signer's accepting conditions allow, the verifier's UseHint recovers w1 from w − c·s2 + c·t0 and the hint -/
theorem hint_recovers_w1 (w e f : Int) (h0 : 0 ≤ w) (h1 : w < 8380417)
    (he : -(261888 - 120) < (DilProofs.decompSpec w).2 + e ∧ (DilProofs.decompSpec w).2 + e < 261888 - 120)
    (hf : -261888 < f ∧ f < 261888) :
    DilProofs.useHintSpec ((w + e + f) % 8380417) (DilProofs.makeHintSpec ((DilProofs.decompSpec w).2 + e + f) (DilProofs.decompSpec w).1)
      = (DilProofs.decompSpec w).1 := Qrl.C12.hint_correct w e f h0 h1 he hf

end Qrl.C03
