import QrlModel.Model.Dilithium
import QrlModel.Props.C12
import QrlModel.Proofs.DilVS
/-! # C03 — every Dilithium signature and sealed message verifies

`verify_sign`: **for every seed, every message and arbitrary extendable-output functions** (only their output lengths
are assumed), whenever the model's signing loop returns a signature, the model's verifier accepts it under the public
key generated from the same seed; the sealed message opens to the message; the extracted parts are the detached
signature and the message. Hypotheses: `XofLen` (the XOFs return as many bytes as asked), `Expanded seed` (the
rejection-sampling loops of key generation filled their 256 coefficients — in the library they loop until they do;
the model gives them 64 blocks), and that signing returned (termination of the rejection loop is a property of
the XOF and is not provable; the run records that the real signer always returned).

The proof (`Proofs/Dil*.lean`, `Proofs/Ntt*.lean`) follows the int32 values of the code: residues in `ZMod q` via
the BitVec → field bridge with explicit growth bounds (no intermediate leaves int32), the CRT-tree NTT theorems
(`INV ∘ NTT = NTT ∘ INV = 256`, linearity), the NTT-domain identity `A·z − c·t1·2^d = A·y − c·s2 + c·t0` for
`t = A·s1 + s2 = t1·2^d + t0`, `z = y + c·s1`, then the coefficient lemma `coeff_hint_ok` (from the three accepting
tests to `UseHint(…, MakeHint(…)) = w1`, on the generated scalar functions), the packing round trips of C13 for
pk / sk / signature, and the hint-count bookkeeping. The `bv_decide` axioms of the packer lanes are inherited
(listed in the evidence).

`hint_recovers_w1` is the coefficient-level statement on integers; `seal_framing` … `open_some_iff` are the framing
facts for arbitrary keys. -/
namespace Qrl.C03
open Qrl.Dil Gen.Dil

section
variable (shake128 shake256 : Bytes → Nat → Bytes)

/-- `ExtractSignature` / `ExtractMessage` of the library -/
def extractSignature (sm : Bytes) : Bytes := sm.take CryptoBytes
def extractMessage (sm : Bytes) : Bytes := sm.drop CryptoBytes

/-- the sealed form is signature ‖ message, so the extracted parts are the detached signature and the message,
for every message (the signature has the fixed size 4595) -/
theorem seal_framing (sk msg sm : Bytes) (h : sealMsg shake128 shake256 sk msg = some sm) :
    ∃ sig ex viol, signDetached shake128 shake256 {} sk msg = some (sig, ex, viol) ∧ sm = sig ++ msg := by
  unfold sealMsg at h
  cases hs : signDetached shake128 shake256 {} sk msg with
  | none => rw [hs] at h; cases h
  | some r =>
    obtain ⟨sig, ex, viol⟩ := r
    rw [hs] at h
    simp only [Option.map_some, Option.some.injEq] at h
    exact ⟨sig, ex, viol, rfl, h.symm⟩

theorem extract_of_seal (sig msg : Bytes) (hl : sig.length = CryptoBytes) :
    extractSignature (sig ++ msg) = sig ∧ extractMessage (sig ++ msg) = msg := by
  simp [extractSignature, extractMessage, ← hl]

/-- `Open(Seal(m)) = m` whenever the detached signature verifies; in particular for the empty message the
result is the empty message, not "nothing" -/
theorem open_of_verify (sig msg pk : Bytes) (hl : sig.length = CryptoBytes)
    (hv : verify shake128 shake256 sig msg pk = true) : openSealed shake128 shake256 (sig ++ msg) pk = some msg := by
  unfold openSealed
  have h1 : ¬ ((sig ++ msg).length < CryptoBytes) := by simp [hl]
  rw [if_neg h1]
  have h2 : (sig ++ msg).take CryptoBytes = sig := by simp [← hl]
  have h3 : (sig ++ msg).drop CryptoBytes = msg := by simp [← hl]
  rw [h2, h3]; simp only [hv, if_true]

/-- and conversely `Open` returns a message only for a verifying pair -/
theorem open_some_iff (sm pk m : Bytes) :
    openSealed shake128 shake256 sm pk = some m ↔
      CryptoBytes ≤ sm.length ∧ verify shake128 shake256 (sm.take CryptoBytes) (sm.drop CryptoBytes) pk = true ∧ m = sm.drop CryptoBytes := by
  unfold openSealed
  by_cases h : sm.length < CryptoBytes
  · simp [h] <;> omega
  · simp only [h, if_false]
    by_cases hv : verify shake128 shake256 (sm.take CryptoBytes) (sm.drop CryptoBytes) pk = true
    · simp [hv]; constructor
      · intro e; exact ⟨by omega, e.symm⟩
      · intro e; exact e.2.symm
    · simp [hv]

end

section
variable (shake128 shake256 : Bytes → Nat → Bytes)

/-- **`Verify(msg, Sign(msg), PK) = true`**, and the signature has the fixed size 4595 -/
theorem verify_sign (hx : NttBridge.XofLen shake128 shake256) (seed msg : Bytes) (hE : NttBridge.Expanded shake128 shake256 seed)
    (sig : Bytes) (ex : List Exit) (viol : List String)
    (hs : signDetached shake128 shake256 {} (keypair shake128 shake256 seed).sk msg = some (sig, ex, viol)) :
    verify shake128 shake256 sig msg (keypair shake128 shake256 seed).pk = true ∧ sig.length = CryptoBytes :=
  NttBridge.verify_sign shake128 shake256 hx seed msg hE sig ex viol hs

/-- the decidable form of `Expanded` which the driver evaluates on every seed of a run (`dl.filled`) -/
theorem expanded_of_filled (seed : Bytes) (h : keygenFilled shake128 shake256 seed = true) : NttBridge.Expanded shake128 shake256 seed := by
  unfold keygenFilled at h
  simp only [Bool.and_eq_true, List.all_eq_true, beq_iff_eq, List.mem_range] at h
  obtain ⟨⟨hm, h1⟩, h2⟩ := h
  refine ⟨hm, ?_, ?_⟩
  · intro p hp
    simp only [NttBridge.kS1, List.mem_map, List.mem_range] at hp
    obtain ⟨i, hi, rfl⟩ := hp
    exact h1 i hi
  · intro p hp
    simp only [NttBridge.kS2, List.mem_map, List.mem_range] at hp
    obtain ⟨i, hi, rfl⟩ := hp
    exact h2 i hi

/-- **`Open(Seal(msg), PK) = msg`, `ExtractSignature(Seal(msg)) = Sign(msg)`, `ExtractMessage(Seal(msg)) = msg`**,
for every message including the empty one -/
theorem open_seal (hx : NttBridge.XofLen shake128 shake256) (seed msg sm : Bytes) (hE : NttBridge.Expanded shake128 shake256 seed)
    (hs : sealMsg shake128 shake256 (keypair shake128 shake256 seed).sk msg = some sm) :
    openSealed shake128 shake256 sm (keypair shake128 shake256 seed).pk = some msg ∧
    (∃ ex viol, signDetached shake128 shake256 {} (keypair shake128 shake256 seed).sk msg = some (extractSignature sm, ex, viol)) ∧
    extractMessage sm = msg := by
  obtain ⟨sig, ex, viol, hd, rfl⟩ := seal_framing shake128 shake256 _ msg sm hs
  obtain ⟨hv, hl⟩ := verify_sign shake128 shake256 hx seed msg hE sig ex viol hd
  obtain ⟨e1, e2⟩ := extract_of_seal sig msg hl
  exact ⟨open_of_verify shake128 shake256 sig msg _ hl hv, ⟨ex, viol, by rw [e1]; exact hd⟩, e2⟩

end

/-- the coefficient-level heart of `Verify(Sign(m))`: with (w1, w0) = Decompose(w), for the perturbations the
signer's accepting conditions allow, the verifier's UseHint recovers w1 from w − c·s2 + c·t0 and the hint -/
theorem hint_recovers_w1 (w e f : Int) (h0 : 0 ≤ w) (h1 : w < 8380417)
    (he : -(261888 - 120) < (DilProofs.decompSpec w).2 + e ∧ (DilProofs.decompSpec w).2 + e < 261888 - 120)
    (hf : -261888 < f ∧ f < 261888) :
    DilProofs.useHintSpec ((w + e + f) % 8380417) (DilProofs.makeHintSpec ((DilProofs.decompSpec w).2 + e + f) (DilProofs.decompSpec w).1)
      = (DilProofs.decompSpec w).1 := Qrl.C12.hint_correct w e f h0 h1 he hf

end Qrl.C03
