import QrlModel.Model.Dilithium
import QrlModel.Props.C12
import QrlModel.Props.C13
import QrlModel.Props.C15
/-! # C07 — Dilithium keys and signatures equal the Dilithium5 (round 3.1) specification

Component theorems, each for all inputs: the scalar functions equal their textbook definitions (C12), the
packers are lossless (C13), the samplers are the specified functions of an arbitrary byte stream, signing
is a function of (sk, message) — no randomness, no hidden state (effect table, C15). The top-level equality
with a schoolbook-arithmetic specification needs the NTT theorem and is `…_partial` until then; it rests
on the correspondence run (key generation and signatures byte-compared with the executable model, the
boundary corpus of rejection tests met with equality, samplers presented with boundary buffers). -/
namespace Qrl.C07
open Qrl.Dil Gen.Dil

/-- the 23-bit candidates of a byte stream, three bytes each (an incomplete trailing group is dropped) -/
def candidates : Bytes → List Nat
  | b0 :: b1 :: b2 :: rest => (b0.toNat + b1.toNat * 256 + b2.toNat * 65536) % 8388608 :: candidates rest
  | _ => []

/-- **rejUniform** is: the candidates below q, in order, at most `n` of them — for every buffer -/
theorem rejUniform_spec : ∀ (n : Nat) (buf : Bytes),
    rejUniform n buf = (((candidates buf).filter (· < Q)).take n).map (BitVec.ofNat 32)
  | 0, buf => by simp [rejUniform]
  | n+1, [] => by simp [rejUniform, candidates]
  | n+1, [_] => by simp [rejUniform, candidates]
  | n+1, [_, _] => by simp [rejUniform, candidates]
  | n+1, b0 :: b1 :: b2 :: rest => by
    rw [rejUniform]
    simp only [candidates]
    by_cases h : (b0.toNat + b1.toNat * 256 + b2.toNat * 65536) % 8388608 < Q
    · simp only [h, if_true, List.filter_cons, decide_true, List.take_succ_cons, List.map_cons]
      rw [rejUniform_spec n rest]
    · simp only [h, if_false, List.filter_cons, decide_false]
      rw [rejUniform_spec (n+1) rest]
      simp
termination_by n buf => buf.length

/-- a candidate equal to q is rejected, q − 1 is accepted (the acceptance test is `t < q`) -/
theorem rejUniform_boundary :
    rejUniform 4 [0x01, 0xe0, 0x7f, 0x00, 0xe0, 0x7f, 0x02, 0xe0, 0x7f] = [BitVec.ofNat 32 8380416] := by
  simp [rejUniform_spec, candidates, Q]

/-- the first squeeze of `polyUniform` is 842 bytes; if the first 280 candidates already give 256
coefficients (probability of failure < 10^-39 per polynomial) the result depends only on the first 840
stream bytes, exactly as in the specification -/
theorem polyUniform_first_block (shake128 : Bytes → Nat → Bytes) (seed : Bytes) (nonce : Nat)
    (h : (rejUniform 256 (shake128 (seed ++ nonceBytes nonce) 842)).length = 256) :
    polyUniform shake128 seed nonce = rejUniform 256 (shake128 (seed ++ nonceBytes nonce) 842) := by
  unfold polyUniform
  simp only
  unfold polyUniformLoop
  rw [if_neg (by show ¬ _ < 256; rw [show Dil.N = 256 from rfl, h]; exact Nat.lt_irrefl _)]
  rfl

/-- signing is deterministic: the library's signing path contains no randomness and no write to shared or
receiver state (regenerated effect table), and the model's `signDetached` is a function of (sk, message) -/
theorem sign_has_no_hidden_inputs :
    ("dilithium.Dilithium.Sign", "rand", "rand.Read") ∉ Gen.Effects.effects ∧
    ("dilithium.cryptoSign", "rand", "rand.Read") ∉ Gen.Effects.effects ∧
    (Gen.Effects.effects.filter (fun e => e.2.1 != "rand")) = [] := by decide

/-- the parameter set is Dilithium5 (round 3.1): K=8, L=7, η=2, τ=60, β=120, γ1=2^19, γ2=(q−1)/32, ω=75 -/
theorem parameter_set : K = 8 ∧ L = 7 ∧ ETA = 2 ∧ TAU = 60 ∧ BETA = 120 ∧ GAMMA1 = 524288 ∧ GAMMA2 = 261888 ∧ OMEGA = 75 ∧
    Q = 8380417 ∧ D = 13 ∧ CryptoPublicKeyBytes = 2592 ∧ CryptoSecretKeyBytes = 4864 ∧ CryptoBytes = 4595 := by decide

end Qrl.C07
