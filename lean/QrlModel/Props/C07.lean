import QrlModel.Model.Dilithium
import QrlModel.Props.C12
import QrlModel.Props.C13
import QrlModel.Props.C15
import QrlModel.Proofs.DilSpec
/-! # C07 — Dilithium keys and signatures equal the Dilithium5 (round 3.1) specification

`keygen_spec`: key generation of the model *is* the specification's: t̂ = Â·ŝ1 + ŝ2 in the NTT domain over `ZMod q`
(with `ntt_is_evaluation` of C12: the NTT is evaluation at the 256 roots in the table's order, and `INV ∘ NTT = 256`
makes it injective), `t` the canonical representative in [0, q), t = t1·2^13 + t0 with the specified ranges, and the
byte layout of pk and sk — for every seed and arbitrary XOFs. `sign_w_spec`, `sign_z_spec`: the signer's ŵ = Â·ŷ
and ẑ = ĉ·ŝ1 + ŷ. Component theorems, each for all inputs: the scalar functions equal their textbook definitions
(C12), the packers are lossless (C13), `rejUniform` is the specified function of an arbitrary byte stream, signing
has no hidden inputs (effect table, C15). **Partial:** "the signature bytes equal a separately written
specification-level signer" is not a single theorem; what the signer computes is characterised by the equations
above plus C03.verify_sign, and the library is compared byte for byte with the executable model (oracle ops) on
seeds × messages and the boundary corpus. -/
namespace Qrl.C07
open Qrl.Dil Gen.Dil

/-- the 23-bit candidates of a byte stream, three bytes each (an incomplete trailing group is dropped) -/
def candidates : Bytes → List Nat
  | b0 :: b1 :: b2 :: rest => (b0.toNat + b1.toNat * 256 + b2.toNat * 65536) % 8388608 :: candidates rest
  | _ => []

/-- **rejUniform** is: the candidates below q, in order, at most `n` of them — for every buffer -/
theorem rejUniform_spec : ∀ (n : Nat) (buf : Bytes),
    rejUniform n buf = (((candidates buf).filter (· < Q)).take n).map (BitVec.ofNat 32)
  | 0, buf => by simp [rejUniform]
  | n+1, [] => by simp [rejUniform, candidates]
  | n+1, [_] => by simp [rejUniform, candidates]
  | n+1, [_, _] => by simp [rejUniform, candidates]
  | n+1, b0 :: b1 :: b2 :: rest => by
    rw [rejUniform]
    simp only [candidates]
    by_cases h : (b0.toNat + b1.toNat * 256 + b2.toNat * 65536) % 8388608 < Q
    · simp only [h, if_true, List.filter_cons, decide_true, List.take_succ_cons, List.map_cons]
      rw [rejUniform_spec n rest]
    · simp only [h, if_false, List.filter_cons, decide_false]
      rw [rejUniform_spec (n+1) rest]
      simp
termination_by n buf => buf.length

/-- a candidate equal to q is rejected, q − 1 is accepted (the acceptance test is `t < q`) -/
theorem rejUniform_boundary :
    rejUniform 4 [0x01, 0xe0, 0x7f, 0x00, 0xe0, 0x7f, 0x02, 0xe0, 0x7f] = [BitVec.ofNat 32 8380416] := by
  simp [rejUniform_spec, candidates, Q]

/-- the first squeeze of `polyUniform` is 842 bytes; if the first 280 candidates already give 256
coefficients (probability of failure < 10^-39 per polynomial) the result depends only on the first 840
stream bytes, exactly as in the specification -/
theorem polyUniform_first_block (shake128 : Bytes → Nat → Bytes) (seed : Bytes) (nonce : Nat)
    (h : (rejUniform 256 (shake128 (seed ++ nonceBytes nonce) 842)).length = 256) :
    polyUniform shake128 seed nonce = rejUniform 256 (shake128 (seed ++ nonceBytes nonce) 842) := by
  unfold polyUniform
  simp only
  unfold polyUniformLoop
  rw [if_neg (by show ¬ _ < 256; rw [show Dil.N = 256 from rfl, h]; exact Nat.lt_irrefl _)]
  rfl

/-- signing is deterministic: the library's signing path contains no randomness and no write to shared or
receiver state (regenerated effect table), and the model's `signDetached` is a function of (sk, message) -/
theorem sign_has_no_hidden_inputs :
    ("dilithium.Dilithium.Sign", "rand", "rand.Read") ∉ Gen.Effects.effects ∧
    ("dilithium.cryptoSign", "rand", "rand.Read") ∉ Gen.Effects.effects ∧
    (Gen.Effects.effects.filter (fun e => e.2.1 != "rand")) = [] := by decide

/-- the parameter set is Dilithium5 (round 3.1): K=8, L=7, η=2, τ=60, β=120, γ1=2^19, γ2=(q−1)/32, ω=75 -/
theorem parameter_set : K = 8 ∧ L = 7 ∧ ETA = 2 ∧ TAU = 60 ∧ BETA = 120 ∧ GAMMA1 = 524288 ∧ GAMMA2 = 261888 ∧ OMEGA = 75 ∧
    Q = 8380417 ∧ D = 13 ∧ CryptoPublicKeyBytes = 2592 ∧ CryptoSecretKeyBytes = 4864 ∧ CryptoBytes = 4595 := by decide

section
variable (shake128 shake256 : Bytes → Nat → Bytes)
open NttBridge VecF

/-- **key generation = specification** (see `NttBridge.keygen_spec` for the reading of each conjunct) -/
theorem keygen_spec (hx : XofLen shake128 shake256) (seed : Bytes) (hE : Expanded shake128 shake256 seed) :
    (keypair shake128 shake256 seed).pk = kRho shake256 seed ++ (kT1 shake128 shake256 seed).flatMap polyT1Pack ∧
    (keypair shake128 shake256 seed).sk = kRho shake256 seed ++ kKey shake256 seed ++ shake256 (keypair shake128 shake256 seed).pk 32 ++
      (kS1 shake256 seed).flatMap polyEtaPack ++ (kS2 shake256 seed).flatMap polyEtaPack ++ (kT0 shake128 shake256 seed).flatMap polyT0Pack ∧
    (kT shake128 shake256 seed).map (fun t => NTT (V t)) =
      List.zipWith (fun row s2i => List.zipWith (· + ·) (accF 1 (row.map V) (((kS1 shake256 seed).map V).map NTT)) (NTT (V s2i)))
        (kMat shake128 shake256 seed) (kS2 shake256 seed) ∧
    (∀ t ∈ kT shake128 shake256 seed, Good 0 8380416 t ∧ ∀ x ∈ t,
      x.toInt = (power2Round x).1.toInt * 8192 + (power2Round x).2.toInt ∧ 0 ≤ (power2Round x).1.toInt ∧ (power2Round x).1.toInt ≤ 1023 ∧
      -4095 ≤ (power2Round x).2.toInt ∧ (power2Round x).2.toInt ≤ 4096) ∧
    (∀ row ∈ kMat shake128 shake256 seed, ∀ p ∈ row, Good 0 8380416 p) ∧
    (∀ p ∈ kS1 shake256 seed, Good (-2) 2 p) ∧ (∀ p ∈ kS2 shake256 seed, Good (-2) 2 p) :=
  NttBridge.keygen_spec shake128 shake256 hx seed hE

end

/-- the signer's `w`: ŵ_i = Σ_j Â_ij·ŷ_j over `ZMod q`, `w` canonical in [0, q) — for every matrix row with entries in
[0, q) and every mask vector with coefficients in (−γ1, γ1] -/
theorem sign_w_spec (row y : List Poly) (hrow : ∀ p ∈ row, NttBridge.Good 0 8380416 p) (hrl : row.length ≤ 8)
    (hy : ∀ p ∈ y, NttBridge.Good (-524287) 524288 p) :
    NttBridge.NTT (NttBridge.V (NttBridge.sigW row y)) = VecF.accF 1 (row.map NttBridge.V) ((y.map NttBridge.V).map NttBridge.NTT) ∧
    NttBridge.Good 0 8380416 (NttBridge.sigW row y) := NttBridge.sigW_spec row y hrow hrl hy

/-- the signer's response: ẑ_j = ĉ·ŝ1_j + ŷ_j over `ZMod q` -/
theorem sign_z_spec (c : Poly) (hc : NttBridge.Good (-1) 1 c) (s1 y : List Poly) (hs1 : ∀ p ∈ s1, NttBridge.Good (-2) 2 p)
    (hy : ∀ p ∈ y, NttBridge.Good (-524287) 524288 p) :
    ((NttBridge.sigZ (ntt c) s1 y).map NttBridge.V).map NttBridge.NTT =
      List.zipWith (fun s y => List.zipWith (· + ·) (List.zipWith (· * ·) (NttBridge.NTT (NttBridge.V c)) s) y)
        ((s1.map NttBridge.V).map NttBridge.NTT) ((y.map NttBridge.V).map NttBridge.NTT) :=
  NttBridge.sigZ_spec c hc s1 y hs1 hy

end Qrl.C07
