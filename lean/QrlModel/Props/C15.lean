import QrlModel.Gen.Effects
/-! # C15 — stateless operations are safe to run concurrently and history-free (partial)

What a proof can carry: (1) the *effect table* regenerated from the source on every run — package-level
variables, every store to them or through them, every store through a method receiver, every use of
`crypto/rand`, every `go` statement — must be exactly the expected one (no mutable package state, no
receiver writes in the Dilithium methods, randomness only in the random constructors); (2) a generic
non-interference theorem: in a system whose steps read only immutable globals and their own private state,
every interleaving gives each thread the result it has alone. What it cannot carry: the Go memory model and
the race-freedom of x/crypto/sha3, encoding/hex, fmt on distinct objects. -/
namespace Qrl.C15

/-- the only package-level variables are the two constant tables -/
theorem only_constant_globals : Gen.Effects.globals = ["dilithium.zetas", "qrl.WordList"] := by decide

/-- no function stores to a package-level variable, takes its address, stores through a method receiver,
copies into either, or starts a goroutine; the only recorded effects are the four uses of crypto/rand -/
theorem effects_are_rand_only :
    Gen.Effects.effects = [("dilithium.New", "rand", "rand.Read"), ("dilithium.cryptoSignKeypair", "rand", "rand.Read"),
      ("dilithium.cryptoSignSignature", "rand", "rand.Read"), ("xmss.NewXMSSFromHeight", "rand", "rand.Read")] := by decide

/-- abstract system: an immutable global `G`, one private state per thread, steps that read (G, own state) -/
structure Sys (G S : Type) where
  step : G → S → S

def runSchedule {G S : Type} (sys : Sys G S) (g : G) : List Nat → (Nat → S) → (Nat → S)
  | [], st => st
  | t :: rest, st => runSchedule sys g rest (fun u => if u = t then sys.step g (st t) else st u)

def iter {S : Type} (f : S → S) : Nat → S → S
  | 0, s => s
  | n+1, s => iter f n (f s)

/-- **non-interference**: whatever the interleaving, thread `t` ends in the state it reaches alone after the
same number of its own steps -/
theorem noninterference {G S : Type} (sys : Sys G S) (g : G) : ∀ (sched : List Nat) (st : Nat → S) (t : Nat),
    runSchedule sys g sched st t = iter (sys.step g) (sched.count t) (st t)
  | [], _, _ => rfl
  | u :: rest, st, t => by
    simp only [runSchedule]
    rw [noninterference sys g rest _ t]
    by_cases h : t = u
    · subst h; simp [List.count_cons, iter]
    · have : (u == t) = false := by simp [Ne.symm h]
      simp [List.count_cons, h, this]

-- non-vacuity: a two-thread schedule
example : runSchedule ⟨fun (g : Nat) s => s + g⟩ 5 [0, 1, 0] (fun _ => 0) 0 = 10 := by decide

end Qrl.C15
