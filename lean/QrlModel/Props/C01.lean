import QrlModel.Proofs.BdsLabel10
import QrlModel.Proofs.Seg.H12
import QrlModel.Proofs.XmssE2E
/-! # C01 — every XMSS signature over the key's whole life verifies

`C01_height`: for a height `h` whose label-level whole-life check holds, **for every seed, every hash
function with 32-byte output, every message and every history of Sign / forward SetIndex calls**, the
signature the key returns verifies under its public key. The label-level check is a kernel evaluation
(`decide +kernel`) of the node-value-independent traversal model over all 2^h indices; it is proved here for
h ∈ {4, 6, 8, 10} monolithically and for h = 12 from segment certificates (`C01_h4 … C01_h12`; h = 14 in
`Props/C01Thorough`). The remaining supported heights up to 30 are `C01_partial`: every lemma
used is height-generic except that one evaluation; for them the property rests on the correspondence run
(label-mode state dumps of the real traversal compared index by index with the Lean label model).

Ingredients: `Proofs/BdsRel` (the traversal preserves a logical relation between labels and true tree nodes,
so the label theorem transfers to every seed/hash), `Proofs/Wots` (chain completion), `Proofs/AuthPath`
(climbing the true sibling path reaches the root), `Props/C04.accept_iff` (the verifier's decision),
`Props/C08.history_state` (the state at an index does not depend on the history). -/
namespace Qrl.Xmss.C01
open Qrl.BdsLabel Qrl.Bds Qrl.BdsRel Qrl.Xmss.C02 Qrl.Xmss.C08

theorem traversal_h4 : TraversalCorrect 4 := traversal_of_checkAll 4 bds_h4
theorem traversal_h6 : TraversalCorrect 6 := traversal_of_checkAll 6 bds_h6
theorem traversal_h8 : TraversalCorrect 8 := traversal_of_checkAll 8 bds_h8
theorem traversal_h10 : TraversalCorrect 10 := traversal_of_checkAll 10 bds_h10

section
variable (hashOf : Nat → Bytes → Bytes) (shake256 : Bytes → Nat → Bytes)

/-- **the property for one height `h`**: `k0` is the key `NewXMSSFromSeed` / `NewXMSSFromExtendedSeed` builds
(`initializeTree`) from any seed and any descriptor of that height with a supported hash function; `ops` is
any history of Sign / SetIndex(uint32) calls; if the key is not exhausted afterwards, signing any message
succeeds and the signature verifies under the key's public key. -/
def C01Statement (h : Nat) : Prop :=
  ∀ (_ : ∀ hf x, (hashOf hf x).length = 32) (seed : Bytes) (_ : (shake256 seed 96).length = 96)
    (d : Desc) (_ : d.height = h) (_ : d.sigType = 0) (_ : supportedHash d.hashFn = true) (_ : d.addrFmt < 16)
    (k0 : Key) (_ : initializeTree hashOf shake256 d seed = .ok k0)
    (ops : List Op) (_ : ∀ op ∈ ops, opOK op) (msg : Bytes) (_ : (specRun h 0 ops).1 < 2 ^ h),
    ∃ sig k', sign hashOf (run hashOf k0 ops).1 msg = .ok (k', sig) ∧ verify hashOf msg sig k0.pk = .ok true

theorem C01_height (h : Nat) (hc : TraversalCorrect h) (h4 : 4 ≤ h) (heven : h % 2 = 0) (h30 : h ≤ 30) :
    C01Statement hashOf shake256 h := by
  intro hlen seed hs d hh hst hhf haf k0 hk ops hops msg hleft
  -- the root is a hash output
  have hrootlen : ((treeHashSetup (opsFor hashOf d.hashFn ((shake256 seed 96).take 32) (((shake256 seed 96).drop 64).take 32)) d.height).2).length = 32 := by
    have := (traversal_transfer (treeOps (hashOf d.hashFn) (((shake256 seed 96).drop 64).take 32)
      (fun j => genLeafWOTS (hashOf d.hashFn) wp16 ((shake256 seed 96).take 32) (((shake256 seed 96).drop 64).take 32) j)) h hc).1
    rw [hh]
    show (treeHashSetup (treeOps _ _ _) h).2.length = 32
    rw [this]
    exact tree_len _ (hlen _) _ _ (fun j => genLeafWOTS_len _ (hlen _) _ _ _ _) _ _
  have hg := generated_of_init hashOf shake256 d seed k0 hs hk hrootlen
  have hk0h : k0.h = h := by rw [hg.h, hh]
  have hfresh : keyAt hashOf k0 0 = k0 := fresh_is_keyAt0 hashOf k0 hg.skz
  have hhist := history_state hashOf hlen k0 (by omega) (by omega) ops 0 (Nat.zero_le _) hops
  rw [hfresh, hk0h] at hhist
  rw [hhist]
  exact verify_sign_at hashOf h hc hlen k0 d (shake256 seed 96) hs hg hh h4 heven h30 hst hhf haf _ hleft msg

theorem C01_h4 : C01Statement hashOf shake256 4 := C01_height hashOf shake256 4 (traversal_of_checkAll _ bds_h4) (by decide) (by decide) (by decide)
theorem C01_h6 : C01Statement hashOf shake256 6 := C01_height hashOf shake256 6 (traversal_of_checkAll _ bds_h6) (by decide) (by decide) (by decide)
theorem C01_h8 : C01Statement hashOf shake256 8 := C01_height hashOf shake256 8 (traversal_of_checkAll _ bds_h8) (by decide) (by decide) (by decide)
theorem C01_h10 : C01Statement hashOf shake256 10 := C01_height hashOf shake256 10 (traversal_of_checkAll _ bds_h10) (by decide) (by decide) (by decide)
/-- height 12: the label-level check is assembled from kernel-checked certificates (key generation in 64 pieces of 64 leaves,
the traversal in 39 segments of 105 indices) -/
theorem C01_h12 : C01Statement hashOf shake256 12 := C01_height hashOf shake256 12 Seg12.traversal (by decide) (by decide) (by decide)

/-- the full property (all supported heights) reduces to the label-level check of each height; proved above
for 4..10, open for 12..30 (`C01_partial`) -/
theorem C01_partial (h : Nat) (h4 : 4 ≤ h) (heven : h % 2 = 0) (h30 : h ≤ 30) (hc : TraversalCorrect h) :
    C01Statement hashOf shake256 h := C01_height hashOf shake256 h hc h4 heven h30

end

/-- WOTS part in isolation: for every hash function, seed, index and 32-byte digest -/
theorem wots_verifies (hash : Bytes → Bytes) (msgHash seed pubSeed : Bytes) (idx : Nat) (hlen : msgHash.length = 32) :
    ∃ sig, wotsSign hash wp16 msgHash seed pubSeed idx = .ok sig ∧
      wotsPKFromSig hash wp16 sig msgHash pubSeed idx = .ok (wotsPKGen hash wp16 seed pubSeed idx) := by
  obtain ⟨sig, h1, _, h3⟩ := wots_pk_from_sig hash wp16 (Or.inl rfl) msgHash seed pubSeed idx hlen
  exact ⟨sig, h1, h3⟩

-- non-vacuity: the descriptor hypotheses are those of every key the library builds
example : (⟨1, 0, 10, 0⟩ : Desc).sigType = 0 ∧ supportedHash (⟨1, 0, 10, 0⟩ : Desc).hashFn = true := by decide

end Qrl.Xmss.C01
