import QrlModel.Proofs.BdsLabel10
import QrlModel.Proofs.Wots
import QrlModel.Props.C08
/-! # C01 — every XMSS signature over the key's whole life verifies

Ingredients proved here (see DESIGN.md §7 C01 for how they compose, and `C01_partial` below for what is
still missing for the end-to-end statement):

* the traversal keeps the true authentication path at every index of a height — kernel evaluation of the
  label model for h ∈ {4, 6, 8, 10} (every seed and hash function at once: the traversal's control flow
  never looks at node values);
* WOTS: the verifier's chain completion reproduces the key-generation public key, for every hash function;
* the state at an index does not depend on the history that led there (C08 `history_state`), so the
  per-index statement covers every sequence of Sign / forward SetIndex calls. -/
namespace Qrl.Xmss.C01
open Qrl.BdsLabel Qrl.Bds

/-- for height `h`, at every index `i < 2^h`, after `i` traversal steps from key generation the stored
authentication path is the sibling path of leaf `i`, and key generation returns the tree root -/
def TraversalCorrect (h : Nat) : Prop :=
  (treeHashSetup BdsLabel.ops h).2 = .nd h 0 ∧
  ∀ i, i < 2 ^ h → (fastForward BdsLabel.ops h i 0 (treeHashSetup BdsLabel.ops h).1).auth = trueAuth h i

theorem traversal_h4 : TraversalCorrect 4 := checkAll_sound 4 bds_h4
theorem traversal_h6 : TraversalCorrect 6 := checkAll_sound 6 bds_h6
theorem traversal_h8 : TraversalCorrect 8 := checkAll_sound 8 bds_h8
theorem traversal_h10 : TraversalCorrect 10 := checkAll_sound 10 bds_h10

/-- no `bad` label (a hash applied to anything but the two children its address names) occurs in a correct path -/
theorem trueAuth_no_bad (h i : Nat) : Lbl.bad ∉ trueAuth h i := by
  simp [trueAuth]

/-- WOTS part of `Verify(Sign(m))`: for every hash function, seed, index and 32-byte digest -/
theorem wots_verifies (hash : Bytes → Bytes) (msgHash seed pubSeed : Bytes) (idx : Nat) (hlen : msgHash.length = 32) :
    ∃ sig, wotsSign hash wp16 msgHash seed pubSeed idx = .ok sig ∧
      wotsPKFromSig hash wp16 sig msgHash pubSeed idx = .ok (wotsPKGen hash wp16 seed pubSeed idx) := by
  obtain ⟨sig, h1, _, h3⟩ := wots_pk_from_sig hash wp16 (Or.inl rfl) msgHash seed pubSeed idx hlen
  exact ⟨sig, h1, h3⟩

/-- every history of Sign / forward SetIndex calls reaches the state `keyAt i` (from C08): the signature
emitted at index `i` is therefore the same whatever the history -/
theorem history_irrelevant (hashOf : Nat → Bytes → Bytes) (hlen : C02.HashLen hashOf) (k0 : Key) (h30 : k0.h ≤ 30) (h1 : 1 ≤ k0.h)
    (ops : List C02.Op) (hops : ∀ op ∈ ops, C02.opOK op) :
    (C02.run hashOf (C08.keyAt hashOf k0 0) ops).1 = C08.keyAt hashOf k0 (C02.specRun k0.h 0 ops).1 :=
  C08.history_state hashOf hlen k0 h30 h1 ops 0 (Nat.zero_le _) hops

end Qrl.Xmss.C01
