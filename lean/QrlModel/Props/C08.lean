import QrlModel.Props.C02
/-! # C08 — a key rebuilt from its seed and index continues identically

The complete signer state reached at index `i` is a function of `(initial key, i)` only — not of whether
`i` was reached by signing, by one jump or by several. Hence a key rebuilt from the same seed and moved
to the saved index is *equal* (as a whole model object) to the original, and so are all later outputs. -/
namespace Qrl.Xmss.C08
open Qrl.Xmss.C02

section
variable (hashOf : Nat → Bytes → Bytes)

theorem fastForward_add (o : Bds.Ops Bytes) (h : Nat) : ∀ (a b i : Nat) (s : Bds.St Bytes),
    Bds.fastForward o h (a + b) i s = Bds.fastForward o h b (i + a) (Bds.fastForward o h a i s)
  | 0, b, i, s => by simp [Bds.fastForward]
  | a+1, b, i, s => by
    have : a + 1 + b = (a + b) + 1 := by omega
    rw [this]
    simp only [Bds.fastForward]
    rw [fastForward_add o h a b (i+1)]
    congr 1; omega

/-- the traversal state belonging to index `i`: `min i (2^h − 1)` steps from the state after key generation
(signing the last leaf advances the index to 2^h without a traversal step) -/
def stateAt (o : Bds.Ops Bytes) (h : Nat) (b0 : Bds.St Bytes) (i : Nat) : Bds.St Bytes :=
  Bds.fastForward o h (min i (2 ^ h - 1)) 0 b0

/-- the key object at index `i`, as a function of the freshly generated key only -/
def keyAt (k0 : Key) (i : Nat) : Key :=
  { k0 with sk := setIdxBytes k0.sk i, bds := stateAt (k0.ops hashOf) k0.h k0.bds i }

theorem keyAt_index (k0 : Key) (i : Nat) (hi : i < 4294967296) : (keyAt hashOf k0 i).index = i :=
  indexOf_setIdxBytes _ _ hi

theorem keyAt_ops (k0 : Key) (i : Nat) : (keyAt hashOf k0 i).ops hashOf = k0.ops hashOf := ops_setIdx hashOf k0 i _

/-- one operation maps `keyAt i` to `keyAt i'` where `i'` is the counter automaton's next index -/
theorem step_keyAt (hlen : HashLen hashOf) (k0 : Key) (h30 : k0.h ≤ 30) (h1 : 1 ≤ k0.h) (i : Nat) (hi : i ≤ 2 ^ k0.h) (op : Op) (hop : opOK op) :
    (step hashOf (keyAt hashOf k0 i) op).1 = keyAt hashOf k0 (specStep k0.h i op).1 := by
  have hp := pow_le30 k0.h h30
  have hpos : 1 ≤ 2 ^ k0.h := Nat.one_le_two_pow
  have hidx : (keyAt hashOf k0 i).index = i := keyAt_index hashOf k0 i (by omega)
  cases op with
  | setIndex j =>
    by_cases hc : j ≥ 2 ^ k0.h ∨ j < i
    · have hs : specStep k0.h i (.setIndex j) = (i, .refuse) := by simp [specStep, hc]
      have hk := (setIndex_refines hashOf (keyAt hashOf k0 i) j h30 hop).same (by rw [hidx]; exact congrArg Prod.snd hs)
      rw [hk, hs]
    · have hj1 : j < 2 ^ k0.h := by omega
      have hj2 : i ≤ j := by omega
      have hs : specStep k0.h i (.setIndex j) = (j, .done) := by simp [specStep, hc]
      have e := setIndex_ok hashOf (keyAt hashOf k0 i) j hj1 (by rw [hidx]; exact hj2)
      simp only [step, e, hs]
      rw [hidx, keyAt_ops]
      simp only [keyAt, setIdx_setIdx, stateAt]
      congr 1
      have h1' : min i (2 ^ k0.h - 1) = i := by omega
      have h2' : min j (2 ^ k0.h - 1) = i + (j - i) := by omega
      rw [h1', h2', fastForward_add]; simp
  | sign m =>
    by_cases hlt : i < 2 ^ k0.h
    · have hs : specStep k0.h i (.sign m) = (i + 1, .emit i) := by simp [specStep, hlt]
      obtain ⟨body, e⟩ := sign_ok hashOf hlen (keyAt hashOf k0 i) m h30 (by rw [hidx]; exact hlt)
      have hA : afterSign hashOf (keyAt hashOf k0 i) =
          (if i < 2 ^ k0.h - 1 then Bds.step (k0.ops hashOf) k0.h (stateAt (k0.ops hashOf) k0.h k0.bds i) i
           else stateAt (k0.ops hashOf) k0.h k0.bds i) := by
        unfold afterSign
        simp only [hidx, keyAt_ops]
        rfl
      simp only [step, e, hs, hidx, hA]
      simp only [keyAt, setIdx_setIdx]
      congr 1
      simp only [stateAt]
      by_cases hlast : i < 2 ^ k0.h - 1
      · rw [if_pos hlast]
        have h1' : min i (2 ^ k0.h - 1) = i := by omega
        have h2' : min (i + 1) (2 ^ k0.h - 1) = i + 1 := by omega
        rw [h1', h2', fastForward_add]; simp [Bds.fastForward]
      · rw [if_neg hlast]
        have h1' : min i (2 ^ k0.h - 1) = 2 ^ k0.h - 1 := by omega
        have h2' : min (i + 1) (2 ^ k0.h - 1) = 2 ^ k0.h - 1 := by omega
        rw [h1', h2']
    · have hs : specStep k0.h i (.sign m) = (i, .refuse) := by simp [specStep, hlt]
      have hk := (sign_refines hashOf hlen (keyAt hashOf k0 i) m h30).same (by rw [hidx]; exact congrArg Prod.snd hs)
      rw [hk, hs]

theorem specRun_le (h : Nat) : ∀ (ops : List Op) (i : Nat), i ≤ 2 ^ h → (specRun h i ops).1 ≤ 2 ^ h
  | [], i, hi => hi
  | op :: rest, i, hi => by
    simp only [specRun]
    apply specRun_le h rest
    cases op with
    | sign m => simp only [specStep]; split <;> simp <;> omega
    | setIndex j => simp only [specStep]; split <;> simp <;> omega

/-- **history_state**: after any sequence of Sign / SetIndex calls the *whole* key object equals `keyAt`
of the index the counter automaton has reached -/
theorem history_state (hlen : HashLen hashOf) (k0 : Key) (h30 : k0.h ≤ 30) (h1 : 1 ≤ k0.h) :
    ∀ (ops : List Op) (i : Nat), i ≤ 2 ^ k0.h → (∀ op ∈ ops, opOK op) →
      (run hashOf (keyAt hashOf k0 i) ops).1 = keyAt hashOf k0 (specRun k0.h i ops).1
  | [], _, _, _ => rfl
  | op :: rest, i, hi, hops => by
    simp only [run, specRun]
    rw [step_keyAt hashOf hlen k0 h30 h1 i hi op (hops op (by simp))]
    have hle : (specStep k0.h i op).1 ≤ 2 ^ k0.h := by
      have := specRun_le k0.h [op] i hi
      simpa [specRun] using this
    exact history_state hlen k0 h30 h1 rest _ hle (fun o ho => hops o (List.mem_cons_of_mem _ ho))

/-- **rebuild_continues**: two objects built from the same freshly generated key, driven by *any* two
histories that end at the same index, are equal — so every later signature, for every later message and
index, is byte-identical -/
theorem rebuild_continues (hlen : HashLen hashOf) (k0 : Key) (h30 : k0.h ≤ 30) (h1 : 1 ≤ k0.h)
    (opsA opsB later : List Op) (hA : ∀ op ∈ opsA, opOK op) (hB : ∀ op ∈ opsB, opOK op)
    (hsame : (specRun k0.h 0 opsA).1 = (specRun k0.h 0 opsB).1) :
    run hashOf (run hashOf (keyAt hashOf k0 0) opsA).1 later = run hashOf (run hashOf (keyAt hashOf k0 0) opsB).1 later := by
  rw [history_state hashOf hlen k0 h30 h1 opsA 0 (Nat.zero_le _) hA,
      history_state hashOf hlen k0 h30 h1 opsB 0 (Nat.zero_le _) hB, hsame]

/-- a freshly generated key is `keyAt 0` (its index bytes are zero and no traversal step has run) -/
theorem fresh_is_keyAt0 (k0 : Key) (hsk : k0.sk = zeros 4 ++ k0.sk.drop 4) : keyAt hashOf k0 0 = k0 := by
  have : setIdxBytes k0.sk 0 = k0.sk := by
    conv => rhs; rw [hsk]
    simp [setIdxBytes, toBytesBE_4, zeros]
  simp [keyAt, stateAt, Bds.fastForward, this]

end
end Qrl.Xmss.C08
