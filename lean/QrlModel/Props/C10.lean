import QrlModel.Proofs.Mnemonic
/-! # C10 — mnemonic encoding is a bijection and decoding is strict

Theorems about the model `Qrl.Mnemonic` (Model/Mnemonic.lean) over the *generated* word list.
All are unbounded in the byte string / phrase; the word-list facts are kernel evaluations over the
whole 4096-entry table regenerated from /repo (`Proofs/WordList.lean`). -/
namespace Qrl.Mnemonic.C10

attribute [local irreducible] wordsB lookup

def word (g : Nat) : Bytes := wordsB.getD g []

theorem word_mem {g : Nat} (h : g < 4096) : word g ∈ wordsB := by
  have : g < wordsB.length := by rw [words_length]; exact h
  simp only [word, List.getD_eq_getElem?_getD, List.getElem?_eq_getElem this, Option.getD_some]
  exact List.getElem_mem this

theorem val_word {g : Nat} (h : g < 4096) : val (word g) = g := by
  have hl : g < wordsB.length := by rw [words_length]; exact h
  have : wordsB[g]? = some (word g) := by
    simp [word, List.getD_eq_getElem?_getD, List.getElem?_eq_getElem hl]
  simp [val, lookup_word this]

/-- the word list is duplicate-free, lower-case `a..z`, non-empty words (finite table, whole table checked) -/
theorem wordlist_wellformed :
    wordsB.length = 4096 ∧ wordsB.Nodup ∧ ∀ w ∈ wordsB, w ≠ [] ∧ ∀ c ∈ w, 97 ≤ c.toNat ∧ c.toNat ≤ 122 := by
  refine ⟨words_length, words_nodup, fun w hw => ⟨word_ne_nil hw, fun c hc => ?_⟩⟩
  have hl := words_lower hw
  simp only [lowerWord, Bool.and_eq_true, List.all_eq_true, decide_eq_true_eq] at hl
  exact hl.2 c hc

/-- every 12-bit value round-trips through the table at every word position -/
theorem lookup_word_all (g : Nat) (h : g < 4096) : lookup (word g) = some g := by
  have hl : g < wordsB.length := by rw [words_length]; exact h
  exact lookup_word (by simp [word, List.getD_eq_getElem?_getD, List.getElem?_eq_getElem hl])

/-- general form of the decode of an encoded string; `n ≥ 1` blocks of 3 bytes -/
theorem dec_enc_blocks (n : Nat) (b : Bytes) (hlen : b.length = 3 * (n+1)) :
    ∃ p, binToMnemonic b = .ok p ∧ mnemonicToBin p = .ok b := by
  have hg := groups_lt (n+1) b hlen
  have hgl := groups_length (n+1) b hlen
  let ws := (groups b).map word
  refine ⟨joinWords ws, by unfold binToMnemonic; rw [if_neg (by omega)]; rfl, ?_⟩
  have hwl : ws.length = 2 * (n+1) := by simp [ws, hgl]
  have hmem : ∀ x ∈ ws, x ∈ wordsB := by
    intro x hx
    obtain ⟨g, hg', rfl⟩ := List.mem_map.mp hx
    exact word_mem (hg g hg')
  have hvals : ws.map val = groups b := by
    simp only [ws, List.map_map]
    conv => rhs; rw [← List.map_id (groups b)]
    exact List.map_congr_left (fun g hg' => by simp [val_word (hg g hg')])
  rw [dec_join n ws hwl hmem, hvals, decPairs_groups (n+1) b hlen]

/-- **dec(enc(b)) = b** for every 48-byte seed and every 51-byte extended seed (indeed every non-empty
byte string whose length is a multiple of 3), through the sized entry points as well. -/
theorem dec_enc_48 (b : Bytes) (h : b.length = 48) :
    ∃ p, binToMnemonic b = .ok p ∧ mnemonicToSeedBin p = .ok b := by
  obtain ⟨p, hp, hd⟩ := dec_enc_blocks 15 b (by omega)
  refine ⟨p, hp, ?_⟩
  show (mnemonicToBin p).bind _ = _
  rw [hd]; simp only [Outcome.bind, h]; rfl

theorem dec_enc_51 (b : Bytes) (h : b.length = 51) :
    ∃ p, binToMnemonic b = .ok p ∧ mnemonicToExtendedSeedBin p = .ok b := by
  obtain ⟨p, hp, hd⟩ := dec_enc_blocks 16 b (by omega)
  refine ⟨p, hp, ?_⟩
  show (mnemonicToBin p).bind _ = _
  rw [hd]; simp only [Outcome.bind, h]; rfl

/-- distinct byte strings give distinct mnemonics -/
theorem enc_injective (n : Nat) (b1 b2 : Bytes) (h1 : b1.length = 3 * (n+1)) (h2 : b2.length = 3 * (n+1))
    (h : binToMnemonic b1 = binToMnemonic b2) : b1 = b2 := by
  obtain ⟨p1, hp1, hd1⟩ := dec_enc_blocks n b1 h1
  obtain ⟨p2, hp2, hd2⟩ := dec_enc_blocks n b2 h2
  rw [hp1, hp2] at h
  have : p1 = p2 := by injection h
  subst this
  rw [hd1] at hd2
  injection hd2

/-- strictness: a phrase with an odd number of space-separated tokens is refused -/
theorem odd_refused (m : Bytes) (h : (splitOnSpace m).length % 2 = 1) : mnemonicToBin m = .refuse "mnemonic-odd" := by
  unfold mnemonicToBin
  simp only
  rw [if_pos (by omega)]

/-- strictness: a phrase with an even number of tokens one of which is not a list word — which includes
the empty token produced by a doubled, leading or trailing space, any token with an upper-case letter,
a tab, a newline or a non-ASCII byte — is refused with the library's own message, never decoded. -/
theorem unknown_word_refused (m : Bytes) (hev : (splitOnSpace m).length % 2 = 0)
    (w : Bytes) (hw : w ∈ splitOnSpace m) (hnot : w ∉ wordsB) : mnemonicToBin m = .refuse "mnemonic-word" := by
  unfold mnemonicToBin
  simp only
  rw [if_neg (by omega)]
  rcases fold_words ((splitOnSpace m).length * 15 / 10) (splitOnSpace m) {} 0 inv_init (by omega) with ⟨hr, _⟩ | ⟨hall, _, _⟩
  · rw [hr]
  · exact absurd ((lookup_none_iff w).mpr hnot) (hall w hw)

/-- a token containing a byte outside `a..z` is not a list word -/
theorem non_lower_not_word (w : Bytes) (c : UInt8) (hc : c ∈ w) (hbad : c.toNat < 97 ∨ 122 < c.toNat) : w ∉ wordsB := by
  intro hw
  have := (wordlist_wellformed.2.2 w hw).2 c hc
  omega

theorem empty_not_word : ([] : Bytes) ∉ wordsB := fun h => (wordlist_wellformed.2.2 [] h).1 rfl

/-- decoding never faults (no out-of-range write into the result buffer), for every byte string -/
theorem dec_never_faults (m : Bytes) : (mnemonicToBin m).isFault = false := by
  unfold mnemonicToBin
  simp only
  by_cases hodd : (splitOnSpace m).length % 2 ≠ 0
  · rw [if_pos hodd]; rfl
  · rw [if_neg hodd]
    have hev : (splitOnSpace m).length % 2 = 0 := by omega
    rcases fold_words ((splitOnSpace m).length * 15 / 10) (splitOnSpace m) {} 0 inv_init (by omega) with ⟨hr, _⟩ | ⟨_, hf, hinv⟩
    · rw [hr]; rfl
    · rw [hf]
      simp only [Nat.zero_add] at hinv
      rcases hinv with ⟨h0, hb, _, hl⟩ | ⟨k, hk, _⟩ | ⟨k, hk, hb, _, hl⟩
      · simp [decFlush, hb, Outcome.isFault]
      · omega
      · simp only [decFlush, hb]
        rw [if_pos (by decide), if_pos (by rw [hl, hk]; omega)]; rfl

/-- **enc(dec(p)) = p** for every phrase of `2(n+1)` list words joined by single spaces -/
theorem enc_dec (n : Nat) (ws : List Bytes) (hl : ws.length = 2 * (n+1)) (hmem : ∀ w ∈ ws, w ∈ wordsB) :
    ∃ b, mnemonicToBin (joinWords ws) = .ok b ∧ binToMnemonic b = .ok (joinWords ws) := by
  refine ⟨decPairs (ws.map val), dec_join n ws hl hmem, ?_⟩
  have hvl : (ws.map val).length = 2 * (n+1) := by simp [hl]
  have hvlt : ∀ v ∈ ws.map val, v < 4096 := by
    intro v hv
    obtain ⟨w, hw, rfl⟩ := List.mem_map.mp hv
    exact val_lt (hmem w hw)
  unfold binToMnemonic
  rw [if_neg (by rw [decPairs_length (n+1) _ hvl]; omega), groups_decPairs (n+1) _ hvl hvlt, List.map_map]
  congr 2
  conv => rhs; rw [← List.map_id ws]
  exact List.map_congr_left (fun w hw => by
    have := word_val (hmem w hw)
    simpa [List.getD_eq_getElem?_getD] using this)

-- non-vacuity: the premises are met by concrete data
example : ([0x61, 0x62, 0x63] : Bytes).length = 3 * (0+1) := rfl

end Qrl.Mnemonic.C10
