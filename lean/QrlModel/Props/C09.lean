import QrlModel.Model.Ctor
import QrlModel.Props.C10
import QrlModel.Props.C11
import QrlModel.Props.C16
import QrlModel.Model.XmssKey
/-! # C09 — a wallet is recoverable from every secret it exports

Equalities of whole model keys (hence of public key, address and every signature), for every seed,
height, hash function, and arbitrary hash functions. -/
namespace Qrl.C09
open Qrl.Xmss

section
variable (hashOf : Nat → Bytes → Bytes) (shake128 shake256 : Bytes → Nat → Bytes)

/-- the key built by `NewXMSSFromSeed` records exactly the descriptor and seed it was given -/
theorem newFromSeed_records (seed : Bytes) (h hf af : Nat) (k : Key) (hk : newFromSeed hashOf shake256 seed h hf af = .ok k) :
    k.desc = ⟨hf, 0, h, af⟩ ∧ k.seed = seed := by
  unfold newFromSeed initializeTree at hk
  simp only at hk
  split at hk; · cases hk
  split at hk; · cases hk
  injection hk with hk; subst hk; exact ⟨rfl, rfl⟩

/-- **extended seed**: `NewXMSSFromExtendedSeed(k.GetExtendedSeed())` rebuilds the same key object, for every
seed, every even height ≤ 30, every hash-function id and address format below 16 -/
theorem extended_seed_roundtrip (seed : Bytes) (h hf af : Nat) (k : Key) (hh : h % 2 = 0) (hhf : hf < 16) (haf : af < 16)
    (hk : newFromSeed hashOf shake256 seed h hf af = .ok k) :
    newFromExtendedSeed hashOf shake256 k.extendedSeed = .ok k := by
  obtain ⟨hd, hs⟩ := newFromSeed_records hashOf shake256 seed h hf af k hk
  have h30 : h ≤ 30 := by
    unfold newFromSeed at hk; split at hk; · cases hk
    omega
  unfold newFromExtendedSeed Key.extendedSeed
  rw [hd, hs, C11.ofPrefix_append, C11.desc_roundtrip ⟨hf, 0, h, af⟩ hhf (by show 0 < 16; omega) haf hh h30]
  have : (Desc.bytes ⟨hf, 0, h, af⟩ ++ seed).drop 3 = seed := by simp [Desc.bytes]
  rw [this]
  unfold newFromSeed at hk
  rw [if_neg (by omega)] at hk
  exact hk

/-- **mnemonic**: decoding the mnemonic of the 51-byte extended seed gives the extended seed back, so
`NewXMSSFromExtendedSeed(MnemonicToExtendedSeedBin(k.GetMnemonic()))` rebuilds the same key object -/
theorem mnemonic_roundtrip (seed : Bytes) (h hf af : Nat) (k : Key) (hlen : seed.length = 48) (hh : h % 2 = 0) (hhf : hf < 16) (haf : af < 16)
    (hk : newFromSeed hashOf shake256 seed h hf af = .ok k) :
    ∃ phrase, Mnemonic.binToMnemonic k.extendedSeed = .ok phrase ∧
      Mnemonic.mnemonicToExtendedSeedBin phrase = .ok k.extendedSeed ∧
      newFromExtendedSeed hashOf shake256 k.extendedSeed = .ok k := by
  obtain ⟨hd, hs⟩ := newFromSeed_records hashOf shake256 seed h hf af k hk
  have hl : k.extendedSeed.length = 51 := by simp [Key.extendedSeed, hd, hs, Desc.bytes, hlen]
  obtain ⟨p, hp, hdec⟩ := Mnemonic.C10.dec_enc_51 k.extendedSeed hl
  exact ⟨p, hp, hdec, extended_seed_roundtrip hashOf shake256 seed h hf af k hh hhf haf hk⟩

/-- **Dilithium, hex seed**: `NewDilithiumFromHexSeed(GetHexSeed()[2:])` is `NewDilithiumFromSeed(seed)` -/
theorem dil_hexseed_roundtrip (seed : Bytes) (hlen : seed.length = 48) :
    Dil.fromHexSeed shake128 shake256 ((Dil.hexSeedOf seed).drop 2) = .ok (Dil.fromSeed shake128 shake256 seed) := by
  have : (Dil.hexSeedOf seed).drop 2 = Hex.hexEncode seed := by simp [Dil.hexSeedOf, Hex.pfx0x]
  rw [this]
  simp [Dil.fromHexSeed, Hex.C16.decode_encode, hlen]

/-- **Dilithium, mnemonic**: `NewDilithiumFromMnemonic(GetMnemonic())` is `NewDilithiumFromSeed(seed)` -/
theorem dil_mnemonic_roundtrip (seed : Bytes) (hlen : seed.length = 48) :
    ∃ phrase, Mnemonic.binToMnemonic seed = .ok phrase ∧
      Dil.fromMnemonic shake128 shake256 phrase = .ok (Dil.fromSeed shake128 shake256 seed) := by
  obtain ⟨p, hp, hdec⟩ := Mnemonic.C10.dec_enc_48 seed hlen
  exact ⟨p, hp, by simp [Dil.fromMnemonic, hdec]⟩

end
end Qrl.C09
