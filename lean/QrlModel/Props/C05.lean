import QrlModel.Model.Dilithium
import QrlModel.Props.C13
import QrlModel.Proofs.DilSpec
/-! # C05 — Dilithium `Verify` is strict

`verify_decision`: the acceptance decision of the model verifier, stated outright for all byte strings.
`verifier_w_spec` + `decoded_ranges`: what the verifier recomputes is the specification's `w′ = A·z − c·t1·2^d` over
`ZMod q` (NTT domain, canonical representatives), for *every* decoded response and public key — not only honest
ones — so the decision is the specification's: accepted ⇔ decodes ∧ ‖z‖∞ < γ1 − β ∧ c̃ = H(μ ‖ pack(UseHint(h, w′))).
`accepted_is_canonical`, `decode_injective`: accepted byte strings are in bijection with decoded values (from C13).
The strictness of each individual check is additionally exercised on the real code by a key-holding malicious signer
(the Lean model with one signing-side check skipped) and byte-level hint edits. -/
namespace Qrl.C05
open Qrl.Dil Gen.Dil

section
variable (shake128 shake256 : Bytes → Nat → Bytes)

/-- the recomputed challenge of the verifier, as a function of the decoded parts -/
def recomputedChallenge (parts : SigParts) (msg pk : Bytes) : Bytes :=
  let rho := pk.take 32
  let t1 := (chunks 320 ((pk.drop 32).take (K*320))).map polyT1Unpack
  let mu := shake256 (shake256 pk 32 ++ msg) 64
  let cp := ntt (polyChallenge shake256 parts.c)
  let mat := matrixExpand shake128 rho
  let w1 := matVec mat (parts.z.map ntt)
  let t1 := t1.map fun p => polyPointwise cp (ntt (polyShiftL p))
  let w1 := (List.zipWith polySub w1 t1).map fun p => polyCAddQ (invNTTToMont (polyReduce p))
  let w1 := List.zipWith polyUseHint w1 parts.h
  shake256 (mu ++ w1.flatMap polyW1Pack) 32

/-- **acceptance decision**: a triple verifies exactly when the signature decodes (hint counts monotone and
≤ ω, indices strictly increasing per row, zero padding), the response norm is below γ1 − β, and all 32 bytes
of the recomputed challenge equal the transmitted one -/
theorem verify_decision (sig msg pk : Bytes) :
    verify shake128 shake256 sig msg pk = true ↔
      ∃ parts, unpackSig sig = some parts ∧ vecChkNorm parts.z (BitVec.ofNat 32 (GAMMA1 - BETA)) = false ∧
        parts.c = recomputedChallenge shake128 shake256 parts msg pk := by
  unfold verify
  cases hu : unpackSig sig with
  | none => simp
  | some parts =>
    obtain ⟨c, z, h⟩ := parts
    simp only [Option.some.injEq, exists_eq_left']
    by_cases hn : vecChkNorm z (BitVec.ofNat 32 (GAMMA1 - BETA)) = true
    · simp [hn]
    · have hn' : vecChkNorm z (BitVec.ofNat 32 (GAMMA1 - BETA)) = false := by simpa using hn
      simp only [hn', Bool.false_eq_true, if_false, true_and, recomputedChallenge, beq_iff_eq]

/-- **what the verifier recomputes is the specification's `w′ = A·z − c·t1·2^d`** (row by row, NTT domain over `ZMod q`,
canonical representatives in [0, q)), for every response with coefficients in (−γ1, γ1], every `t1` with coefficients
in [0, 2^10) and every challenge polynomial with coefficients in {−1, 0, 1} -/
theorem verifier_w_spec (row : List Poly) (c : Poly) (z : List Poly) (t1i : Poly) (hrow : ∀ p ∈ row, NttBridge.Good 0 8380416 p)
    (hrl : row.length ≤ 8) (hc : NttBridge.Good (-1) 1 c) (hz : ∀ p ∈ z, NttBridge.Good (-524287) 524288 p) (ht1 : NttBridge.Good 0 1023 t1i) :
    NttBridge.NTT (NttBridge.V (polyCAddQ (invNTTToMont (polyReduce (polySub (pointwiseAcc row (z.map ntt))
        (polyPointwise (ntt c) (ntt (polyShiftL t1i)))))))) =
      List.zipWith (· - ·) (VecF.accF 1 (row.map NttBridge.V) ((z.map NttBridge.V).map NttBridge.NTT))
        (List.zipWith (· * ·) (NttBridge.NTT (NttBridge.V c)) (NttBridge.NTT ((NttBridge.V t1i).map (· * (8192 : NttTable.Fq))))) ∧
    NttBridge.Good 0 8380416 (polyCAddQ (invNTTToMont (polyReduce (polySub (pointwiseAcc row (z.map ntt))
        (polyPointwise (ntt c) (ntt (polyShiftL t1i))))))) :=
  NttBridge.verV_spec row c z t1i hrow hrl hc hz ht1

/-- every decoded response and every decoded `t1` is in those ranges, whatever the bytes; the challenge polynomial is
in {−1,0,1}^256 whatever the XOF -/
theorem decoded_ranges (sig pk : Bytes) (hs : sig.length = CryptoBytes) (hp : pk.length = CryptoPublicKeyBytes) (ctil : Bytes) :
    (∀ p ∈ (chunks 640 ((sig.drop 32).take (L * 640))).map polyZUnpack, NttBridge.Good (-524287) 524288 p) ∧
    (∀ p ∈ (chunks 320 ((pk.drop 32).take (K * 320))).map polyT1Unpack, NttBridge.Good 0 1023 p) ∧
    NttBridge.Good (-1) 1 (polyChallenge shake256 ctil) :=
  ⟨(NttBridge.decoded_ranges sig pk hs hp).1, (NttBridge.decoded_ranges sig pk hs hp).2, NttBridge.polyChallenge_facts shake256 ctil⟩

/-- an out-of-range response is never accepted -/
theorem out_of_range_rejected (sig msg pk : Bytes) (parts : SigParts) (hu : unpackSig sig = some parts)
    (hz : vecChkNorm parts.z (BitVec.ofNat 32 (GAMMA1 - BETA)) = true) : verify shake128 shake256 sig msg pk = false := by
  cases hv : verify shake128 shake256 sig msg pk with
  | false => rfl
  | true =>
    obtain ⟨p, hp, hn, _⟩ := (verify_decision shake128 shake256 sig msg pk).mp hv
    rw [hu] at hp; injection hp with hp; subst hp
    rw [hz] at hn; cases hn

/-- a signature the decoder refuses is never accepted, and `Open` returns nothing for it -/
theorem undecodable_rejected (sig msg pk : Bytes) (hu : unpackSig sig = none) : verify shake128 shake256 sig msg pk = false := by
  simp [verify, hu]

theorem open_none_of_not_verify (sm pk : Bytes) (h : verify shake128 shake256 (sm.take CryptoBytes) (sm.drop CryptoBytes) pk = false) :
    openSealed shake128 shake256 sm pk = none := by
  unfold openSealed
  split
  · rfl
  · simp [h]

end

/-- the response section is canonical: every 640-byte block is the encoding of the polynomial it decodes to,
so two different byte strings never decode to the same response -/
theorem z_section_canonical (b : Bytes) (hl : b.length = 640) : polyZPack (polyZUnpack b) = b := Qrl.C13.z_canonical b hl

/-- the whole signature encoding is canonical: an accepted byte string is *the* encoding of its decoded value
(ordering, no duplicates, counts and zero padding make the hint section injective; z is a bijection) -/
theorem accepted_is_canonical (sig : Bytes) (hl : sig.length = Gen.Dil.CryptoBytes) (parts : SigParts) (h : unpackSig sig = some parts) :
    packSig parts.c parts.z parts.h = sig := Qrl.C13.sig_canonical sig hl parts h

/-- hence two different byte strings accepted by the decoder decode to different (c̃, z, h) -/
theorem decode_injective (s1 s2 : Bytes) (h1 : s1.length = Gen.Dil.CryptoBytes) (h2 : s2.length = Gen.Dil.CryptoBytes)
    (p : SigParts) (e1 : unpackSig s1 = some p) (e2 : unpackSig s2 = some p) : s1 = s2 := by
  rw [← accepted_is_canonical s1 h1 p e1, ← accepted_is_canonical s2 h2 p e2]

end Qrl.C05
