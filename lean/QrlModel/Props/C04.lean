import QrlModel.Proofs.XmssBasic
/-! # C04 — XMSS `Verify` accepts exactly what the scheme defines as valid

Decision-structure theorems about the model `verifyW` (= `VerifyWithCustomWOTSParamW`; `verify` is the
case w = 16), for every hash function, message, signature and public-key byte string. That a flipped bit
changes the recomputed root is a collision-resistance statement about the hash function and is not a
theorem about this code; it is covered by exhaustive bit-flip runs on the real implementation. -/
namespace Qrl.Xmss.C04

section
variable (hashOf : Nat → Bytes → Bytes)

/-- the conditions under which the verifier goes on to recompute the root -/
structure WellFormed (sig epk : Bytes) (w : Nat) (p : WParams) : Prop where
  params : wparams? w = some p
  sigType : (Desc.ofPrefix epk).sigType = 0
  hash : supportedHash (Desc.ofPrefix epk).hashFn = true
  size : sig.length = 36 + p.keySize + 32 * (Desc.ofPrefix epk).height
  heightEven : (Desc.ofPrefix epk).height % 2 = 0
  heightMin : 4 ≤ (Desc.ofPrefix epk).height
  heightMax : (Desc.ofPrefix epk).height ≤ 30

/-- **acceptance decision**: `Verify` returns true exactly when the descriptor names the XMSS signature
type, one of the three implemented hash functions and an even height 4..30, the signature has exactly the
size that height implies, and the root recomputed from (message, index, randomiser, WOTS chains,
authentication path) equals all 32 bytes of the root in the public key -/
theorem accept_iff (msg sig epk : Bytes) (w : Nat) :
    verifyW hashOf msg sig epk w = .ok true ↔
      ∃ p, WellFormed sig epk w p ∧
        verifySig hashOf (Desc.ofPrefix epk).hashFn p msg sig (epk.drop 3) (Desc.ofPrefix epk).height = .ok true := by
  unfold verifyW
  rcases hp : wparams? w with _ | p
  · simp only
    constructor
    · intro h; cases h
    · rintro ⟨p, hwf, _⟩
      have := hwf.params; rw [hp] at this; cases this
  · simp only
    constructor
    · intro h
      split at h; · cases h
      split at h; · cases h
      split at h; · cases h
      split at h; · cases h
      split at h; · cases h
      split at h; · cases h
      split at h; · cases h
      rename_i h1 h2 h3 h4 h5 h6 h7
      simp only [WParams.keySize] at *
      have hh : (Desc.ofPrefix epk).height = (sig.length - (4 + 32 + p.len * 32)) / 32 := by
        have := h5; simp only [not_or, Decidable.not_not] at this; exact this.2
      have h5' : ¬ ((sig.length - (4 + 32 + p.len * 32)) / 32 = 0) := fun e => h5 (Or.inl e)
      have h7a : ¬ (2 ≥ (sig.length - (4 + 32 + p.len * 32)) / 32) := fun e => h7 (Or.inl e)
      have h7b : ¬ (((sig.length - (4 + 32 + p.len * 32)) / 32 - 2) % 2 = 1) := fun e => h7 (Or.inr e)
      have h4' : (sig.length - 4) % 32 = 0 := by simpa using h4
      refine ⟨p, ⟨hp, by simpa using h2, by simpa using h6, ?_, ?_, ?_, ?_⟩, ?_⟩
      · simp only [WParams.keySize]; omega
      · omega
      · omega
      · omega
      · rw [hh]; exact h
    · rintro ⟨p', hwf, hv⟩
      have : p' = p := by have := hwf.params; rw [hp] at this; injection this with this; exact this.symm
      subst this
      have hs := hwf.size; have he := hwf.heightEven; have h4 := hwf.heightMin; have h30 := hwf.heightMax
      simp only [WParams.keySize] at hs
      have hh : (sig.length - (4 + 32 + p'.keySize)) / 32 = (Desc.ofPrefix epk).height := by
        simp only [WParams.keySize]; omega
      split
      · rename_i hc; exfalso; simp only [WParams.keySize] at hc; omega
      split
      · rename_i hc; exact absurd hwf.sigType hc
      split
      · rename_i hc; exfalso; simp only [WParams.keySize] at hc; omega
      split
      · rename_i hc; exfalso; omega
      rw [hh]
      split
      · rename_i hc; exfalso; omega
      split
      · rename_i hc; exfalso; simp [hwf.hash] at hc
      split
      · rename_i hc; exfalso; omega
      exact hv

/-- a public key declaring a hash function the library does not implement never verifies anything -/
theorem unsupported_hash_never_accepted (msg sig epk : Bytes) (w : Nat)
    (h : supportedHash (Desc.ofPrefix epk).hashFn = false) : verifyW hashOf msg sig epk w ≠ .ok true := by
  intro hv
  obtain ⟨p, hwf, _⟩ := (accept_iff hashOf msg sig epk w).mp hv
  rw [hwf.hash] at h; cases h

/-- a signature whose size does not match the height the public key declares never verifies -/
theorem height_mismatch_never_accepted (msg sig epk : Bytes) (w : Nat) (p : WParams) (hp : wparams? w = some p)
    (h : sig.length ≠ 36 + p.keySize + 32 * (Desc.ofPrefix epk).height) : verifyW hashOf msg sig epk w ≠ .ok true := by
  intro hv
  obtain ⟨p', hwf, _⟩ := (accept_iff hashOf msg sig epk w).mp hv
  have : p' = p := by have := hwf.params; rw [hp] at this; injection this with this; exact this.symm
  subst this
  exact h hwf.size

/-- unsupported heights (odd, below 4, above 30) and foreign signature types never verify -/
theorem bad_descriptor_never_accepted (msg sig epk : Bytes) (w : Nat)
    (h : (Desc.ofPrefix epk).sigType ≠ 0 ∨ (Desc.ofPrefix epk).height % 2 = 1 ∨ (Desc.ofPrefix epk).height < 4) :
    verifyW hashOf msg sig epk w ≠ .ok true := by
  intro hv
  obtain ⟨p, hwf, _⟩ := (accept_iff hashOf msg sig epk w).mp hv
  have := hwf.sigType; have := hwf.heightEven; have := hwf.heightMin
  omega

/-- the bits of the public key the verifier interprets: byte 0, the low nibble of byte 1, bytes 3..66.
Byte 2 and the address-format nibble do not influence the result. -/
theorem verify_reads_only_interpreted_bits (msg sig rest : Bytes) (w : Nat) (b0 b1 b1' b2 b2' : UInt8)
    (h : b1.toNat % 16 = b1'.toNat % 16) :
    verifyW hashOf msg sig (b0 :: b1 :: b2 :: rest) w = verifyW hashOf msg sig (b0 :: b1' :: b2' :: rest) w := by
  unfold verifyW
  simp [Desc.ofPrefix, Desc.ofBytes, h]

/-- `Verify` is `VerifyWithCustomWOTSParamW` with w = 16 -/
theorem verify_eq_w16 (msg sig epk : Bytes) : verify hashOf msg sig epk = verifyW hashOf msg sig epk 16 := rfl

end

-- non-vacuity: a height-4 descriptor with a 2308-byte signature meets `WellFormed`
example : WellFormed (List.replicate 2308 0) ([0x01, 0x02, 0x00] ++ List.replicate 64 0) 16 wp16 :=
  ⟨rfl, by decide, by decide, by rw [List.length_replicate]; decide, by decide, by decide, by decide⟩

end Qrl.Xmss.C04
