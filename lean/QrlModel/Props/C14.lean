import QrlModel.Props.C04
import QrlModel.Props.C10
import QrlModel.Props.C05
import QrlModel.Proofs.DilBounds
/-! # C14 — verification and decoding of untrusted bytes never crashes

The model goes through a bounds-checked accessor (`sliceO`, `getO`, `slicesO`, `input[in]?`, the result
buffer of the mnemonic decoder) wherever the Go code slices or indexes attacker-controlled data; an
out-of-range access would surface as `Outcome.fault`. The theorems say: for all byte strings of all
lengths, all descriptor values and w ∈ {4,16,256}, the outcome is a value or one of the library's explicit
refusals — never a fault. "A Go runtime.Error cannot occur" and "inputs are not modified" are runtime facts
checked by the harness on every malformed call (panic value types, input buffers compared). -/
namespace Qrl.C14
open Qrl.Xmss

theorem sliceO_ok {α} (l : List α) (a b : Nat) (w : String) (h1 : a ≤ b) (h2 : b ≤ l.length) :
    sliceO l a b w = .ok ((l.drop a).take (b - a)) := by
  simp [sliceO, slice?, h1, h2]

theorem slicesO_ok (l : Bytes) (w : String) : ∀ (n off : Nat), off + 32 * n ≤ l.length →
    ∃ r, slicesO l w n off = .ok r ∧ r.length = n
  | 0, _, _ => ⟨[], rfl, rfl⟩
  | n+1, off, h => by
    obtain ⟨r, hr, hl⟩ := slicesO_ok l w n (off + 32) (by omega)
    refine ⟨(l.drop off).take 32 :: r, ?_, by simp [hl]⟩
    simp only [slicesO]
    rw [sliceO_ok l off (off+32) w (by omega) (by omega), hr]
    simp

theorem getO_ok {α} (l : List α) (i : Nat) (w : String) (h : i < l.length) : getO l i w = .ok l[i] := by
  simp [getO, List.getElem?_eq_getElem h]

section
variable (hashOf : Nat → Bytes → Bytes)

/-- once the size and descriptor guards have passed, every slice and index expression of `xmssVerifySig`
is in range: the verifier returns a boolean -/
theorem verifySig_total (hlen : ∀ hf x, (hashOf hf x).length = 32) (hf : Nat) (p : WParams) (hp : GoodParams p)
    (msg sig pk : Bytes) (h : Nat) (hpk : pk.length = 64) (hsig : sig.length = 36 + p.keySize + 32 * h) :
    ∃ b, verifySig hashOf hf p msg sig pk h = .ok b := by
  have hks : p.keySize = p.len * 32 := rfl
  unfold verifySig
  simp only [bind, Outcome.bind, pure]
  rw [sliceO_ok pk 32 64 _ (by omega) (by omega)]; simp only
  rw [getO_ok sig 0 _ (by omega)]; simp only
  rw [getO_ok sig 1 _ (by omega)]; simp only
  rw [getO_ok sig 2 _ (by omega)]; simp only
  rw [getO_ok sig 3 _ (by omega)]; simp only
  rw [sliceO_ok sig 4 36 _ (by omega) (by omega)]; simp only
  rw [sliceO_ok pk 0 32 _ (by omega) (by omega)]; simp only
  rw [sliceO_ok sig 36 sig.length _ (by omega) (by omega)]; simp only
  obtain ⟨chains, hc, hcl⟩ := slicesO_ok ((sig.drop 36).take (sig.length - 36)) "wots sig chain" p.len 0
    (by simp only [List.length_take, List.length_drop]; omega)
  rw [hc]; simp only
  simp only [wotsPKFromSig, bind, Outcome.bind, pure]
  generalize hmh : hMsg (hashOf hf) msg _ = mh
  have hml : mh.length = 32 := by rw [← hmh]; exact hlen _ _
  obtain ⟨ds, hds, _, _⟩ := wotsDigits_ok p hp mh hml
  rw [hds]; simp only
  rw [sliceO_ok sig (36 + p.keySize) sig.length _ (by omega) (by omega)]; simp only
  obtain ⟨auth, ha, _⟩ := slicesO_ok ((sig.drop (36 + p.keySize)).take (sig.length - (36 + p.keySize))) "authpath" h 0
    (by simp only [List.length_take, List.length_drop]; omega)
  rw [ha]
  exact ⟨_, rfl⟩

/-- **`xmss.Verify` / `VerifyWithCustomWOTSParamW` never faults**: for every message, every signature byte
string of every length, every 67-byte public key and every w, the outcome is `ok _` or one of the explicit
refusals "logW" (unsupported w), "sig-size", "sig-type", "params" -/
theorem xmss_verify_no_fault (hlen : ∀ hf x, (hashOf hf x).length = 32) (msg sig epk : Bytes) (w : Nat) (hpk : epk.length = 67) :
    (∃ b, verifyW hashOf msg sig epk w = .ok b) ∨
    (∃ c, verifyW hashOf msg sig epk w = .refuse c ∧ (c = "logW" ∨ c = "sig-size" ∨ c = "sig-type" ∨ c = "params")) := by
  unfold verifyW
  rcases hp : wparams? w with _ | p
  · exact Or.inr ⟨_, rfl, Or.inl rfl⟩
  · simp only
    split; · exact Or.inr ⟨_, rfl, Or.inr (Or.inl rfl)⟩
    split; · exact Or.inr ⟨_, rfl, Or.inr (Or.inr (Or.inl rfl))⟩
    split; · exact Or.inr ⟨_, rfl, Or.inr (Or.inl rfl)⟩
    split; · exact Or.inr ⟨_, rfl, Or.inr (Or.inl rfl)⟩
    split; · exact Or.inl ⟨_, rfl⟩
    split; · exact Or.inl ⟨_, rfl⟩
    split; · exact Or.inr ⟨_, rfl, Or.inr (Or.inr (Or.inr rfl))⟩
    rename_i h1 h2 h3 h4 h5 h6 h7
    left
    have hks : p.keySize = p.len * 32 := rfl
    have h4' : (sig.length - 4) % 32 = 0 := by simpa using h4
    exact verifySig_total hashOf hlen _ p (wparams_good hp) msg sig (epk.drop 3) _ (by simp [hpk]) (by omega)
end

/-- **mnemonic decoding never faults** (every byte string): value or refusal "mnemonic-odd" / "mnemonic-word" /
"mnemonic-size" -/
theorem mnemonic_no_fault (m : Bytes) :
    (Mnemonic.mnemonicToSeedBin m).isFault = false ∧ (Mnemonic.mnemonicToExtendedSeedBin m).isFault = false := by
  have h := Mnemonic.C10.dec_never_faults m
  constructor <;>
  · simp only [Mnemonic.mnemonicToSeedBin, Mnemonic.mnemonicToExtendedSeedBin, Mnemonic.mnemonicToSized, bind, Outcome.bind]
    cases hm : Mnemonic.mnemonicToBin m with
    | ok o => simp only; split <;> rfl
    | refuse c => rfl
    | fault w => rw [hm] at h; cases h

/-- **address functions are total**: validation returns a boolean for every 20/39-byte string; derivation
returns an address or the explicit refusal "addr-format" -/
theorem address_fns_total (shake256 : Bytes → Nat → Bytes) (sha256 : Bytes → Bytes) (epk : Bytes) :
    ((∃ a, xmssAddressFromPK shake256 epk = .ok a) ∨ xmssAddressFromPK shake256 epk = .refuse "addr-format") ∧
    ((∃ a, legacyAddressFromPK sha256 epk = .ok a) ∨ legacyAddressFromPK sha256 epk = .refuse "addr-format") := by
  constructor
  · unfold xmssAddressFromPK; simp only; split
    · exact Or.inr rfl
    · exact Or.inl ⟨_, rfl⟩
  · unfold legacyAddressFromPK; simp only; split
    · exact Or.inr rfl
    · exact Or.inl ⟨_, rfl⟩

/-- **Dilithium `Verify` and `Open` never refuse**: the model verifier is a total boolean function of
(signature, message, key) and `Open` returns a message or nothing -/
theorem dil_verify_total (shake128 shake256 : Bytes → Nat → Bytes) (sig msg pk : Bytes) :
    Dil.verify shake128 shake256 sig msg pk = true ∨ Dil.verify shake128 shake256 sig msg pk = false := by
  cases Dil.verify shake128 shake256 sig msg pk <;> simp

/-- **the hint decoder of `unpackSig` never indexes out of range**: for every 4595-byte signature, the decoder with every
access checked the way Go checks it (`sig[OMEGA+i]`, `sig[j]`, `sig[j-1]` against the 83-byte hint section, `coeffs[sig[j]]`
against 256) never faults and returns exactly what the model's decoder returns -/
theorem dil_hint_decoder_in_range (sig : Bytes) (hl : sig.length = Gen.Dil.CryptoBytes) :
    DilBounds.unpackHintsO (sig.drop (32 + Gen.Dil.L * 640)) = .ok (Dil.unpackHints (sig.drop (32 + Gen.Dil.L * 640))) := by
  apply DilBounds.unpackHintsO_ok
  rw [List.length_drop, hl]; rfl

theorem dil_open_short (shake128 shake256 : Bytes → Nat → Bytes) (sm pk : Bytes) (h : sm.length < 4595) :
    Dil.openSealed shake128 shake256 sm pk = none := by
  unfold Dil.openSealed
  rw [if_pos (by simpa [Gen.Dil.CryptoBytes] using h)]

end Qrl.C14
