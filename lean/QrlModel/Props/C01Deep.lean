import QrlModel.Props.C01
import QrlModel.Props.C06
import QrlModel.Proofs.Seg.H18
/-! Deep tier (`VERIF_DEEP=1 ./check C01 --tier thorough`, not part of the registered commands): the label-level
whole-life check of height 18 — key generation in 1024 pieces of 256 leaves, the traversal in 3591 segments of 73
indices; about 40 minutes of kernel evaluation on 16 cores, peak ≈ 30 GB — and the C01 / C06 statements for that
height. Height 18 is the largest tree the QRL wallet software offers. -/
namespace Qrl.Xmss.Deep
open Qrl.BdsLabel

theorem C01_h18 (hashOf : Nat → Bytes → Bytes) (shake256 : Bytes → Nat → Bytes) : C01.C01Statement hashOf shake256 18 :=
  C01.C01_height hashOf shake256 18 Seg18.traversal (by decide) (by decide) (by decide)

theorem C06_h18 (hashOf : Nat → Bytes → Bytes) (shake256 : Bytes → Nat → Bytes) : C06.C06Statement hashOf shake256 18 :=
  C06.C06_height hashOf shake256 18 Seg18.traversal (by decide) (by decide)

end Qrl.Xmss.Deep
