import QrlModel.Proofs.XmssCraft
/-! # C04 (continued) — triples crafted through the model are valid by the scheme's definition

`crafted_triples_are_valid`: what `Xmss.craft` returns is accepted by `verifyW`, for every Winternitz parameter in
{4, 16, 256}, hash id 0..2, even height 4..30, index below 2^32, message and random parts. The C04 and C16 runs use
such triples as "valid signatures" at heights where no key can be generated and for the parameters 4 and 256, with
which the library never signs; the library has to accept each of them (and the model is asked again at run time).
It lives in its own module because the proof uses the end-to-end XMSS lemmas, which import `Props/C04`. -/
namespace Qrl.Xmss.C04

theorem crafted_triples_are_valid (hashOf : Nat → Bytes → Bytes) (hlen : ∀ hf x, (hashOf hf x).length = 32)
    (w : Nat) (p : WParams) (hw : wparams? w = some p)
    (hf h idx : Nat) (hhf : hf ≤ 2) (h4 : 4 ≤ h) (h30 : h ≤ 30) (hev : h % 2 = 0) (hidx : idx < 4294967296)
    (msg otsSeed pubSeed r : Bytes) (auth : List Bytes) (hps : pubSeed.length = 32) (hr : r.length = 32)
    (hal : h ≤ auth.length) (ha32 : ∀ x ∈ auth, x.length = 32) :
    ∃ sig pk, craft hashOf p hf h idx msg otsSeed pubSeed r auth = .ok (sig, pk) ∧ verifyW hashOf msg sig pk w = .ok true :=
  craft_valid hashOf hlen w p hw hf h idx hhf h4 h30 hev hidx msg otsSeed pubSeed r auth hps hr hal ha32

/-- the premises are satisfiable: w = 16, SHA2_256's id, height 4, index 0 -/
example : wparams? 16 = some wp16 ∧ (0 : Nat) ≤ 2 ∧ 4 ≤ 4 ∧ 4 ≤ 30 ∧ 4 % 2 = 0 := by decide

end Qrl.Xmss.C04
