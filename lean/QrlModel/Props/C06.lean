import QrlModel.Proofs.XmssRefEq
import QrlModel.Props.C01
import QrlModel.Proofs.Seg.H12
/-! # C06 — XMSS keys and signatures are the fixed QRL-XMSS function of their inputs

`Spec/XmssRef.lean` is the plain full-Merkle-tree reference: seed → SHAKE256(seed, 96) → SK_SEED ‖ SK_PRF ‖
PUB_SEED, all 2^h leaves, the whole tree level by level, signature i = idx ‖ PRF(SK_PRF, idx) ‖ WOTS ‖ true
path. `C06_height`: for a height whose label-level whole-life check holds (proved for 4, 6, 8, 10), for every
seed, hash function (32-byte output), descriptor of that height, index, message **and every history that led
to that index**, the model of the library returns byte for byte the reference public key and the reference
signature. Heights 12..30 are `C06_partial` (same lemma, the per-height check missing); there and for the
tie between model and Go code the correspondence run compares the real library with the executable
reference (`xs.pk`, `xs.sign`; all three hash functions; the suite's zero-seed known answers). -/
namespace Qrl.Xmss.C06
open Qrl.XmssRef Qrl.BdsLabel Qrl.Xmss.C02 Qrl.Xmss.C08 Qrl.Xmss.C01

section
variable (hashOf : Nat → Bytes → Bytes) (shake256 : Bytes → Nat → Bytes)

def C06Statement (h : Nat) : Prop :=
  ∀ (_ : ∀ hf x, (hashOf hf x).length = 32) (seed : Bytes) (_ : (shake256 seed 96).length = 96)
    (d : Desc) (_ : d.height = h) (k0 : Key) (_ : initializeTree hashOf shake256 d seed = .ok k0),
    (refKeyD hashOf shake256 seed d).pk = k0.pk ∧
    ∀ (ops : List Op) (_ : ∀ op ∈ ops, opOK op) (msg : Bytes) (k' : Key) (sig : Bytes),
      (specRun h 0 ops).1 < 2 ^ h →
      sign hashOf (run hashOf k0 ops).1 msg = .ok (k', sig) →
      refSign hashOf (refKeyD hashOf shake256 seed d) (specRun h 0 ops).1 msg = .ok sig

theorem C06_height (h : Nat) (hc : TraversalCorrect h) (h4 : 4 ≤ h) (h30 : h ≤ 30) : C06Statement hashOf shake256 h := by
  intro hlen seed hs d hh k0 hk
  have hrootlen : ((Bds.treeHashSetup (opsFor hashOf d.hashFn ((shake256 seed 96).take 32) (((shake256 seed 96).drop 64).take 32)) d.height).2).length = 32 := by
    have := (BdsRel.traversal_transfer (treeOps (hashOf d.hashFn) (((shake256 seed 96).drop 64).take 32)
      (fun j => genLeafWOTS (hashOf d.hashFn) wp16 ((shake256 seed 96).take 32) (((shake256 seed 96).drop 64).take 32) j)) h hc).1
    rw [hh]
    show (Bds.treeHashSetup (treeOps _ _ _) h).2.length = 32
    rw [this]
    exact tree_len _ (hlen _) _ _ (fun j => genLeafWOTS_len _ (hlen _) _ _ _ _) _ _
  have hg := generated_of_init hashOf shake256 d seed k0 hs hk hrootlen
  obtain ⟨hpk, hsig⟩ := lib_eq_ref hashOf shake256 h hc hlen seed hs d hh h4 h30 k0 hg
  refine ⟨hpk, fun ops hops msg k' sig hleft hsign => ?_⟩
  have hk0h : k0.h = h := by rw [hg.h, hh]
  have hfresh : keyAt hashOf k0 0 = k0 := fresh_is_keyAt0 hashOf k0 hg.skz
  have hhist := history_state hashOf hlen k0 (by omega) (by omega) ops 0 (Nat.zero_le _) hops
  rw [hfresh, hk0h] at hhist
  rw [hhist] at hsign
  exact hsig _ hleft msg k' sig hsign

theorem C06_h4 : C06Statement hashOf shake256 4 := C06_height hashOf shake256 4 (traversal_of_checkAll _ bds_h4) (by decide) (by decide)
theorem C06_h6 : C06Statement hashOf shake256 6 := C06_height hashOf shake256 6 (traversal_of_checkAll _ bds_h6) (by decide) (by decide)
theorem C06_h8 : C06Statement hashOf shake256 8 := C06_height hashOf shake256 8 (traversal_of_checkAll _ bds_h8) (by decide) (by decide)
theorem C06_h10 : C06Statement hashOf shake256 10 := C06_height hashOf shake256 10 (traversal_of_checkAll _ bds_h10) (by decide) (by decide)
theorem C06_h12 : C06Statement hashOf shake256 12 := C06_height hashOf shake256 12 Seg12.traversal (by decide) (by decide)

theorem C06_partial (h : Nat) (h4 : 4 ≤ h) (h30 : h ≤ 30) (hc : TraversalCorrect h) : C06Statement hashOf shake256 h :=
  C06_height hashOf shake256 h hc h4 h30

/-- signature layout idx ‖ R ‖ WOTS ‖ auth: the first four bytes of a reference signature are the index -/
theorem ref_sig_index (k : RefKey) (idx : Nat) (msg sig : Bytes) (hi : idx < 4294967296)
    (h : refSign hashOf k idx msg = .ok sig) : indexOf sig = idx := by
  unfold refSign at h
  simp only [bind, Outcome.bind, pure] at h
  split at h
  · injection h with h
    subst h
    simp only [List.append_assoc]
    exact indexOf_toBytesBE_append _ _ hi
  · cases h
  · cases h

/-- `Verify` is `VerifyWithCustomWOTSParamW(w = 16)` -/
theorem verify_eq_w16 (msg sig epk : Bytes) : verify hashOf msg sig epk = verifyW hashOf msg sig epk 16 := rfl

end
end Qrl.Xmss.C06
