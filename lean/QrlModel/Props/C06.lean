import QrlModel.Spec.XmssRef
import QrlModel.Props.C01
/-! # C06 — XMSS keys and signatures are the fixed QRL-XMSS function of their inputs

`Spec/XmssRef.lean` is the plain full-Merkle-tree reference (no traversal state). The executable
reference is compared byte for byte with the library by the correspondence run (`xs.pk`, `xs.sign`). -/
namespace Qrl.Xmss.C06
open Qrl.XmssRef

section
variable (hashOf : Nat → Bytes → Bytes) (shake256 : Bytes → Nat → Bytes)

/-- signature layout idx ‖ R ‖ WOTS ‖ auth: the first four bytes of a reference signature are the index -/
theorem ref_sig_index (k : RefKey) (idx : Nat) (msg sig : Bytes) (hi : idx < 4294967296)
    (h : refSign hashOf k idx msg = .ok sig) : indexOf sig = idx := by
  unfold refSign at h
  simp only [bind, Outcome.bind, pure] at h
  split at h
  · injection h with h
    subst h
    simp only [List.append_assoc]
    exact indexOf_toBytesBE_append _ _ hi
  · cases h
  · cases h

/-- `Verify` is `VerifyWithCustomWOTSParamW(w = 16)` -/
theorem verify_eq_w16 (msg sig epk : Bytes) : verify hashOf msg sig epk = verifyW hashOf msg sig epk 16 := rfl

/-- the seed expansion: SK_SEED, SK_PRF, PUB_SEED are bytes 0..32, 32..64, 64..96 of SHAKE256(seed, 96), in
both the library model and the reference -/
theorem seed_expansion (seed : Bytes) (h hf : Nat) :
    (refKey hashOf shake256 seed h hf).skSeed = (shake256 seed 96).take 32 ∧
    (refKey hashOf shake256 seed h hf).skPRF = ((shake256 seed 96).drop 32).take 32 ∧
    (refKey hashOf shake256 seed h hf).pubSeed = ((shake256 seed 96).drop 64).take 32 := ⟨rfl, rfl, rfl⟩

end
end Qrl.Xmss.C06
