import QrlModel.Props.C01
import QrlModel.Props.C06
import QrlModel.Proofs.Seg.H14
/-! Thorough tier: the label-level whole-life check of height 14 (43 segment certificates of 381 indices,
about 8 minutes of kernel evaluation) and the C01 / C06 statements for that height. -/
namespace Qrl.Xmss.Thorough
open Qrl.BdsLabel

theorem C01_h14 (hashOf : Nat → Bytes → Bytes) (shake256 : Bytes → Nat → Bytes) : C01.C01Statement hashOf shake256 14 :=
  C01.C01_height hashOf shake256 14 Seg14.traversal (by decide) (by decide) (by decide)

theorem C06_h14 (hashOf : Nat → Bytes → Bytes) (shake256 : Bytes → Nat → Bytes) : C06.C06Statement hashOf shake256 14 :=
  C06.C06_height hashOf shake256 14 Seg14.traversal (by decide) (by decide)

end Qrl.Xmss.Thorough
