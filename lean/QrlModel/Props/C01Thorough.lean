import QrlModel.Props.C01
import QrlModel.Props.C06
import QrlModel.Proofs.Seg.H14
import QrlModel.Proofs.Seg.H16
/-! Thorough tier: the label-level whole-life checks of height 14 (key generation in 128 pieces of 128 leaves, the
traversal in 127 segments of 129 indices) and of height 16 (256 pieces of 256 leaves, 771 segments of 85 indices) —
together about 18 minutes of kernel evaluation on 16 cores, peak 18 GB — and the C01 / C06 statements for those heights. -/
namespace Qrl.Xmss.Thorough
open Qrl.BdsLabel

theorem C01_h14 (hashOf : Nat → Bytes → Bytes) (shake256 : Bytes → Nat → Bytes) : C01.C01Statement hashOf shake256 14 :=
  C01.C01_height hashOf shake256 14 Seg14.traversal (by decide) (by decide) (by decide)

theorem C06_h14 (hashOf : Nat → Bytes → Bytes) (shake256 : Bytes → Nat → Bytes) : C06.C06Statement hashOf shake256 14 :=
  C06.C06_height hashOf shake256 14 Seg14.traversal (by decide) (by decide)

theorem C01_h16 (hashOf : Nat → Bytes → Bytes) (shake256 : Bytes → Nat → Bytes) : C01.C01Statement hashOf shake256 16 :=
  C01.C01_height hashOf shake256 16 Seg16.traversal (by decide) (by decide) (by decide)

theorem C06_h16 (hashOf : Nat → Bytes → Bytes) (shake256 : Bytes → Nat → Bytes) : C06.C06Statement hashOf shake256 16 :=
  C06.C06_height hashOf shake256 16 Seg16.traversal (by decide) (by decide)

end Qrl.Xmss.Thorough
