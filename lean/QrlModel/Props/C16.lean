import QrlModel.Model.Hex
/-! # C16 — JavaScript-facing string wrappers agree with the core API

The core functions are arbitrary parameters, so the theorems hold for every core behaviour. -/
namespace Qrl.Hex.C16

theorem hexVal_digit : ∀ n < 16, hexVal (digit n) = some n := by decide

theorem digit_ne_x : ∀ n < 16, digit n ≠ 120 := by decide

theorem u8_split (x : UInt8) : UInt8.ofNat (x.toNat / 16 * 16 + x.toNat % 16) = x := by
  have : x.toNat / 16 * 16 + x.toNat % 16 = x.toNat := by omega
  rw [this]; cases x; simp [UInt8.ofNat, UInt8.toNat]

/-- **hexDecode (hexEncode b) = b** for every byte string -/
theorem decode_encode : ∀ b : Bytes, hexDecode (hexEncode b) = some b
  | [] => rfl
  | x :: rest => by
    have h1 : x.toNat / 16 < 16 := by have := x.toNat_lt; omega
    have h2 : x.toNat % 16 < 16 := by omega
    simp only [hexEncode, hexDecode, hexVal_digit _ h1, hexVal_digit _ h2, decode_encode rest, u8_split]

/-- the encoder's output never starts with the prefix "0x" (its second character is a hex digit), so
stripping is the identity on it -/
theorem clear_encode : ∀ b : Bytes, clearPrefix0x (hexEncode b) = hexEncode b
  | [] => rfl
  | x :: rest => by
    have h2 : x.toNat % 16 < 16 := by omega
    have := digit_ne_x _ h2
    simp only [hexEncode, clearPrefix0x]
    split
    · rename_i heq
      simp only [List.cons.injEq] at heq
      exact absurd heq.2.1 this
    · rfl

theorem clear_prefixed (s : Bytes) : clearPrefix0x (pfx0x ++ s) = s := rfl

theorem fit_exact (n : Nat) (b : Bytes) (h : b.length = n) : fit n b = b := by
  simp [fit, ← h]

/-- the two accepted spellings of a byte string -/
inductive Spelling (b : Bytes) : Bytes → Prop
  | plain : Spelling b (hexEncode b)
  | prefixed : Spelling b (pfx0x ++ hexEncode b)

theorem pre_spelling {b s : Bytes} (h : Spelling b s) : hexDecode (pre true s) = some b := by
  cases h with
  | plain => simp [pre, clear_encode, decode_encode]
  | prefixed => simp [pre, clear_prefixed, decode_encode]

section
variable (core : Bytes → Bytes → Bytes → Outcome Bool) (coreAddr : Bytes → Outcome Bytes) (coreValid : Bytes → Bool)

/-- `XMSSVerify` / `DilithiumVerify`: for well-formed hex of the exact expected length, with or without
the 0x prefix (independently for signature and key), the wrapper returns what the core returns -/
theorem verify_wrapper_agrees (pkSize : Nat) (msg sig pk ssig spk : Bytes) (hpk : pk.length = pkSize)
    (hs : Spelling sig ssig) (hp : Spelling pk spk) :
    verifyJS true core pkSize none msg ssig spk = core msg sig pk := by
  simp [verifyJS, pre_spelling hs, pre_spelling hp, fit_exact pkSize pk hpk]

theorem verify_wrapper_agrees_sized (pkSize sigSize : Nat) (msg sig pk ssig spk : Bytes) (hpk : pk.length = pkSize)
    (hsig : sig.length = sigSize) (hs : Spelling sig ssig) (hp : Spelling pk spk) :
    verifyJS true core pkSize (some sigSize) msg ssig spk = core msg sig pk := by
  simp [verifyJS, pre_spelling hs, pre_spelling hp, fit_exact pkSize pk hpk, fit_exact sigSize sig hsig]

theorem address_wrapper_agrees (pkSize : Nat) (with0x : Bool) (pk spk a : Bytes) (hpk : pk.length = pkSize)
    (hp : Spelling pk spk) (hc : coreAddr pk = .ok a) :
    addressFromPKJS true coreAddr pkSize with0x spk = .ok ((if with0x then pfx0x else []) ++ hexEncode a) := by
  simp [addressFromPKJS, pre_spelling hp, fit_exact pkSize pk hpk, hc, bind, Outcome.bind, pure]

theorem valid_wrapper_agrees (a sa : Bytes) (ha : a.length = 20) (hp : Spelling a sa) :
    isValidAddressJS true coreValid sa = coreValid a := by
  simp [isValidAddressJS, pre_spelling hp, fit_exact 20 a ha]

/-- input that is not valid hexadecimal (after prefix stripping): false / empty string, never a failure -/
theorem verify_nonhex_sig (pkSize : Nat) (ss : Option Nat) (msg s p : Bytes) (h : hexDecode (pre true s) = none) :
    verifyJS true core pkSize ss msg s p = .ok false := by simp [verifyJS, h]

theorem verify_nonhex_pk (pkSize : Nat) (ss : Option Nat) (msg s p : Bytes) (h : hexDecode (pre true p) = none) :
    verifyJS true core pkSize ss msg s p = .ok false := by
  simp only [verifyJS, h]; split <;> rfl

theorem address_nonhex (pkSize : Nat) (w : Bool) (p : Bytes) (h : hexDecode (pre true p) = none) :
    addressFromPKJS true coreAddr pkSize w p = .ok [] := by simp [addressFromPKJS, h]

theorem valid_nonhex (a : Bytes) (h : hexDecode (pre true a) = none) : isValidAddressJS true coreValid a = false := by
  simp [isValidAddressJS, h]
end

/-- odd length and non-hex characters are exactly what the decoder rejects -/
theorem decode_odd (c : UInt8) : hexDecode [c] = none := rfl
theorem decode_bad_char (a b : UInt8) (rest : Bytes) (h : hexVal a = none ∨ hexVal b = none) : hexDecode (a :: b :: rest) = none := by
  rcases h with h | h <;> simp [hexDecode, h]


theorem hexVal_lt (c : UInt8) (x : Nat) (h : hexVal c = some x) : x < 16 := by
  unfold hexVal at h
  split at h
  · injection h with h; omega
  · split at h
    · injection h with h; omega
    · split at h
      · injection h with h; omega
      · cases h

/-- a successful decode has consumed exactly two characters per byte -/
theorem decode_length : ∀ (s b : Bytes), hexDecode s = some b → s.length = 2 * b.length
  | [], b, h => by simp [hexDecode] at h; subst h; rfl
  | [_], b, h => by simp [hexDecode] at h
  | a :: c :: rest, b, h => by
    simp only [hexDecode] at h
    split at h
    · rename_i x y r _ _ hr
      injection h with h; subst h
      have := decode_length rest r hr
      simp only [List.length_cons]; omega
    · cases h

/-- **every odd-length string is refused**, whatever its characters -/
theorem decode_odd_length (s : Bytes) (h : s.length % 2 = 1) : hexDecode s = none := by
  cases hd : hexDecode s with
  | none => rfl
  | some b => have := decode_length s b hd; omega

/-- a successful decode means every character was a hex digit -/
theorem decode_all_hex : ∀ (s b : Bytes), hexDecode s = some b → ∀ c ∈ s, (hexVal c).isSome
  | [], _, _ => by simp
  | [_], b, h => by simp [hexDecode] at h
  | a :: c :: rest, b, h => by
    simp only [hexDecode] at h
    split at h
    · rename_i x y r ha hc hr
      intro d hd
      simp only [List.mem_cons] at hd
      rcases hd with rfl | rfl | hd
      · simp [ha]
      · simp [hc]
      · exact decode_all_hex rest r hr d hd
    · cases h

/-- **a non-hex character at any position makes the decode fail** (not only at the head) -/
theorem decode_bad_char_anywhere (s : Bytes) (c : UInt8) (hc : c ∈ s) (hv : hexVal c = none) : hexDecode s = none := by
  cases hd : hexDecode s with
  | none => rfl
  | some b => have := decode_all_hex s b hd c hc; simp [hv] at this

/-- the decoder is case-insensitive and otherwise injective: two strings that decode to the same bytes have the
same length and the same digit values at every position -/
theorem decode_inj_vals : ∀ (s t b : Bytes), hexDecode s = some b → hexDecode t = some b → s.map hexVal = t.map hexVal
  | [], t, b, hs, ht => by
    simp [hexDecode] at hs; subst hs
    have := decode_length t [] ht
    simp at this; subst this; rfl
  | [_], _, _, hs, _ => by simp [hexDecode] at hs
  | a :: c :: rest, t, b, hs, ht => by
    simp only [hexDecode] at hs
    split at hs
    · rename_i x y r ha hc hr
      injection hs with hs; subst hs
      match t, ht with
      | [], ht => simp [hexDecode] at ht
      | [_], ht => simp [hexDecode] at ht
      | a' :: c' :: rest', ht =>
        simp only [hexDecode] at ht
        split at ht
        · rename_i x' y' r' ha' hc' hr'
          injection ht with ht
          injection ht with h1 h2
          subst h2
          have hx := hexVal_lt _ _ ha
          have hy := hexVal_lt _ _ hc
          have hx' := hexVal_lt _ _ ha'
          have hy' := hexVal_lt _ _ hc'
          have hn : (x' * 16 + y') % 256 = (x * 16 + y) % 256 := by
            have := congrArg UInt8.toNat h1
            simpa [UInt8.ofNat, UInt8.toNat] using this
          have hxy : x' = x ∧ y' = y := by omega
          have ih := decode_inj_vals rest rest' r' hr hr'
          simp only [List.map_cons, ha, hc, ha', hc', ih, hxy.1, hxy.2]
        · cases ht
    · cases hs

example : hexDecode [48, 49, 50] = none := decode_odd_length _ rfl
example : hexDecode [48, 49, 103, 50] = none := decode_bad_char_anywhere _ 103 (by decide) (by decide)
example : hexDecode [65, 98] = some [0xab] ∧ hexDecode [97, 66] = some [0xab] := by decide

-- non-vacuity
example : Spelling [0xab, 0x01] [48, 120, 97, 98, 48, 49] := Spelling.prefixed
example : hexDecode (pre true [48, 120, 65, 66]) = some [0xab] := by decide

end Qrl.Hex.C16
