import QrlModel.Proofs.DilScalar
import QrlModel.Proofs.NttBridge
/-! # C12 — Dilithium ring arithmetic is exact on its whole operating domain

Every theorem here is about the *generated* definitions `Gen.Dil.*` (the Go functions of reduce.go,
rounding.go, the norm-check lane of poly.go and the `zetas` table, translated by tools/gogen on every run
with Go's wrap-around semantics) and is therefore re-checked against what the code says now. All are
kernel-only (`omega` on the Int image of the BitVec terms; no `bv_decide`). -/
namespace Qrl.C12
open Gen.Dil Qrl.DilProofs

/-- **Montgomery reduction**: for −2^31·q ≤ a < 2^31·q the result r satisfies r·2^32 ≡ a (mod q), −q < r < q -/
theorem montgomery_spec (a : BitVec 64) (h0 : -(2147483648 * 8380417) ≤ a.toInt) (h1 : a.toInt < 2147483648 * 8380417) :
    (montgomeryReduce a).toInt * 4294967296 % 8380417 = a.toInt % 8380417 ∧
    -8380417 < (montgomeryReduce a).toInt ∧ (montgomeryReduce a).toInt < 8380417 :=
  montgomeryReduce_spec a h0 h1

/-- **reduce32**: for a ≤ 2^31 − 2^22 − 1: r ≡ a (mod q), −6283009 ≤ r ≤ 6283008 -/
theorem reduce32_spec (a : BitVec 32) (h : a.toInt ≤ 2143289343) :
    (reduce32 a).toInt % 8380417 = a.toInt % 8380417 ∧ -6283009 ≤ (reduce32 a).toInt ∧ (reduce32 a).toInt ≤ 6283008 :=
  DilProofs.reduce32_spec a h

/-- **cAddQ**: for −q < a < q the result is the representative in [0, q) -/
theorem caddq_spec (a : BitVec 32) (h1 : -8380417 < a.toInt) (h2 : a.toInt < 8380417) :
    0 ≤ (cAddQ a).toInt ∧ (cAddQ a).toInt < 8380417 ∧ (cAddQ a).toInt % 8380417 = a.toInt % 8380417 :=
  cAddQ_spec a h1 h2

/-- **power2Round** = (⌈a/2^13⌋ part, a mod± 2^13) for every a ∈ [0, q) -/
theorem power2round_spec (a : BitVec 32) (h0 : 0 ≤ a.toInt) (h1 : a.toInt < 8380417) :
    ((power2Round a).1.toInt, (power2Round a).2.toInt) = p2rSpec a.toInt := power2Round_spec a h0 h1

theorem p2r_defining (a : Int) (h0 : 0 ≤ a) (h1 : a < 8380417) :
    a = (p2rSpec a).1 * 8192 + (p2rSpec a).2 ∧ -4096 < (p2rSpec a).2 ∧ (p2rSpec a).2 ≤ 4096 ∧ 0 ≤ (p2rSpec a).1 ∧ (p2rSpec a).1 ≤ 1023 := by
  unfold p2rSpec; dsimp only; split <;> omega

/-- **decompose** = (HighBits, LowBits) of the specification, for every residue a ∈ [0, q), including the
a0 = −γ2 corner and the r − r0 = q − 1 wrap -/
theorem decompose_spec (a : BitVec 32) (h0 : 0 ≤ a.toInt) (h1 : a.toInt < 8380417) :
    ((decompose a).1.toInt, (decompose a).2.toInt) = decompSpec a.toInt := DilProofs.decompose_spec a h0 h1

theorem decompose_defining (a : Int) (h0 : 0 ≤ a) (h1 : a < 8380417) :
    0 ≤ (decompSpec a).1 ∧ (decompSpec a).1 ≤ 15 ∧
    ((-261888 < (decompSpec a).2 ∧ (decompSpec a).2 ≤ 261888 ∧ a = (decompSpec a).1 * 523776 + (decompSpec a).2) ∨
     ((decompSpec a).1 = 0 ∧ -261888 ≤ (decompSpec a).2 ∧ (decompSpec a).2 < 0 ∧ a = (decompSpec a).2 + 8380417)) :=
  decompSpec_bounds a h0 h1

/-- **makeHint** = [HighBits differs] on its whole domain (all int32 pairs) -/
theorem makehint_spec (a0 a1 : BitVec 32) : (makeHint a0 a1).toNat = (makeHintSpec a0.toInt a1.toInt).toNat :=
  makeHint_spec a0 a1

/-- **useHint** = its definition for every residue and every hint value -/
theorem usehint_spec (a : BitVec 32) (hint : BitVec 64) (h0 : 0 ≤ a.toInt) (h1 : a.toInt < 8380417) :
    (useHint a hint).toInt = useHintSpec a.toInt (if hint = 0#64 then 0 else 1) := useHint_spec a hint h0 h1

/-- **hints are correct** on the whole domain allowed by the signer's rejection tests -/
theorem hint_correct (w e f : Int) (h0 : 0 ≤ w) (h1 : w < 8380417)
    (he : -(261888 - 120) < (decompSpec w).2 + e ∧ (decompSpec w).2 + e < 261888 - 120)
    (hf : -261888 < f ∧ f < 261888) :
    useHintSpec ((w + e + f) % 8380417) (makeHintSpec ((decompSpec w).2 + e + f) (decompSpec w).1) = (decompSpec w).1 :=
  DilProofs.hint_correct w e f h0 h1 he hf

/-- **norm test** = comparison of the centred absolute value (lane, guard, operator precedence, centring) -/
theorem chknorm_lane (B a : BitVec 32) (h1 : -1073741824 < a.toInt) (h2 : a.toInt < 1073741824) :
    (polyChkNorm_exit B a).isSome = decide (B.toInt ≤ (if a.toInt < 0 then -a.toInt else a.toInt)) :=
  chknorm_lane_spec B a h1 h2

theorem chknorm_guard (B : BitVec 32) : polyChkNorm_guard0 B = decide (1047552 < B.toInt) := chknorm_guard_spec B

theorem chknorm_go_vs_c_precedence (a : BitVec 32) :
    ((a.sshiftRight 31) &&& 2#32) * a = (a.sshiftRight 31) &&& (2#32 * a) := chknorm_precedence a

theorem chknorm_is_centred_norm (a B : Int) (hB0 : 0 ≤ B) (hB : B ≤ 1047552) (h1 : -6283009 ≤ a) (h2 : a ≤ 6283008) :
    (B ≤ (if a < 0 then -a else a)) ↔ (B ≤ (let c := Int.bmod a 8380417; if c < 0 then -c else c)) :=
  chknorm_centred a B hB0 hB h1 h2

-- ---- the zetas table: zetas[k] = 1753^{brv8 k} · 2^32 mod± q for k = 1..255 ----

def brv8 (k : Nat) : Nat :=
  (List.range 8).foldl (fun acc i => acc + ((k >>> i) % 2) <<< (7 - i)) 0

def powMod (b e m : Nat) : Nat := (List.range e).foldl (fun acc _ => acc * b % m) 1

def zetaOK (k : Nat) : Bool :=
  ((zetas.getD k 0) - ((powMod 1753 (brv8 k) 8380417 * 4294967296 % 8380417 : Nat) : Int)) % 8380417 == 0
    && decide (-(8380417 / 2) ≤ zetas.getD k 0) && decide (zetas.getD k 0 ≤ 8380417 / 2)

set_option maxRecDepth 100000 in
/-- the regenerated table is the table of powers of the 512-th root of unity 1753 in Montgomery form -/
theorem zetas_table : zetas.length = 256 ∧ ((List.range 255).all fun i => zetaOK (i + 1)) = true := by decide +kernel

/-- constants the arithmetic depends on -/
theorem constants : Q = 8380417 ∧ (QInv * Q) % 4294967296 = 1 ∧ GAMMA2 = 261888 ∧ D = 13 ∧ GAMMA1 = 524288 ∧
    (41978 * 256) % 8380417 = (4294967296 * 4294967296) % 8380417 := by decide

-- non-vacuity: operands at the ends of the stated ranges
/-- **NTT multiplication is ring multiplication**: for any two polynomials with 256 coefficients in `[−q, q]`,
`invNTTToMont (pointwise (ntt a) (ntt b))` — on the model's 32-bit wrap-around arithmetic, with the generated
`zetas` table and the generated `montgomeryReduce` — is exactly the negacyclic product `a·b mod (X^256 + 1)` over
`Z_q` (`phi` maps an int32 coefficient to its residue in `ZMod q`), and no intermediate value leaves int32;
the result's coefficients are in `[−q, q]`.  Unbounded in the inputs: structural induction over the CRT tree
(`Proofs/NttField`), 127 + 255 + 1 table facts by `decide +kernel` (`Proofs/NttTable`), and a BitVec→field
bridge with explicit growth bounds (`Proofs/NttBridge`). -/
theorem ntt_mul_eq_negacyclic (a b : Qrl.Dil.Poly) (ha : a.length = 256) (hb : b.length = 256)
    (Ba : NttBridge.Bnd 8380417 a) (Bb : NttBridge.Bnd 8380417 b) :
    (Qrl.Dil.invNTTToMont (Qrl.Dil.polyPointwise (Qrl.Dil.ntt a) (Qrl.Dil.ntt b))).map NttBridge.phi =
      NttF.mulNega 256 (a.map NttBridge.phi) (b.map NttBridge.phi) ∧
    NttBridge.Bnd 8380417 (Qrl.Dil.invNTTToMont (Qrl.Dil.polyPointwise (Qrl.Dil.ntt a) (Qrl.Dil.ntt b))) :=
  NttBridge.ntt_mul_eq_negacyclic a b ha hb Ba Bb

/-- the forward transform alone: evaluation at the 256 roots of `X^256 + 1`, coefficients grow by at most `8q` -/
theorem ntt_is_evaluation (a : Qrl.Dil.Poly) (ha : a.length = 256) (Ba : NttBridge.Bnd 8380417 a) :
    (Qrl.Dil.ntt a).map NttBridge.phi = (NttF.pts NttTable.z 7 1).map (NttF.evalPoly (a.map NttBridge.phi)) ∧
    NttBridge.Bnd (9 * 8380417) (Qrl.Dil.ntt a) := by
  obtain ⟨e, b⟩ := NttBridge.ntt_bridge 8 1 a 8380417 Ba (by norm_num) (by norm_num)
  have e9 : (8380417 : Int) + ((8 : Nat) : Int) * 8380417 = 9 * 8380417 := by norm_num
  rw [e9] at b
  refine ⟨?_, b⟩
  unfold Qrl.Dil.ntt
  rw [e]
  exact NttF.nttF_eval NttTable.z NttTable.treeOK 7 1 _ (Nat.le_refl 1) (by norm_num) (by simpa using ha)

example : NttBridge.Bnd 8380417 (List.replicate 256 (5#32)) ∧ (List.replicate 256 (5#32)).length = 256 := by
  refine ⟨?_, List.length_replicate⟩
  intro x hx; rw [List.eq_of_mem_replicate hx]; decide

example : (montgomeryReduce (BitVec.ofInt 64 (2147483648 * 8380417 - 1))).toInt < 8380417 := by decide
example : (decompose 8380416#32) = (0#32, BitVec.ofInt 32 (-1)) := by decide

end Qrl.C12
