import QrlModel.Model.XmssKey
/-! Reference XMSS with no traversal state: all 2^h leaves, the whole Merkle tree level by level,
authentication paths read off the tree. This is the "plain, full-Merkle-tree implementation" C06
compares the library with. -/
namespace Qrl.XmssRef
open Qrl.Xmss

/-- hash adjacent pairs of one level: node i of the next level is `H(height, i, left, right)`. -/
def pairUp (hash : Bytes → Bytes) (pubSeed : Bytes) (height : Nat) : Nat → List Bytes → List Bytes
  | i, l :: r :: rest => nodeH hash pubSeed height i l r :: pairUp hash pubSeed height (i+1) rest
  | _, _ => []

/-- all levels of the tree, leaves first, root level last. -/
def levelsFrom (hash : Bytes → Bytes) (pubSeed : Bytes) : Nat → Nat → List Bytes → List (List Bytes)
  | 0, _, lvl => [lvl]
  | fuel+1, height, lvl => lvl :: levelsFrom hash pubSeed fuel (height+1) (pairUp hash pubSeed height 0 lvl)

structure RefKey where
  h : Nat
  hf : Nat
  desc : Desc
  skSeed : Bytes
  skPRF : Bytes
  pubSeed : Bytes
  levels : List (List Bytes)

def RefKey.root (k : RefKey) : Bytes := (k.levels.getD k.h []).headD (zeros 32)
def RefKey.pk (k : RefKey) : Bytes := k.desc.bytes ++ k.root ++ k.pubSeed

section
variable (hashOf : Nat → Bytes → Bytes) (shake256 : Bytes → Nat → Bytes)

/-- seed → SHAKE256(seed, 96) → SK_SEED ‖ SK_PRF ‖ PUB_SEED; leaves; tree. -/
def refKeyD (seed : Bytes) (d : Desc) : RefKey :=
  let rb := shake256 seed 96
  let skSeed := rb.take 32
  let pubSeed := (rb.drop 64).take 32
  let leaves := (List.range (2 ^ d.height)).map (fun i => genLeafWOTS (hashOf d.hashFn) wp16 skSeed pubSeed i)
  { h := d.height, hf := d.hashFn, desc := d, skSeed := skSeed, skPRF := (rb.drop 32).take 32, pubSeed := pubSeed,
    levels := levelsFrom (hashOf d.hashFn) pubSeed d.height 0 leaves }

def refKey (seed : Bytes) (h hf : Nat) : RefKey := refKeyD hashOf shake256 seed ⟨hf, 0, h, 0⟩

def refKeyOld (seed : Bytes) (h hf : Nat) : RefKey :=
  let rb := shake256 seed 96
  let skSeed := rb.take 32
  let pubSeed := (rb.drop 64).take 32
  let leaves := (List.range (2 ^ h)).map (fun i => genLeafWOTS (hashOf hf) wp16 skSeed pubSeed i)
  { h := h, hf := hf, desc := ⟨hf, 0, h, 0⟩, skSeed := skSeed, skPRF := (rb.drop 32).take 32, pubSeed := pubSeed,
    levels := levelsFrom (hashOf hf) pubSeed h 0 leaves }

/-- signature i = idx ‖ PRF(SK_PRF, idx) ‖ WOTS signature of H_msg ‖ true authentication path -/
def refSign (k : RefKey) (idx : Nat) (msg : Bytes) : Outcome Bytes := do
  let hash := hashOf k.hf
  let r := prf hash (toBytesBE idx 32) k.skPRF
  let msgHash := hMsg hash msg (r ++ k.root ++ toBytesBE idx 32)
  let wsig ← wotsSign hash wp16 msgHash (getSeed hash k.skSeed idx) k.pubSeed idx
  let auth := (List.range k.h).map (fun j => (k.levels.getD j []).getD (Bds.sib (idx >>> j)) (zeros 32))
  pure (toBytesBE idx 4 ++ r ++ wsig.flatten ++ auth.flatten)
end

end Qrl.XmssRef
