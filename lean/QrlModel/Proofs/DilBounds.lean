import QrlModel.Proofs.DilHints
/-! The hint section of `unpackSig` with every index checked the way Go checks it: `sig[OMEGA+i]`, `sig[j]`, `sig[j-1]`
against the 83-byte hint section and `coeffs[sig[j]]` against 256. The checked decoder never faults and is the model's
decoder. Core-only. -/
namespace Qrl.DilBounds
open Qrl Qrl.Dil Gen.Dil

def decodeRowO (hs : Bytes) (k : Nat) : Nat → Nat → Poly → Outcome (Option Poly)
  | 0, _, p => .ok (some p)
  | n+1, j, p =>
    match getO hs j "sig[j]" with
    | .ok b =>
      match (if j > k then getO hs (j-1) "sig[j-1]" else .ok 0) with
      | .ok prev =>
        if j > k ∧ b.toNat ≤ prev.toNat then .ok none
        else if b.toNat < p.length then decodeRowO hs k n (j+1) (p.set b.toNat 1#32) else .fault "coeffs[sig[j]]"
      | .refuse c => .refuse c
      | .fault w => .fault w
    | .refuse c => .refuse c
    | .fault w => .fault w

theorem getO_eq (hs : Bytes) (i : Nat) (w : String) (h : i < hs.length) : getO hs i w = .ok (hs.getD i 0) := by
  unfold getO
  rw [List.getElem?_eq_getElem h, List.getD_eq_getElem?_getD, List.getElem?_eq_getElem h]
  rfl

theorem decodeRowO_ok (hs : Bytes) (k : Nat) : ∀ (n j : Nat) (p : Poly), j + n ≤ hs.length → p.length = 256 →
    decodeRowO hs k n j p = .ok (decodeRow hs k n j p)
  | 0, _, _, _, _ => rfl
  | n+1, j, p, hj, hp => by
    unfold decodeRowO decodeRow
    rw [getO_eq hs j _ (by omega)]
    dsimp only
    by_cases hjk : j > k
    · rw [if_pos hjk, getO_eq hs (j-1) _ (by omega)]
      dsimp only
      by_cases hc : j > k ∧ (hs.getD j 0).toNat ≤ (hs.getD (j-1) 0).toNat
      · rw [if_pos hc, if_pos hc]
      · rw [if_neg hc, if_neg hc, if_pos (by rw [hp]; exact (hs.getD j 0).toNat_lt)]
        exact decodeRowO_ok hs k n (j+1) _ (by omega) (by rw [List.length_set]; exact hp)
    · rw [if_neg hjk]
      dsimp only
      have hc : ¬ (j > k ∧ (hs.getD j 0).toNat ≤ (hs.getD (j-1) 0).toNat) := fun h => hjk h.1
      have hc' : ¬ (j > k ∧ (hs.getD j 0).toNat ≤ (0 : UInt8).toNat) := fun h => hjk h.1
      rw [if_neg hc', if_neg hc, if_pos (by rw [hp]; exact (hs.getD j 0).toNat_lt)]
      exact decodeRowO_ok hs k n (j+1) _ (by omega) (by rw [List.length_set]; exact hp)

def unpackRowsO (hs : Bytes) : Nat → Nat → Nat → Outcome (Option (List Poly × Nat))
  | 0, _, k => .ok (some ([], k))
  | rows+1, i, k =>
    match getO hs (OMEGA + i) "sig[OMEGA+i]" with
    | .ok c =>
      let cnt := c.toNat
      if cnt < k ∨ cnt > OMEGA then .ok none else
      match decodeRowO hs k (cnt - k) k zeroPoly with
      | .ok none => .ok none
      | .ok (some p) =>
        match unpackRowsO hs rows (i+1) cnt with
        | .ok none => .ok none
        | .ok (some (ps, k')) => .ok (some (p :: ps, k'))
        | .refuse c => .refuse c
        | .fault w => .fault w
      | .refuse c => .refuse c
      | .fault w => .fault w
    | .refuse c => .refuse c
    | .fault w => .fault w

theorem unpackRowsO_ok (hs : Bytes) (hl : hs.length = OMEGA + K) : ∀ (rows i k : Nat), i + rows ≤ K →
    unpackRowsO hs rows i k = .ok (unpackRows hs rows i k)
  | 0, _, _, _ => rfl
  | rows+1, i, k, hi => by
    unfold unpackRowsO unpackRows
    rw [getO_eq hs (OMEGA + i) _ (by omega)]
    dsimp only
    by_cases hc : (hs.getD (OMEGA + i) 0).toNat < k ∨ (hs.getD (OMEGA + i) 0).toNat > OMEGA
    · rw [if_pos hc, if_pos hc]
    · rw [if_neg hc, if_neg hc]
      have hcnt : (hs.getD (OMEGA + i) 0).toNat ≤ OMEGA := by omega
      rw [decodeRowO_ok hs k _ k zeroPoly (by omega) DilHints.zeroPoly_length]
      cases decodeRow hs k ((hs.getD (OMEGA + i) 0).toNat - k) k zeroPoly with
      | none => rfl
      | some p =>
        dsimp only
        rw [unpackRowsO_ok hs hl rows (i+1) _ (by omega)]
        cases unpackRows hs rows (i+1) (hs.getD (OMEGA + i) 0).toNat with
        | none => rfl
        | some r => rfl

/-- the checked padding loop: reads `sig[k .. OMEGA)` -/
def paddingO (hs : Bytes) (k : Nat) : Nat → Outcome Bool
  | 0 => .ok false
  | d+1 =>
    match paddingO hs k d with
    | .ok true => .ok true
    | .ok false =>
      match getO hs (k + d) "sig[j]" with
      | .ok b => .ok (b != 0)
      | .refuse c => .refuse c
      | .fault w => .fault w
    | .refuse c => .refuse c
    | .fault w => .fault w

theorem paddingO_ok (hs : Bytes) (k : Nat) : ∀ (n : Nat), (∀ d < n, k + d < hs.length) →
    paddingO hs k n = .ok ((List.range n).any (fun d => hs.getD (k + d) 0 != 0))
  | 0, _ => rfl
  | n+1, h => by
    unfold paddingO
    rw [paddingO_ok hs k n (fun d hd => h d (by omega)), List.range_succ, List.any_append]
    cases (List.range n).any (fun d => hs.getD (k + d) 0 != 0) with
    | true => rfl
    | false =>
      dsimp only
      rw [getO_eq hs (k + n) _ (h n (by omega))]
      simp

def unpackHintsO (hs : Bytes) : Outcome (Option (List Poly)) :=
  match unpackRowsO hs K 0 0 with
  | .ok none => .ok none
  | .ok (some (rows, k)) =>
    match paddingO hs k (OMEGA - k) with
    | .ok true => .ok none
    | .ok false => .ok (some rows)
    | .refuse c => .refuse c
    | .fault w => .fault w
  | .refuse c => .refuse c
  | .fault w => .fault w

/-- **no access of the hint decoder is out of range**, for every 83-byte hint section: the bounds-checked decoder
returns exactly what the model's decoder returns and never faults -/
theorem unpackHintsO_ok (hs : Bytes) (hl : hs.length = OMEGA + K) : unpackHintsO hs = .ok (unpackHints hs) := by
  unfold unpackHintsO unpackHints
  rw [unpackRowsO_ok hs hl K 0 0 (by omega)]
  cases unpackRows hs K 0 0 with
  | none => rfl
  | some r =>
    obtain ⟨rows, k⟩ := r
    dsimp only
    rw [paddingO_ok hs k (OMEGA - k) (fun d hd => by omega)]
    cases (List.range (OMEGA - k)).any (fun d => hs.getD (k + d) 0 != 0) <;> rfl

end Qrl.DilBounds
