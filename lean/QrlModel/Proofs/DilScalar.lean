import QrlModel.Gen.DilScalar
import QrlModel.Gen.DilConst
import QrlModel.Gen.DilLanes
/-! Theorems about the *generated* scalar functions of dilithium/reduce.go and rounding.go (BitVec with Go's
wrap-around semantics), bridged to Int arithmetic. Kernel-only (omega); re-checked against the regenerated
definitions on every run. -/
namespace Qrl.DilProofs
open Gen.Dil

/-- the arithmetic shift by 31 of a 32-bit value is the sign mask -/
theorem sign_mask (x : BitVec 32) : x.sshiftRight 31 = if x.toInt < 0 then BitVec.allOnes 32 else 0#32 := by
  apply BitVec.eq_of_toInt_eq
  rw [BitVec.toInt_sshiftRight]
  have h1 := BitVec.toInt_lt (x := x)
  have h2 := BitVec.le_toInt (x := x)
  simp only [Int.shiftRight_eq_div_pow] at *
  split <;> simp <;> omega

theorem sign_mask_and (x c : BitVec 32) : (x.sshiftRight 31) &&& c = if x.toInt < 0 then c else 0#32 := by
  rw [sign_mask]; split
  · exact BitVec.allOnes_and
  · simp

/-- `reduce32`: for a ≤ 2^31 − 2^22 − 1 the result is a − ⌊(a + 2^22)/2^23⌋·q -/
theorem reduce32_toInt (a : BitVec 32) (h : a.toInt ≤ 2143289343) :
    (reduce32 a).toInt = a.toInt - ((a.toInt + 4194304) / 8388608) * 8380417 := by
  unfold reduce32
  simp only [BitVec.toInt_sub, BitVec.toInt_mul, BitVec.toInt_sshiftRight, BitVec.toInt_add]
  have := BitVec.toInt_lt (x := a)
  have := BitVec.le_toInt (x := a)
  simp [Int.bmod_def, Int.shiftRight_eq_div_pow] at *
  omega

theorem reduce32_spec (a : BitVec 32) (h : a.toInt ≤ 2143289343) :
    (reduce32 a).toInt % 8380417 = a.toInt % 8380417 ∧ -6283009 ≤ (reduce32 a).toInt ∧ (reduce32 a).toInt ≤ 6283008 := by
  rw [reduce32_toInt a h]
  have := BitVec.le_toInt (x := a)
  simp at this
  omega

theorem cAddQ_toInt (a : BitVec 32) (h1 : -8380417 ≤ a.toInt) (h2 : a.toInt < 2139103231) :
    (cAddQ a).toInt = if a.toInt < 0 then a.toInt + 8380417 else a.toInt := by
  unfold cAddQ
  simp only [sign_mask_and]
  split
  · rw [BitVec.toInt_add]; simp [Int.bmod_def]; omega
  · simp

theorem cAddQ_spec (a : BitVec 32) (h1 : -8380417 < a.toInt) (h2 : a.toInt < 8380417) :
    0 ≤ (cAddQ a).toInt ∧ (cAddQ a).toInt < 8380417 ∧ (cAddQ a).toInt % 8380417 = a.toInt % 8380417 := by
  rw [cAddQ_toInt a (by omega) (by omega)]
  split <;> omega

theorem toInt_trunc32 (y : BitVec 64) : (BitVec.setWidth 32 y).toInt = y.toInt.bmod (2^32) := by
  rw [← BitVec.signExtend_eq_setWidth_of_le y (by omega)]
  exact BitVec.toInt_signExtend_eq_toInt_bmod_of_le y (by omega)

theorem toInt_sext64 (y : BitVec 32) : (BitVec.signExtend 64 y).toInt = y.toInt :=
  BitVec.toInt_signExtend_of_le (by omega)

theorem bmod32_bounds (x : Int) : -2147483648 ≤ x.bmod 4294967296 ∧ x.bmod 4294967296 < 2147483648 := by
  simp only [Int.bmod_def]; split <;> omega

theorem bmod64_id (x : Int) (h1 : -9223372036854775808 ≤ x) (h2 : x < 9223372036854775808) :
    x.bmod 18446744073709551616 = x := by
  simp only [Int.bmod_def]; split <;> omega

theorem bmod32_id (x : Int) (h1 : -2147483648 ≤ x) (h2 : x < 2147483648) : x.bmod 4294967296 = x := by
  simp only [Int.bmod_def]; split <;> omega

/-- Montgomery reduction on the Int level: `int32(x)` is `bmod 2^32`, `>> 32` is floor division -/
theorem montgomeryReduce_toInt (a : BitVec 64) (h0 : -(2147483648 * 8380417) ≤ a.toInt) (h1 : a.toInt < 2147483648 * 8380417) :
    (montgomeryReduce a).toInt =
      (a.toInt - (Int.bmod (Int.bmod a.toInt 4294967296 * 58728449) 4294967296) * 8380417) / 4294967296 := by
  unfold montgomeryReduce
  simp only [toInt_trunc32, toInt_sext64, BitVec.toInt_sshiftRight, BitVec.toInt_sub, BitVec.toInt_mul,
    Int.shiftRight_eq_div_pow]
  have hq : (58728449#64).toInt = 58728449 := by rfl
  have hQ : (8380417#64).toInt = 8380417 := by rfl
  have n32 : (2:Nat)^32 = 4294967296 := by rfl
  have n64 : (2:Nat)^64 = 18446744073709551616 := by rfl
  rw [hq, hQ, n32, n64]
  show ((_ : Int) / (4294967296 : Int)).bmod 4294967296 = _
  generalize a.toInt = A at *
  obtain ⟨b1, b2⟩ := bmod32_bounds A
  generalize A.bmod 4294967296 = x1 at *
  rw [bmod64_id (x1 * 58728449) (by omega) (by omega)]
  obtain ⟨c1, c2⟩ := bmod32_bounds (x1 * 58728449)
  generalize (x1 * 58728449).bmod 4294967296 = t at *
  rw [bmod64_id (t * 8380417) (by omega) (by omega)]
  rw [bmod64_id (A - t * 8380417) (by omega) (by omega)]
  exact bmod32_id _ (by omega) (by omega)

theorem montgomeryReduce_spec (a : BitVec 64) (h0 : -(2147483648 * 8380417) ≤ a.toInt) (h1 : a.toInt < 2147483648 * 8380417) :
    (montgomeryReduce a).toInt * 4294967296 % 8380417 = a.toInt % 8380417 ∧
    -8380417 < (montgomeryReduce a).toInt ∧ (montgomeryReduce a).toInt < 8380417 := by
  rw [montgomeryReduce_toInt a h0 h1]
  generalize a.toInt = A at *
  simp only [Int.bmod_def]
  split <;> split <;> omega

/-- the quotient form: `r·2^32 = a − t·q` with `t` an int32, hence `|r·2^32| ≤ |a| + 2^31·q` -/
theorem montgomeryReduce_tight (a : BitVec 64) (h0 : -(2147483648 * 8380417) ≤ a.toInt) (h1 : a.toInt < 2147483648 * 8380417) :
    a.toInt - 2147483648 * 8380417 < (montgomeryReduce a).toInt * 4294967296 ∧
    (montgomeryReduce a).toInt * 4294967296 ≤ a.toInt + 2147483648 * 8380417 := by
  rw [montgomeryReduce_toInt a h0 h1]
  generalize a.toInt = A at *
  simp only [Int.bmod_def]
  split <;> split <;> omega

theorem toInt_nonneg_toNat (x : BitVec 32) (h : 0 ≤ x.toInt) : x.toInt = x.toNat := by
  rw [BitVec.toInt_eq_toNat_cond] at h ⊢
  split at h <;> simp_all
  omega

/-- masking a non-negative value with 15 is reduction mod 16 -/
theorem and15_toInt (x : BitVec 32) (h : 0 ≤ x.toInt) : (x &&& 15#32).toInt = x.toInt % 16 := by
  have hx := toInt_nonneg_toNat x h
  have hlt := x.isLt
  have h15 : (x &&& 15#32).toNat = x.toNat % 16 := by
    rw [BitVec.toNat_and]
    exact Nat.and_two_pow_sub_one_eq_mod x.toNat 4
  have : (x &&& 15#32).toInt = ((x &&& 15#32).toNat : Int) := by
    rw [BitVec.toInt_eq_toNat_cond]; split
    · rfl
    · rename_i hc; rw [h15] at hc; omega
  rw [this, h15, hx]; simp

/-- the Int-level model of `power2Round` and `decompose` -/
def p2rSpec (a : Int) : Int × Int :=
  let r0 := a % 8192
  let r0 := if r0 > 4096 then r0 - 8192 else r0
  ((a - r0) / 8192, r0)

def decompSpec (a : Int) : Int × Int :=
  let r0 := a % 523776
  let r0 := if r0 > 261888 then r0 - 523776 else r0
  if a - r0 = 8380416 then (0, r0 - 1) else ((a - r0) / 523776, r0)

theorem shl_eq_mul (x : BitVec 32) (n : Nat) : x <<< n = x * BitVec.twoPow 32 n := BitVec.shiftLeft_eq_mul_twoPow x n

theorem power2Round_spec (a : BitVec 32) (h0 : 0 ≤ a.toInt) (h1 : a.toInt < 8380417) :
    ((power2Round a).1.toInt, (power2Round a).2.toInt) = p2rSpec a.toInt := by
  unfold power2Round p2rSpec
  simp only [shl_eq_mul, BitVec.toInt_sub, BitVec.toInt_add, BitVec.toInt_mul, BitVec.toInt_sshiftRight, Int.shiftRight_eq_div_pow]
  have c1 : (4096#32).toInt = 4096 := by rfl
  have c2 : (1#32).toInt = 1 := by rfl
  have c3 : (BitVec.twoPow 32 13).toInt = 8192 := by rfl
  have n32 : (2:Nat)^32 = 4294967296 := by rfl
  have p13 : ((2 ^ 13 : Nat) : Int) = 8192 := rfl
  rw [c1, c2, c3, n32]
  generalize a.toInt = A at *
  rw [bmod32_id (A + 4096) (by omega) (by omega)]
  rw [bmod32_id (A + 4096 - 1) (by omega) (by omega)]
  rw [p13]
  rw [bmod32_id ((A + 4096 - 1) / 8192 * 8192) (by omega) (by omega)]
  rw [bmod32_id (A - (A + 4096 - 1) / 8192 * 8192) (by omega) (by omega)]
  split <;> (congr 1 <;> omega)


theorem toInt_lit (n : Nat) (h : n < 2147483648) : (BitVec.ofNat 32 n).toInt = n := by
  rw [BitVec.toInt_eq_toNat_cond]; simp [BitVec.toNat_ofNat]; omega

theorem decompose_toInt (a : BitVec 32) (h0 : 0 ≤ a.toInt) (h1 : a.toInt < 8380417) :
    (decompose a).1.toInt = (((a.toInt + 127) / 128 * 1025 + 2097152) / 4194304) % 16 ∧
    (decompose a).2.toInt =
      (let a0 := a.toInt - ((((a.toInt + 127) / 128 * 1025 + 2097152) / 4194304) % 16) * 2 * 261888
       if 4190208 - a0 < 0 then a0 - 8380417 else a0) := by
  unfold decompose
  dsimp only
  generalize hA : a.toInt = A at *
  have n32 : (2:Nat)^32 = 4294967296 := by rfl
  have p7 : ((2 ^ 7 : Nat) : Int) = 128 := rfl
  have p22 : ((2 ^ 22 : Nat) : Int) = 4194304 := rfl
  -- a1 = (a + 127) >> 7
  have t1 : ((a + 127#32).sshiftRight 7).toInt = (A + 127) / 128 := by
    rw [BitVec.toInt_sshiftRight, BitVec.toInt_add, hA, Int.shiftRight_eq_div_pow, p7, n32]
    have : (127#32).toInt = 127 := rfl
    rw [this, bmod32_id _ (by omega) (by omega)]
  generalize ((a + 127#32).sshiftRight 7) = b1 at *
  -- a1 = (a1*1025 + 2^21) >> 22
  have t2 : ((b1 * 1025#32 + 2097152#32).sshiftRight 22).toInt = ((A + 127) / 128 * 1025 + 2097152) / 4194304 := by
    rw [BitVec.toInt_sshiftRight, BitVec.toInt_add, BitVec.toInt_mul, t1, Int.shiftRight_eq_div_pow, p22, n32]
    have c1 : (1025#32).toInt = 1025 := rfl
    have c2 : (2097152#32).toInt = 2097152 := rfl
    rw [c1, c2, bmod32_id ((A + 127) / 128 * 1025) (by omega) (by omega), bmod32_id _ (by omega) (by omega)]
  generalize ((b1 * 1025#32 + 2097152#32).sshiftRight 22) = b2 at *
  have t3 : (b2 &&& 15#32).toInt = (((A + 127) / 128 * 1025 + 2097152) / 4194304) % 16 := by
    rw [and15_toInt b2 (by rw [t2]; omega), t2]
  generalize hT : (((A + 127) / 128 * 1025 + 2097152) / 4194304) % 16 = T at *
  have hT0 : 0 ≤ T ∧ T < 16 := by omega
  clear hT t2 t1
  generalize (b2 &&& 15#32) = b3 at *
  have t4 : (a - b3 * 2#32 * 261888#32).toInt = A - T * 2 * 261888 := by
    rw [BitVec.toInt_sub, BitVec.toInt_mul, BitVec.toInt_mul, t3, hA, n32]
    have c1 : (2#32).toInt = 2 := rfl
    have c2 : (261888#32).toInt = 261888 := rfl
    rw [c1, c2, bmod32_id (T * 2) (by omega) (by omega), bmod32_id (T * 2 * 261888) (by omega) (by omega),
        bmod32_id _ (by omega) (by omega)]
  generalize (a - b3 * 2#32 * 261888#32) = b4 at *
  have t5 : (4190208#32 - b4).toInt = 4190208 - (A - T * 2 * 261888) := by
    rw [BitVec.toInt_sub, t4, n32]
    have c1 : (4190208#32).toInt = 4190208 := rfl
    rw [c1, bmod32_id _ (by omega) (by omega)]
  refine ⟨t3, ?_⟩
  simp only [sign_mask_and, t5]
  split
  · rw [BitVec.toInt_sub, t4, n32]
    have c1 : (8380417#32).toInt = 8380417 := rfl
    rw [c1, bmod32_id _ (by omega) (by omega)]
  · simp [t4]


theorem high_part (A : Int) (h0 : 0 ≤ A) (h1 : A < 8380417) :
    ((A + 127) / 128 * 1025 + 2097152) / 4194304 = (A + 261887) / 523776 := by
  omega

/-- pure Int fact: the bit-trick formula for the low part equals the centred remainder with the q−1 corner -/
theorem decomp_int (A w : Int) (h0 : 0 ≤ A) (h1 : A < 8380417) (hw1 : 523776 * w ≤ A + 261887) (hw2 : A + 261887 < 523776 * w + 523776) :
    (w % 16, (if 4190208 - (A - w % 16 * 2 * 261888) < 0 then A - w % 16 * 2 * 261888 - 8380417 else A - w % 16 * 2 * 261888)) = decompSpec A := by
  unfold decompSpec
  have hr : ∃ r d, A % 523776 = r ∧ 0 ≤ r ∧ r < 523776 ∧ A = 523776 * d + r := ⟨A % 523776, A / 523776, rfl, by omega, by omega, by omega⟩
  obtain ⟨r, d, hr, hr0, hr1, hd⟩ := hr
  rw [hr]
  have hwr : 0 ≤ w ∧ w ≤ 16 := by omega
  dsimp only
  have : w = 0 ∨ w = 1 ∨ w = 2 ∨ w = 3 ∨ w = 4 ∨ w = 5 ∨ w = 6 ∨ w = 7 ∨ w = 8 ∨ w = 9 ∨ w = 10 ∨ w = 11 ∨ w = 12 ∨
      w = 13 ∨ w = 14 ∨ w = 15 ∨ w = 16 := by omega
  rcases this with h|h|h|h|h|h|h|h|h|h|h|h|h|h|h|h|h <;> subst h <;>
    (split <;> split <;> (try split) <;> first | omega | (congr 1 <;> omega))
/-- **decompose = its mathematical definition** for every residue a ∈ [0, q): high part a1 ∈ [0,15],
low part a0 = a mod± 2γ2, with the q−1 wrap-around corner (a1 = 0, a0 = r0 − 1) -/
theorem decompose_spec (a : BitVec 32) (h0 : 0 ≤ a.toInt) (h1 : a.toInt < 8380417) :
    ((decompose a).1.toInt, (decompose a).2.toInt) = decompSpec a.toInt := by
  obtain ⟨e1, e2⟩ := decompose_toInt a h0 h1
  rw [e1, e2]
  generalize a.toInt = A at *
  rw [high_part A h0 h1]
  exact decomp_int A ((A + 261887) / 523776) h0 h1 (by omega) (by omega)

/-- consequences used by the signature scheme: ranges and the defining equation -/
theorem decompSpec_bounds (a : Int) (h0 : 0 ≤ a) (h1 : a < 8380417) :
    0 ≤ (decompSpec a).1 ∧ (decompSpec a).1 ≤ 15 ∧
    ((-261888 < (decompSpec a).2 ∧ (decompSpec a).2 ≤ 261888 ∧ a = (decompSpec a).1 * 523776 + (decompSpec a).2) ∨
     ((decompSpec a).1 = 0 ∧ -261888 ≤ (decompSpec a).2 ∧ (decompSpec a).2 < 0 ∧ a = (decompSpec a).2 + 8380417)) := by
  unfold decompSpec
  dsimp only
  by_cases c1 : a % 523776 > 261888
  · rw [if_pos c1]
    by_cases c2 : a - (a % 523776 - 523776) = 8380416
    · rw [if_pos c2]; dsimp only; omega
    · rw [if_neg c2]; dsimp only; omega
  · rw [if_neg c1]
    by_cases c2 : a - (a % 523776) = 8380416
    · rw [if_pos c2]; dsimp only; omega
    · rw [if_neg c2]; dsimp only; omega

def makeHintSpec (a0 a1 : Int) : Int := if a0 > 261888 ∨ a0 < -261888 ∨ (a0 = -261888 ∧ a1 ≠ 0) then 1 else 0

def useHintSpec (a : Int) (hint : Int) : Int :=
  let d := decompSpec a
  if hint = 0 then d.1 else if d.2 > 0 then (d.1 + 1) % 16 else (d.1 - 1) % 16

theorem toInt_lit_neg : (BitVec.ofInt 32 (-261888)).toInt = -261888 := by rfl

theorem beq_toInt (x y : BitVec 32) : (x == y) = decide (x.toInt = y.toInt) := by
  by_cases h : x = y
  · subst h; simp
  · have : x.toInt ≠ y.toInt := fun e => h (BitVec.eq_of_toInt_eq e)
    rw [beq_false_of_ne h, decide_eq_false this]

theorem bne_toInt (x y : BitVec 32) : (x != y) = decide (x.toInt ≠ y.toInt) := by
  simp only [bne, beq_toInt]
  by_cases h : x.toInt = y.toInt <;> simp [h]

theorem slt_toInt (x y : BitVec 32) : BitVec.slt x y = decide (x.toInt < y.toInt) := by simp [BitVec.slt]
theorem sle_toInt (x y : BitVec 32) : BitVec.sle x y = decide (x.toInt ≤ y.toInt) := by simp [BitVec.sle]

/-- **makeHint = [a0 ∉ (−γ2, γ2] or (a0 = −γ2 and a1 ≠ 0)]** for all int32 operands -/
theorem makeHint_spec (a0 a1 : BitVec 32) : (makeHint a0 a1).toNat = (makeHintSpec a0.toInt a1.toInt).toNat := by
  unfold makeHint makeHintSpec
  rw [slt_toInt, slt_toInt, beq_toInt, bne_toInt]
  have c1 : (261888#32).toInt = 261888 := by rfl
  have c0 : (0#32).toInt = 0 := by rfl
  rw [c1, toInt_lit_neg, c0]
  by_cases h : a0.toInt > 261888 ∨ a0.toInt < -261888 ∨ (a0.toInt = -261888 ∧ a1.toInt ≠ 0)
  · rw [if_pos h]
    have : (decide (261888 < a0.toInt) || decide (a0.toInt < -261888) || decide (a0.toInt = -261888) && decide (a1.toInt ≠ 0)) = true := by
      rcases h with h | h | ⟨h, h'⟩
      · simp [h]
      · simp [h]
      · simp [h, h']
    rw [if_pos this]; rfl
  · rw [if_neg h]
    have : ¬ ((decide (261888 < a0.toInt) || decide (a0.toInt < -261888) || decide (a0.toInt = -261888) && decide (a1.toInt ≠ 0)) = true) := by
      intro hc
      apply h
      simp only [Bool.or_eq_true, Bool.and_eq_true, decide_eq_true_eq] at hc
      rcases hc with (hc | hc) | hc
      · exact Or.inl hc
      · exact Or.inr (Or.inl hc)
      · exact Or.inr (Or.inr hc)
    rw [if_neg this]; rfl

/-- **useHint = its mathematical definition** for every residue a ∈ [0, q) and hint ∈ {0, 1, …} -/
theorem useHint_spec (a : BitVec 32) (hint : BitVec 64) (h0 : 0 ≤ a.toInt) (h1 : a.toInt < 8380417) :
    (useHint a hint).toInt = useHintSpec a.toInt (if hint = 0#64 then 0 else 1) := by
  have hd := decompose_spec a h0 h1
  have e1 : (decompose a).1.toInt = (decompSpec a.toInt).1 := congrArg Prod.fst hd
  have e2 : (decompose a).2.toInt = (decompSpec a.toInt).2 := congrArg Prod.snd hd
  have hb := decompSpec_bounds a.toInt h0 h1
  unfold useHint useHintSpec
  dsimp only
  generalize (decompSpec a.toInt).1 = s1 at *
  generalize (decompSpec a.toInt).2 = s2 at *
  generalize (decompose a).1 = d1 at *
  generalize (decompose a).2 = d2 at *
  clear hd
  have c0 : (0#32).toInt = 0 := by rfl
  have one : (1#32).toInt = 1 := by rfl
  have n32 : (2:Nat)^32 = 4294967296 := by rfl
  by_cases hh : hint = 0#64
  · simp [hh, e1]
  · have : (hint == 0#64) = false := beq_false_of_ne hh
    rw [this]
    simp only [hh, if_false, Bool.false_eq_true, show (1:Int) ≠ 0 by decide]
    rw [slt_toInt, c0, e2]
    by_cases hp : 0 < s2
    · have hp' : s2 > 0 := hp
      simp only [hp, hp', decide_true, if_true]
      rw [and15_toInt _ (by rw [BitVec.toInt_add, one, n32, e1, bmod32_id _ (by omega) (by omega)]; omega),
          BitVec.toInt_add, one, n32, e1, bmod32_id _ (by omega) (by omega)]
    · have hp' : ¬ (s2 > 0) := hp
      simp only [hp, hp', decide_false, if_false, Bool.false_eq_true]
      -- (a1 - 1) & 15: a1 - 1 may be -1, whose low four bits are 15 = (-1) mod 16
      have hsub : (d1 - 1#32).toInt = s1 - 1 := by
        rw [BitVec.toInt_sub, one, n32, e1, bmod32_id _ (by omega) (by omega)]
      by_cases hz : s1 = 0
      · have : d1 = 0#32 := BitVec.eq_of_toInt_eq (by rw [e1, hz]; rfl)
        subst this
        rw [hz]; rfl
      · rw [and15_toInt _ (by rw [hsub]; omega), hsub]

/-- the correctness of hints, on the whole domain: for w ∈ [0,q) with (w1, w0) = Decompose(w), and any
perturbations e, f with |w0 + e| < γ2 − β (second rejection test) and |f| < γ2 (third rejection test),
UseHint((w + e + f) mod q, MakeHint(w0 + e + f, w1)) = w1 — what the verifier needs to recompute w1 -/
theorem hint_correct (w e f : Int) (h0 : 0 ≤ w) (h1 : w < 8380417)
    (he : -(261888 - 120) < (decompSpec w).2 + e ∧ (decompSpec w).2 + e < 261888 - 120)
    (hf : -261888 < f ∧ f < 261888) :
    useHintSpec ((w + e + f) % 8380417) (makeHintSpec ((decompSpec w).2 + e + f) (decompSpec w).1) = (decompSpec w).1 := by
  have hb := decompSpec_bounds w h0 h1
  generalize hw1 : (decompSpec w).1 = w1 at *
  generalize hw0 : (decompSpec w).2 = w0 at *
  have hr0 : 0 ≤ (w + e + f) % 8380417 := Int.emod_nonneg _ (by decide)
  have hr1 : (w + e + f) % 8380417 < 8380417 := Int.emod_lt_of_pos _ (by decide)
  have hrm : (w + e + f) % 8380417 = (w + e + f) - 8380417 * ((w + e + f) / 8380417) := by omega
  generalize hq : (w + e + f) / 8380417 = c at *
  generalize hr : (w + e + f) % 8380417 = r at *
  have hbr := decompSpec_bounds r hr0 hr1
  unfold useHintSpec makeHintSpec
  simp only []
  generalize hd1 : (decompSpec r).1 = r1 at *
  generalize hd0 : (decompSpec r).2 = r0 at *
  clear hw1 hw0 hd1 hd0
  have hcc : c = -1 ∨ c = 0 ∨ c = 1 := by omega
  have hc : w1 = 0 ∨ w1 = 1 ∨ w1 = 2 ∨ w1 = 3 ∨ w1 = 4 ∨ w1 = 5 ∨ w1 = 6 ∨ w1 = 7 ∨ w1 = 8 ∨ w1 = 9 ∨ w1 = 10
      ∨ w1 = 11 ∨ w1 = 12 ∨ w1 = 13 ∨ w1 = 14 ∨ w1 = 15 := by omega
  rcases hcc with h|h|h <;> subst h <;>
  rcases hc with h|h|h|h|h|h|h|h|h|h|h|h|h|h|h|h <;> subst h <;>
    (split <;> split <;> (try split) <;> omega)

/-- Go parses `t & 2 * a` as `(t & 2) * a`; the C reference means `t & (2*a)`. They agree because t is the sign mask. -/
theorem chknorm_precedence (a : BitVec 32) : ((a.sshiftRight 31) &&& 2#32) * a = (a.sshiftRight 31) &&& (2#32 * a) := by
  rw [sign_mask_and, sign_mask_and]; split <;> simp

/-- **norm test lane**: for |a| < 2^30 the lane computes |a| and exits exactly when |a| ≥ B -/
theorem chknorm_lane_spec (B a : BitVec 32) (h1 : -1073741824 < a.toInt) (h2 : a.toInt < 1073741824) :
    (polyChkNorm_exit B a).isSome = decide (B.toInt ≤ (if a.toInt < 0 then -a.toInt else a.toInt)) := by
  unfold polyChkNorm_exit
  dsimp only
  rw [sign_mask_and, sle_toInt]
  have two : (2#32).toInt = 2 := by rfl
  have n32 : (2:Nat)^32 = 4294967296 := by rfl
  by_cases hn : a.toInt < 0
  · simp only [hn, if_true]
    have : (a - 2#32 * a).toInt = -a.toInt := by
      rw [BitVec.toInt_sub, BitVec.toInt_mul, two, n32, bmod32_id (2 * a.toInt) (by omega) (by omega), bmod32_id _ (by omega) (by omega)]
      omega
    rw [this]
    by_cases hB : B.toInt ≤ -a.toInt <;> simp [hB]
  · simp only [hn, if_false]
    have : (a - 0#32 * a).toInt = a.toInt := by simp
    rw [this]
    by_cases hB : B.toInt ≤ a.toInt <;> simp [hB]

/-- the bound guard: the function reports a violation outright for B > (q−1)/8 -/
theorem chknorm_guard_spec (B : BitVec 32) : polyChkNorm_guard0 B = decide (1047552 < B.toInt) := by
  unfold polyChkNorm_guard0
  rw [slt_toInt]
  have : (1047552#32).toInt = 1047552 := by rfl
  rw [this]

/-- for coefficients in `reduce32`'s output range and B ≤ (q−1)/8 the test |a| ≥ B is the test on the
centred representative of a mod q -/
theorem chknorm_centred (a B : Int) (hB0 : 0 ≤ B) (hB : B ≤ 1047552) (h1 : -6283009 ≤ a) (h2 : a ≤ 6283008) :
    (B ≤ (if a < 0 then -a else a)) ↔
      (B ≤ (let c := Int.bmod a 8380417; if c < 0 then -c else c)) := by
  simp only [Int.bmod_def]
  split <;> split <;> (try split) <;> omega


end Qrl.DilProofs
