import QrlModel.Proofs.BdsLabel
namespace Qrl.BdsLabel
open Qrl.Bds

/-- the starting point of `treeHashSetup`'s leaf loop -/
def setupInit (h : Nat) : List Lbl × List Nat × Nat × St Lbl :=
  let s0 := newState ops h
  let s0 := (List.range (h - K)).foldl (fun s i =>
    { s with treeHash := modTH ops s.treeHash i (fun t => { t with h := i, completed := 1, stackUsage := 0 }) }) s0
  (List.replicate (h+1) Lbl.zero, List.replicate (h+1) 0, 0, s0)

theorem treeHashSetup_eq (h : Nat) :
    treeHashSetup ops h = ((setupLoop ops h (2^h) 0 (setupInit h)).2.2.2, (setupLoop ops h (2^h) 0 (setupInit h)).1.getD 0 Lbl.zero) := by
  unfold treeHashSetup setupInit
  rfl

theorem setupLoop_add (h : Nat) : ∀ (a b idx : Nat) (x : List Lbl × List Nat × Nat × St Lbl),
    setupLoop ops h (a + b) idx x = setupLoop ops h b (idx + a) (setupLoop ops h a idx x)
  | 0, b, idx, x => by simp [setupLoop]
  | a+1, b, idx, (stack, lv, off, s) => by
    have e : a + 1 + b = (a + b) + 1 := by omega
    rw [e]
    simp only [setupLoop]
    rw [setupLoop_add h a b (idx+1)]
    congr 1; omega

/-- key generation checked in pieces: tuples `T 0 … T m` of the leaf loop after every `len` leaves -/
theorem setup_of_segments (h len m : Nat) (T : Nat → List Lbl × List Nat × Nat × St Lbl) (hlen : len * m = 2 ^ h)
    (h0 : T 0 = setupInit h)
    (hseg : ∀ c, c < m → setupLoop ops h len (len * c) (T c) = T (c+1))
    (S0 : St Lbl) (root : Lbl) (hfin : ((T m).2.2.2, (T m).1.getD 0 Lbl.zero) = (S0, root)) :
    treeHashSetup ops h = (S0, root) := by
  have hT : ∀ c, c ≤ m → setupLoop ops h (len * c) 0 (setupInit h) = T c := by
    intro c
    induction c with
    | zero => intro _; simp [setupLoop, h0]
    | succ c ih =>
      intro hc
      have e : len * (c+1) = len * c + len := Nat.mul_succ len c
      rw [e, setupLoop_add, ih (by omega), Nat.zero_add]
      exact hseg c (by omega)
  rw [treeHashSetup_eq, ← hlen, hT m (Nat.le_refl _)]
  exact hfin

end Qrl.BdsLabel
