import QrlModel.Proofs.BdsLabel
namespace Qrl.BdsLabel
open Qrl.Bds

/-- the starting point of `treeHashSetup`'s leaf loop -/
def setupInit (h : Nat) : List Lbl × List Nat × Nat × St Lbl :=
  let s0 := newState ops h
  let s0 := (List.range (h - K)).foldl (fun s i =>
    { s with treeHash := modTH ops s.treeHash i (fun t => { t with h := i, completed := 1, stackUsage := 0 }) }) s0
  (List.replicate (h+1) Lbl.zero, List.replicate (h+1) 0, 0, s0)

theorem treeHashSetup_eq (h : Nat) :
    treeHashSetup ops h = ((setupLoop ops h (2^h) 0 (setupInit h)).2.2.2, (setupLoop ops h (2^h) 0 (setupInit h)).1.getD 0 Lbl.zero) := by
  unfold treeHashSetup setupInit
  rfl

theorem setupLoop_add (h : Nat) : ∀ (a b idx : Nat) (x : List Lbl × List Nat × Nat × St Lbl),
    setupLoop ops h (a + b) idx x = setupLoop ops h b (idx + a) (setupLoop ops h a idx x)
  | 0, b, idx, x => by simp [setupLoop]
  | a+1, b, idx, (stack, lv, off, s) => by
    have e : a + 1 + b = (a + b) + 1 := by omega
    rw [e]
    simp only [setupLoop]
    rw [setupLoop_add h a b (idx+1)]
    congr 1; omega

/-- key generation checked in pieces: tuples `T 0 … T m` of the leaf loop after every `len` leaves -/
theorem setup_of_segments (h len m : Nat) (T : Nat → List Lbl × List Nat × Nat × St Lbl) (hlen : len * m = 2 ^ h)
    (h0 : T 0 = setupInit h)
    (hseg : ∀ c, c < m → setupLoop ops h len (len * c) (T c) = T (c+1))
    (S0 : St Lbl) (root : Lbl) (hfin : ((T m).2.2.2, (T m).1.getD 0 Lbl.zero) = (S0, root)) :
    treeHashSetup ops h = (S0, root) := by
  have hT : ∀ c, c ≤ m → setupLoop ops h (len * c) 0 (setupInit h) = T c := by
    intro c
    induction c with
    | zero => intro _; simp [setupLoop, h0]
    | succ c ih =>
      intro hc
      have e : len * (c+1) = len * c + len := Nat.mul_succ len c
      rw [e, setupLoop_add, ih (by omega), Nat.zero_add]
      exact hseg c (by omega)
  rw [treeHashSetup_eq, ← hlen, hT m (Nat.le_refl _)]
  exact hfin

end Qrl.BdsLabel

namespace Qrl.BdsLabel
open Qrl.Bds

/-- two consecutive checked runs make one -/
theorem runSeg_comp (h : Nat) : ∀ (a b i : Nat) (s s' s'' : St Lbl), runSeg h a i s = (s', true) → runSeg h b (i + a) s' = (s'', true) →
    runSeg h (a + b) i s = (s'', true)
  | 0, b, i, s, s', s'', h1, h2 => by
    simp only [runSeg, Prod.mk.injEq, and_true] at h1
    subst h1
    simpa using h2
  | a+1, b, i, s, s', s'', h1, h2 => by
    have e : a + 1 + b = (a + b) + 1 := by omega
    rw [e]
    simp only [runSeg, Prod.mk.injEq, Bool.and_eq_true, beq_iff_eq] at h1 ⊢
    obtain ⟨h11, h12, h13⟩ := h1
    have e2 : i + (a + 1) = (i + 1) + a := by omega
    rw [e2] at h2
    have ih := runSeg_comp h a b (i+1) (step ops h s i) s' s'' (Prod.ext h11 h13) h2
    rw [ih]
    exact ⟨rfl, h12, rfl⟩

/-- the whole life in one checked run -/
theorem traversal_of_run (h n : Nat) (S0 Sn : St Lbl) (hn : n + 1 = 2 ^ h) (hsetup : treeHashSetup ops h = (S0, .nd h 0))
    (hrun : runSeg h n 0 S0 = (Sn, true)) (hlast : Sn.auth = trueAuth h n) : TraversalCorrect h := by
  obtain ⟨e, hall⟩ := runSeg_sound h n 0 S0 Sn hrun
  refine ⟨by rw [hsetup], fun i hi => ?_⟩
  rw [hsetup]
  simp only
  by_cases hin : i = n
  · rw [hin, e]; exact hlast
  · have := hall i (by omega)
    simpa using this

/-- key generation from a chain of leaf-loop pieces -/
theorem setup_of_run (h : Nat) (T0 Tm : List Lbl × List Nat × Nat × St Lbl) (h0 : T0 = setupInit h)
    (hrun : setupLoop ops h (2 ^ h) 0 T0 = Tm) (S0 : St Lbl) (root : Lbl) (hfin : (Tm.2.2.2, Tm.1.getD 0 Lbl.zero) = (S0, root)) :
    treeHashSetup ops h = (S0, root) := by
  rw [treeHashSetup_eq, ← h0, hrun]; exact hfin

theorem setupLoop_comp (h : Nat) (a b idx : Nat) (x y w : List Lbl × List Nat × Nat × St Lbl)
    (h1 : setupLoop ops h a idx x = y) (h2 : setupLoop ops h b (idx + a) y = w) : setupLoop ops h (a + b) idx x = w := by
  rw [setupLoop_add, h1, h2]

end Qrl.BdsLabel
