import QrlModel.Proofs.DilRanges
import QrlModel.Proofs.DilPack
import QrlModel.Proofs.DilSigCanon
/-! Byte layout of keys and signatures: what the unpackers recover from what the packers wrote. -/
namespace Qrl.NttBridge
open Gen.Dil Qrl.Dil Qrl.NttTable Qrl.DilProofs Qrl.DilPack

theorem take_append_len {α} (a b : List α) (n : Nat) (h : a.length = n) : (a ++ b).take n = a := by
  rw [← h]; simp
theorem drop_append_len {α} (a b : List α) (n : Nat) (h : a.length = n) : (a ++ b).drop n = b := by
  rw [← h]; simp

theorem polyT1Pack_length (a : Poly) (hl : a.length = 256) : (polyT1Pack a).length = 320 := by
  rw [polyT1Pack_eq]
  exact (flatMap_chunks_length 4 5 (by decide) t1P (by
    intro c hc
    match c, hc with
    | [c0,c1,c2,c3], _ => rfl) 64 a (by rw [hl])).1

theorem polyEtaPack_length (a : Poly) (hl : a.length = 256) : (polyEtaPack a).length = 96 := by
  rw [polyEtaPack_eq]
  exact (flatMap_chunks_length 8 3 (by decide) etaP (by
    intro c hc
    match c, hc with
    | [c0,c1,c2,c3,c4,c5,c6,c7], _ => rfl) 32 a (by rw [hl])).1

theorem polyT0Pack_length (a : Poly) (hl : a.length = 256) : (polyT0Pack a).length = 416 := by
  rw [polyT0Pack_eq]
  exact (flatMap_chunks_length 8 13 (by decide) t0P (by
    intro c hc
    match c, hc with
    | [c0,c1,c2,c3,c4,c5,c6,c7], _ => rfl) 32 a (by rw [hl])).1

theorem polyZPack_length (a : Poly) (hl : a.length = 256) : (polyZPack a).length = 640 := by
  rw [polyZPack_eq]
  exact (flatMap_chunks_length 2 5 (by decide) zP (by
    intro c hc
    match c, hc with
    | [c0,c1], _ => rfl) 128 a (by rw [hl])).1

/-- a vector of polynomials written block by block is read back block by block -/
theorem vec_roundtrip (m : Nat) (hm : 0 < m) (pack : Poly → Bytes) (unpack : Bytes → Poly) (v : List Poly) (rest : Bytes)
    (hlen : ∀ p ∈ v, (pack p).length = m) (hrt : ∀ p ∈ v, unpack (pack p) = p) :
    (chunks m ((v.flatMap pack ++ rest).take (v.length * m))).map unpack = v ∧ (v.flatMap pack ++ rest).drop (v.length * m) = rest := by
  have hl : (v.flatMap pack).length = v.length * m := by rw [flatMap_length_const m pack v hlen, Nat.mul_comm]
  rw [take_append_len _ _ _ hl, drop_append_len _ _ _ hl, chunks_flatMap_map m hm pack v hlen, List.map_map]
  refine ⟨?_, rfl⟩
  conv => rhs; rw [← List.map_id v]
  apply List.map_congr_left
  intro p hp; exact hrt p hp

theorem sle_slt_of_toInt (x : Coeff) (lo hi : Int) (hlo : -2147483648 ≤ lo ∧ lo < 2147483648) (hhi : -2147483648 ≤ hi ∧ hi < 2147483648)
    (h : lo < x.toInt ∧ x.toInt ≤ hi) : BitVec.slt (BitVec.ofInt 32 lo) x = true ∧ BitVec.sle x (BitVec.ofInt 32 hi) = true := by
  have n32 : (2:Nat)^32 = 4294967296 := by rfl
  constructor
  · rw [BitVec.slt_iff_toInt_lt, BitVec.toInt_ofInt, n32, bmod32_id lo hlo.1 hlo.2]; exact h.1
  · rw [BitVec.sle_iff_toInt_le, BitVec.toInt_ofInt, n32, bmod32_id hi hhi.1 hhi.2]; exact h.2

theorem sle_sle_of_toInt (x : Coeff) (lo hi : Int) (hlo : -2147483648 ≤ lo ∧ lo < 2147483648) (hhi : -2147483648 ≤ hi ∧ hi < 2147483648)
    (h : lo ≤ x.toInt ∧ x.toInt ≤ hi) : BitVec.sle (BitVec.ofInt 32 lo) x = true ∧ BitVec.sle x (BitVec.ofInt 32 hi) = true := by
  have n32 : (2:Nat)^32 = 4294967296 := by rfl
  constructor
  · rw [BitVec.sle_iff_toInt_le, BitVec.toInt_ofInt, n32, bmod32_id lo hlo.1 hlo.2]; exact h.1
  · rw [BitVec.sle_iff_toInt_le, BitVec.toInt_ofInt, n32, bmod32_id hi hhi.1 hhi.2]; exact h.2

theorem eta_rt (a : Poly) (hl : a.length = 256) (hr : Rng (-2) 2 a) : polyEtaUnpack (polyEtaPack a) = a :=
  DilPack.eta_roundtrip a hl (fun x hx => by
    have := sle_sle_of_toInt x (-2) 2 (by omega) (by omega) (hr x hx)
    simpa using this)

theorem t0_rt (a : Poly) (hl : a.length = 256) (hr : Rng (-4095) 4096 a) : polyT0Unpack (polyT0Pack a) = a :=
  DilPack.t0_roundtrip a hl (fun x hx => by
    have := sle_slt_of_toInt x (-4096) 4096 (by omega) (by omega) (by have := hr x hx; omega)
    simpa using this)

theorem z_rt (a : Poly) (hl : a.length = 256) (hr : Rng (-524287) 524288 a) : polyZUnpack (polyZPack a) = a :=
  DilPack.z_roundtrip a hl (fun x hx => by
    have := sle_slt_of_toInt x (-524288) 524288 (by omega) (by omega) (by have := hr x hx; omega)
    simpa using this)

theorem ult_of_toInt (x : Coeff) (n : Nat) (hn : n < 2147483648) (h : 0 ≤ x.toInt ∧ x.toInt < n) : x < BitVec.ofNat 32 n := by
  rw [BitVec.lt_def, BitVec.toNat_ofNat, Nat.mod_eq_of_lt (by omega)]
  have := toInt_nonneg_toNat x h.1
  omega

theorem t1_rt (a : Poly) (hl : a.length = 256) (hr : Rng 0 1023 a) : polyT1Unpack (polyT1Pack a) = a :=
  DilPack.t1_roundtrip a hl (fun x hx => by
    have := ult_of_toInt x 1024 (by omega) (by have := hr x hx; omega)
    simpa using this)

/-- **signature layout**: the decoder recovers exactly (c̃, z, h) from `packSig` -/
theorem unpackSig_packSig (c : Bytes) (z h : List Poly) (hc : c.length = 32) (hz : z.length = L)
    (hzl : ∀ p ∈ z, p.length = 256 ∧ Rng (-524287) 524288 p)
    (hK : h.length = K) (hv : ∀ r ∈ h, DilHints.ValidRow r) (hw : ((h.map rowPositions).flatten).length ≤ OMEGA) :
    unpackSig (packSig c z h) = some ⟨c, z, h⟩ := by
  unfold unpackSig packSig
  have hzp : ∀ p ∈ z, (polyZPack p).length = 640 := fun p hp => polyZPack_length p (hzl p hp).1
  have hzr : ∀ p ∈ z, polyZUnpack (polyZPack p) = p := fun p hp => z_rt p (hzl p hp).1 (hzl p hp).2
  have e1 : (c ++ z.flatMap polyZPack ++ packHints h).take 32 = c := by
    rw [List.append_assoc]; exact take_append_len _ _ _ hc
  have e2 : (c ++ z.flatMap polyZPack ++ packHints h).drop 32 = z.flatMap polyZPack ++ packHints h := by
    rw [List.append_assoc]; exact drop_append_len _ _ _ hc
  obtain ⟨r1, r2⟩ := vec_roundtrip 640 (by decide) polyZPack polyZUnpack z (packHints h) hzp hzr
  have hL : L * 640 = z.length * 640 := by rw [hz]
  have e3 : (c ++ z.flatMap polyZPack ++ packHints h).drop (32 + L * 640) = packHints h := by
    rw [← List.drop_drop, e2, hL]; exact r2
  dsimp only
  rw [e3, DilHints.hints_roundtrip h hK hv hw, e1, e2, hL, r1]

end Qrl.NttBridge
