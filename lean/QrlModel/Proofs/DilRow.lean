import QrlModel.Proofs.DilField
import QrlModel.Proofs.DilCoeff
/-! One row of `Verify(Sign(m))` on the model: the verifier's reconstructed high bits equal the signer's. -/
namespace Qrl.NttBridge
open Gen.Dil Qrl.Dil Qrl.NttTable Qrl.DilProofs Qrl.VecF

def Good (lo hi : Int) (p : Poly) : Prop := p.length = 256 ∧ Rng lo hi p

theorem Good.mono {lo hi lo' hi' : Int} {p : Poly} (h : Good lo hi p) (h1 : lo' ≤ lo) (h2 : hi ≤ hi') : Good lo' hi' p :=
  ⟨h.1, Rng_mono h.2 h1 h2⟩

theorem V_length (p : Poly) : (V p).length = p.length := List.length_map _

theorem G_ntt (p : Poly) (B : Int) (hp : Good (-B) B p) (h0 : 0 ≤ B) (hfit : B + 8 * 8380417 ≤ 2147483647) :
    V (ntt p) = NTT (V p) ∧ Good (-(B + 8 * 8380417)) (B + 8 * 8380417) (ntt p) := by
  obtain ⟨e, b⟩ := ntt_V p B hp.2 h0 hfit
  exact ⟨e, ntt_length p hp.1 B hp.2 h0 hfit, b⟩

theorem G_invRed (p : Poly) (hl : p.length = 256) (h : ∀ x ∈ p, x.toInt ≤ 2143289343) :
    V (invNTTToMont (polyReduce p)) = (INV (V p)).map (· * κ) ∧ Good (-4211198) 4211198 (invNTTToMont (polyReduce p)) := by
  obtain ⟨e1, r1⟩ := polyReduce_bridge p h
  obtain ⟨e2, r2⟩ := invNTT_V (polyReduce p) (Rng_mono r1 (by norm_num) (by norm_num))
  refine ⟨by rw [e2, e1], ?_, r2⟩
  exact invNTT_length _ (by simp [polyReduce, hl])

theorem G_cmul (cp sh : Poly) (Bc Bs : Int) (hc : Good (-Bc) Bc cp) (hs : Good (-Bs) Bs sh) (hprod : Bc * Bs < 2147483648 * 8380417) :
    V (invNTTToMont (polyPointwise cp sh)) = (INV ((List.zipWith (· * ·) (V cp) (V sh)).map (· * ρ))).map (· * κ) ∧
    Good (-4211198) 4211198 (invNTTToMont (polyPointwise cp sh)) := by
  obtain ⟨e1, r1⟩ := pointwise_bridge' cp sh Bc Bs hc.2 hs.2 hprod
  obtain ⟨e2, r2⟩ := invNTT_V (polyPointwise cp sh) (Rng_mono r1 (by norm_num) (by norm_num))
  refine ⟨by rw [e2, e1], ?_, r2⟩
  exact invNTT_length _ (by simp [polyPointwise, hc.1, hs.1])

theorem G_acc (row v : List Poly) (hrow : ∀ p ∈ row, Good 0 8380416 p) (hv : ∀ p ∈ v, p.length = 256) (hlen : row.length ≤ 8) :
    V (pointwiseAcc row v) = accF ρ (row.map V) (v.map V) ∧ Good (-(8 * 8380416)) (8 * 8380416) (pointwiseAcc row v) := by
  obtain ⟨e, r⟩ := pointwiseAcc_bridge row v 8380416 2147483648
    (fun p hp => Rng_mono (hrow p hp).2 (by norm_num) (le_refl _)) (fun p _ => Bnd_top p) (by norm_num) hlen
  refine ⟨e, ?_, r⟩
  have hl := (accF_toFun ρ (row.map V) (v.map V)
    (by intro x hx; obtain ⟨p, hp, rfl⟩ := List.mem_map.mp hx; rw [V_length]; exact (hrow p hp).1)
    (by intro x hx; obtain ⟨p, hp, rfl⟩ := List.mem_map.mp hx; rw [V_length]; exact hv p hp)).1
  rw [← e, V_length] at hl
  exact hl

/-- `polyChkNorm p B = false` gives the per-coefficient exit test -/
theorem chk_false {p : Poly} {B : Coeff} (h : polyChkNorm p B = false) : ∀ x ∈ p, (polyChkNorm_exit B x).isSome = false := by
  unfold polyChkNorm at h
  rw [Bool.or_eq_false_iff] at h
  intro x hx
  have := h.2
  rw [List.any_eq_false] at this
  simpa using this x hx

theorem map_smul_smul (a : List Fq) (s t : Fq) : (a.map (· * s)).map (· * t) = a.map (· * (s * t)) := by
  rw [List.map_map]; apply List.map_congr_left; intro x _; simp only [Function.comp]; ring

theorem map_mul_one (a : List Fq) : a.map (· * (1 : Fq)) = a := by
  conv => rhs; rw [← List.map_id a]
  apply List.map_congr_left; intro x _; simp

/-- NTT of a scaled inverse transform: `NTT ((INV X)·κ) = X·(256κ)` -/
theorem NTT_INV_κ (X : List Fq) (hl : X.length = 256) : NTT ((INV X).map (· * κ)) = X.map (· * (256 * κ)) := by
  rw [NTT_smul, NTT_INV X hl, map_smul_smul]

theorem hκ' : ρ * (256 * κ) = 1 := by linear_combination hκ

-- ---------------------------------------------------------------- key generation: one row of t
def keyT (row s1 : List Poly) (s2i : Poly) : Poly :=
  polyCAddQ (polyAdd (invNTTToMont (polyReduce (pointwiseAcc row (s1.map ntt)))) s2i)

theorem ntt_all (l : List Poly) (B : Int) (h : ∀ p ∈ l, Good (-B) B p) (h0 : 0 ≤ B) (hfit : B + 8 * 8380417 ≤ 2147483647) :
    (l.map ntt).map V = (l.map V).map NTT ∧ ∀ p ∈ l.map ntt, Good (-(B + 8 * 8380417)) (B + 8 * 8380417) p := by
  constructor
  · rw [List.map_map, List.map_map]
    apply List.map_congr_left
    intro p hp
    exact (G_ntt p B (h p hp) h0 hfit).1
  · intro p hp
    obtain ⟨x, hx, rfl⟩ := List.mem_map.mp hp
    exact (G_ntt x B (h x hx) h0 hfit).2

theorem keyT_facts (row s1 : List Poly) (s2i : Poly) (hrow : ∀ p ∈ row, Good 0 8380416 p) (hrl : row.length ≤ 8)
    (hs1 : ∀ p ∈ s1, Good (-2) 2 p) (hs2 : Good (-2) 2 s2i) :
    V (keyT row s1 s2i) = List.zipWith (· + ·) ((INV (accF ρ (row.map V) ((s1.map ntt).map V))).map (· * κ)) (V s2i) ∧
    Good 0 8380416 (keyT row s1 s2i) := by
  obtain ⟨_, gs⟩ := ntt_all s1 2 hs1 (by norm_num) (by norm_num)
  obtain ⟨ea, ga⟩ := G_acc row (s1.map ntt) hrow (fun p hp => (gs p hp).1) hrl
  obtain ⟨ei, gi⟩ := G_invRed _ ga.1 (fun x hx => by have := ga.2 x hx; omega)
  obtain ⟨eadd, radd⟩ := polyAdd_bridge _ s2i (-4211198) 4211198 (-2) 2 gi.2 hs2.2 (by norm_num) (by norm_num)
  have ladd : (polyAdd (invNTTToMont (polyReduce (pointwiseAcc row (s1.map ntt)))) s2i).length = 256 := by
    simp [polyAdd, gi.1, hs2.1]
  obtain ⟨ec, rc⟩ := polyCAddQ_bridge _ (Rng_mono radd (by norm_num) (by norm_num))
  unfold keyT
  refine ⟨by rw [ec, eadd, ei, ea], ?_, rc⟩
  simp [polyCAddQ, ladd]

/-- t = 2^13·t1 + t0 on a polynomial with coefficients in [0, q) -/
theorem p2r_facts (t : Poly) (ht : Good 0 8380416 t) :
    (V (polyPower2Round t).1).map (· * (8192 : Fq)) = List.zipWith (· - ·) (V t) (V (polyPower2Round t).2) ∧
    Good 0 1023 (polyPower2Round t).1 ∧ Good (-4095) 4096 (polyPower2Round t).2 := by
  unfold polyPower2Round
  dsimp only
  refine ⟨?_, ⟨by simp [ht.1], ?_⟩, ⟨by simp [ht.1], ?_⟩⟩
  · show ((t.map _).map phi).map _ = List.zipWith _ (t.map phi) ((t.map _).map phi)
    rw [List.map_map, List.map_map, List.map_map, List.zipWith_map, List.zipWith_self]
    apply List.map_congr_left
    intro x hx
    obtain ⟨e, _⟩ := power2Round_coeff x (ht.2 x hx).1 (ht.2 x hx).2
    simp only [Function.comp, phi]
    rw [e]; push_cast; ring
  · intro y hy
    obtain ⟨x, hx, rfl⟩ := List.mem_map.mp hy
    have := power2Round_coeff x (ht.2 x hx).1 (ht.2 x hx).2
    omega
  · intro y hy
    obtain ⟨x, hx, rfl⟩ := List.mem_map.mp hy
    have := power2Round_coeff x (ht.2 x hx).1 (ht.2 x hx).2
    omega

-- ---------------------------------------------------------------- signing: the response z
def sigZ (cp : Poly) (s1 y : List Poly) : List Poly :=
  (List.zipWith polyAdd ((s1.map ntt).map fun p => invNTTToMont (polyPointwise cp p)) y).map polyReduce

theorem sigZ_facts (cp : Poly) (hcp : Good (-(1 + 8 * 8380417)) (1 + 8 * 8380417) cp) : ∀ (s1 y : List Poly),
    (∀ p ∈ s1, Good (-2) 2 p) → (∀ p ∈ y, Good (-524287) 524288 p) →
    ((sigZ cp s1 y).map ntt).map V =
      List.zipWith (fun s y => List.zipWith (· + ·) (List.zipWith (· * ·) (V cp) s) y) ((s1.map ntt).map V) ((y.map ntt).map V) ∧
    (∀ p ∈ sigZ cp s1 y, Good (-6283009) 6283008 p) ∧ (∀ p ∈ (sigZ cp s1 y).map ntt, p.length = 256)
  | [], y, _, _ => by simp [sigZ]
  | s :: s1, [], _, _ => by simp [sigZ]
  | s :: s1, y0 :: y, hs, hy => by
    obtain ⟨ih1, ih2, ih3⟩ := sigZ_facts cp hcp s1 y (fun p hp => hs p (by simp [hp])) (fun p hp => hy p (by simp [hp]))
    have gs := hs s (by simp); have gy := hy y0 (by simp)
    obtain ⟨es, gsh⟩ := G_ntt s 2 gs (by norm_num) (by norm_num)
    obtain ⟨ey, gyh⟩ := G_ntt y0 524288 (gy.mono (by norm_num) (by norm_num)) (by norm_num) (by norm_num)
    obtain ⟨em, gm⟩ := G_cmul cp (ntt s) (1 + 8 * 8380417) (2 + 8 * 8380417) hcp gsh (by norm_num)
    obtain ⟨ea, ra⟩ := polyAdd_bridge _ y0 (-4211198) 4211198 (-524287) 524288 gm.2 gy.2 (by norm_num) (by norm_num)
    have la : (polyAdd (invNTTToMont (polyPointwise cp (ntt s))) y0).length = 256 := by simp [polyAdd, gm.1, gy.1]
    obtain ⟨er, rr⟩ := polyReduce_bridge _ (fun x hx => by have := ra x hx; omega)
    have gz : Good (-6283009) 6283008 (polyReduce (polyAdd (invNTTToMont (polyPointwise cp (ntt s))) y0)) := ⟨by simp [polyReduce, la], rr⟩
    obtain ⟨ez, gzh⟩ := G_ntt _ 6283009 (gz.mono (by norm_num) (by norm_num)) (by norm_num) (by norm_num)
    have hz0 : sigZ cp (s :: s1) (y0 :: y) = polyReduce (polyAdd (invNTTToMont (polyPointwise cp (ntt s))) y0) :: sigZ cp s1 y := by
      simp [sigZ]
    rw [hz0]
    have hCl : (V cp).length = 256 := by rw [V_length]; exact hcp.1
    have hSl : (V (ntt s)).length = 256 := by rw [V_length]; exact gsh.1
    have hX : ((List.zipWith (· * ·) (V cp) (V (ntt s))).map (· * ρ)).length = 256 := by
      rw [List.length_map, List.length_zipWith, hCl, hSl]; rfl
    have hhead : V (ntt (polyReduce (polyAdd (invNTTToMont (polyPointwise cp (ntt s))) y0))) =
        List.zipWith (· + ·) (List.zipWith (· * ·) (V cp) (V (ntt s))) (V (ntt y0)) := by
      rw [ez, er, ea, em, NTT_add _ _ (by rw [List.length_map, INV_length _ hX]) (by rw [V_length]; exact gy.1),
        NTT_INV_κ _ hX, map_smul_smul, hκ', map_mul_one, ← ey]
    refine ⟨?_, ?_, ?_⟩
    · simp only [List.map_cons, List.zipWith_cons_cons, ih1, hhead]
    · intro p hp
      rcases List.mem_cons.mp hp with h | hp
      · rw [h]; exact gz
      · exact ih2 p hp
    · intro p hp
      rw [List.map_cons] at hp
      rcases List.mem_cons.mp hp with h | hp
      · rw [h]; exact gzh.1
      · exact ih3 p hp

-- ---------------------------------------------------------------- signing: w, c·s2, c·t0
def sigW (row y : List Poly) : Poly := polyCAddQ (invNTTToMont (polyReduce (pointwiseAcc row (y.map ntt))))

theorem sigW_facts (row y : List Poly) (hrow : ∀ p ∈ row, Good 0 8380416 p) (hrl : row.length ≤ 8)
    (hy : ∀ p ∈ y, Good (-524287) 524288 p) :
    V (sigW row y) = (INV (accF ρ (row.map V) ((y.map ntt).map V))).map (· * κ) ∧ Good 0 8380416 (sigW row y) := by
  obtain ⟨_, gy⟩ := ntt_all y 524288 (fun p hp => (hy p hp).mono (by norm_num) (by norm_num)) (by norm_num) (by norm_num)
  obtain ⟨ea, ga⟩ := G_acc row (y.map ntt) hrow (fun p hp => (gy p hp).1) hrl
  obtain ⟨ei, gi⟩ := G_invRed _ ga.1 (fun x hx => by have := ga.2 x hx; omega)
  obtain ⟨ec, rc⟩ := polyCAddQ_bridge _ (Rng_mono gi.2 (by norm_num) (by norm_num))
  unfold sigW
  refine ⟨by rw [ec, ei, ea], ?_, rc⟩
  simp [polyCAddQ, gi.1]

/-- `invNTTToMont (cp ∘ ntt p)` for a small polynomial `p` -/
theorem cmul_facts (cp p : Poly) (B : Int) (hcp : Good (-(1 + 8 * 8380417)) (1 + 8 * 8380417) cp) (hp : Good (-B) B p)
    (h0 : 0 ≤ B) (hB : B ≤ 8380416) :
    V (invNTTToMont (polyPointwise cp (ntt p))) = (INV ((List.zipWith (· * ·) (V cp) (NTT (V p))).map (· * ρ))).map (· * κ) ∧
    Good (-4211198) 4211198 (invNTTToMont (polyPointwise cp (ntt p))) := by
  obtain ⟨e, g⟩ := G_ntt p B hp h0 (by omega)
  obtain ⟨em, gm⟩ := G_cmul cp (ntt p) (1 + 8 * 8380417) (B + 8 * 8380417) hcp g (by nlinarith)
  exact ⟨by rw [em, e], gm⟩

-- ---------------------------------------------------------------- verification: A·z − c·t1·2^d
def verV (row : List Poly) (cp : Poly) (z : List Poly) (t1i : Poly) : Poly :=
  polyCAddQ (invNTTToMont (polyReduce (polySub (pointwiseAcc row (z.map ntt)) (polyPointwise cp (ntt (polyShiftL t1i))))))

theorem verV_facts (row : List Poly) (cp : Poly) (z : List Poly) (t1i : Poly) (hrow : ∀ p ∈ row, Good 0 8380416 p) (hrl : row.length ≤ 8)
    (hcp : Good (-(1 + 8 * 8380417)) (1 + 8 * 8380417) cp) (hz : ∀ p ∈ z.map ntt, p.length = 256) (ht1 : Good 0 1023 t1i) :
    V (verV row cp z t1i) = (INV (List.zipWith (· - ·) (accF ρ (row.map V) ((z.map ntt).map V))
        ((List.zipWith (· * ·) (V cp) (NTT ((V t1i).map (· * (8192 : Fq))))).map (· * ρ)))).map (· * κ) ∧
    Good 0 8380416 (verV row cp z t1i) := by
  obtain ⟨ea, ga⟩ := G_acc row (z.map ntt) hrow hz hrl
  obtain ⟨esh, rsh⟩ := polyShiftL_bridge t1i ht1.2
  have gsh : Good (-8380416) 8380416 (polyShiftL t1i) := ⟨by simp [polyShiftL, ht1.1], Rng_mono rsh (by norm_num) (le_refl _)⟩
  obtain ⟨en, gn⟩ := G_ntt (polyShiftL t1i) 8380416 gsh (by norm_num) (by norm_num)
  obtain ⟨ep, rp⟩ := pointwise_bridge' cp (ntt (polyShiftL t1i)) (1 + 8 * 8380417) (8380416 + 8 * 8380417) hcp.2 gn.2 (by norm_num)
  have lp : (polyPointwise cp (ntt (polyShiftL t1i))).length = 256 := by simp [polyPointwise, hcp.1, gn.1]
  obtain ⟨es, rs⟩ := polySub_bridge _ _ (-(8 * 8380416)) (8 * 8380416) (-8380416) 8380416 ga.2 rp (by norm_num) (by norm_num)
  have ls : (polySub (pointwiseAcc row (z.map ntt)) (polyPointwise cp (ntt (polyShiftL t1i)))).length = 256 := by
    simp [polySub, ga.1, lp]
  obtain ⟨ei, gi⟩ := G_invRed _ ls (fun x hx => by have := rs x hx; omega)
  obtain ⟨ec, rc⟩ := polyCAddQ_bridge _ (Rng_mono gi.2 (by norm_num) (by norm_num))
  unfold verV
  refine ⟨by rw [ec, ei, es, ea, ep, en, esh], ?_, rc⟩
  simp [polyCAddQ, gi.1]

theorem map_zipWith_add_smul (a b : List Fq) (s : Fq) : (List.zipWith (· + ·) a b).map (· * s) = List.zipWith (· + ·) (a.map (· * s)) (b.map (· * s)) := by
  rw [List.zipWith_map, List.map_zipWith]; congr 1; funext x y; ring
theorem map_zipWith_sub_smul (a b : List Fq) (s : Fq) : (List.zipWith (· - ·) a b).map (· * s) = List.zipWith (· - ·) (a.map (· * s)) (b.map (· * s)) := by
  rw [List.zipWith_map, List.map_zipWith]; congr 1; funext x y; ring

/-- **one row of the verifier's computation, in `ZMod q`**: `A·z − c·t1·2^d = w − c·s2 + c·t0` -/
theorem row_V (row s1 y : List Poly) (s2i c : Poly)
    (hrow : ∀ p ∈ row, Good 0 8380416 p) (hrl : row.length ≤ 8)
    (hs1 : ∀ p ∈ s1, Good (-2) 2 p) (hy : ∀ p ∈ y, Good (-524287) 524288 p) (hly : s1.length = y.length)
    (hs2 : Good (-2) 2 s2i) (hc : Good (-1) 1 c) :
    V (verV row (ntt c) (sigZ (ntt c) s1 y) (polyPower2Round (keyT row s1 s2i)).1) =
      List.zipWith (· + ·) (List.zipWith (· - ·) (V (sigW row y)) (V (invNTTToMont (polyPointwise (ntt c) (ntt s2i)))))
        (V (invNTTToMont (polyPointwise (ntt c) (ntt (polyPower2Round (keyT row s1 s2i)).2)))) := by
  obtain ⟨ecp, gcp⟩ := G_ntt c 1 hc (by norm_num) (by norm_num)
  have gcp' : Good (-(1 + 8 * 8380417)) (1 + 8 * 8380417) (ntt c) := gcp
  obtain ⟨et, gt⟩ := keyT_facts row s1 s2i hrow hrl hs1 hs2
  obtain ⟨ep, g1, g0⟩ := p2r_facts _ gt
  obtain ⟨ez, gz, lz⟩ := sigZ_facts (ntt c) gcp' s1 y hs1 hy
  obtain ⟨ew, gw⟩ := sigW_facts row y hrow hrl hy
  obtain ⟨ecs, gcs⟩ := cmul_facts (ntt c) s2i 2 gcp' hs2 (by norm_num) (by norm_num)
  obtain ⟨ect, gct⟩ := cmul_facts (ntt c) _ 4096 gcp' (g0.mono (by norm_num) (by norm_num)) (by norm_num) (by norm_num)
  obtain ⟨ev, gv⟩ := verV_facts row (ntt c) (sigZ (ntt c) s1 y) _ hrow hrl gcp' lz g1
  obtain ⟨eS, gS⟩ := ntt_all s1 2 hs1 (by norm_num) (by norm_num)
  obtain ⟨eY, gY⟩ := ntt_all y 524288 (fun p hp => (hy p hp).mono (by norm_num) (by norm_num)) (by norm_num) (by norm_num)
  -- lengths on the field side
  have hA : ∀ x ∈ row.map V, x.length = 256 := by
    intro x hx; obtain ⟨p, hp, rfl⟩ := List.mem_map.mp hx; rw [V_length]; exact (hrow p hp).1
  have hS : ∀ x ∈ (s1.map ntt).map V, x.length = 256 := by
    intro x hx; obtain ⟨p, hp, rfl⟩ := List.mem_map.mp hx; rw [V_length]; exact (gS p hp).1
  have hY : ∀ x ∈ (y.map ntt).map V, x.length = 256 := by
    intro x hx; obtain ⟨p, hp, rfl⟩ := List.mem_map.mp hx; rw [V_length]; exact (gY p hp).1
  have hC : (V (ntt c)).length = 256 := by rw [V_length]; exact gcp.1
  have hS2 : (NTT (V s2i)).length = 256 := NTT_length _ (by rw [V_length]; exact hs2.1)
  have hT0 : (NTT (V (polyPower2Round (keyT row s1 s2i)).2)).length = 256 := NTT_length _ (by rw [V_length]; exact g0.1)
  have lS := (accF_toFun ρ _ _ hA hS).1
  have lY := (accF_toFun ρ _ _ hA hY).1
  -- NTT of 2^13·t1
  have hT1 : NTT ((V (polyPower2Round (keyT row s1 s2i)).1).map (· * (8192 : Fq))) =
      List.zipWith (· - ·) (List.zipWith (· + ·) ((accF ρ (row.map V) ((s1.map ntt).map V)).map (· * (256 * κ))) (NTT (V s2i)))
        (NTT (V (polyPower2Round (keyT row s1 s2i)).2)) := by
    rw [ep, NTT_sub _ _ (by rw [V_length]; exact gt.1) (by rw [V_length]; exact g0.1), et,
      NTT_add _ _ (by rw [List.length_map, INV_length _ lS]) (by rw [V_length]; exact hs2.1), NTT_INV_κ _ lS]
  rw [ev, hT1, ez, row_field _ _ _ _ _ _ (by simp [hly]) hA hS hY hC hS2 hT0]
  have l1 : ((List.zipWith (· * ·) (V (ntt c)) (NTT (V s2i))).map (· * ρ)).length = 256 := by
    rw [List.length_map, List.length_zipWith, hC, hS2]; rfl
  have l2 : ((List.zipWith (· * ·) (V (ntt c)) (NTT (V (polyPower2Round (keyT row s1 s2i)).2))).map (· * ρ)).length = 256 := by
    rw [List.length_map, List.length_zipWith, hC, hT0]; rfl
  rw [INV_add _ _ (by rw [List.length_zipWith, lY, l1]; rfl) l2, INV_sub _ _ lY l1, map_zipWith_add_smul, map_zipWith_sub_smul, ew, ecs, ect]

end Qrl.NttBridge
