import QrlModel.Proofs.XmssBasic
/-! WOTS: completing a signature chain yields the public-key chain (for every hash function). -/
namespace Qrl.Xmss
section
variable (hash : Bytes → Bytes)

theorem genChain_done (pubSeed : Bytes) (a : Addr) (w : Nat) : ∀ (steps start : Nat) (x : Bytes), w ≤ start →
    genChain hash pubSeed a w steps start x = x
  | 0, _, _, _ => rfl
  | s+1, start, x, h => by
    simp only [genChain]
    rw [if_neg (by omega)]

/-- chains compose: `s1` steps from `start`, then `s2` more, is `s1 + s2` steps from `start` -/
theorem genChain_add (pubSeed : Bytes) (a : Addr) (w : Nat) : ∀ (s1 s2 start : Nat) (x : Bytes),
    genChain hash pubSeed a w (s1 + s2) start x = genChain hash pubSeed a w s2 (start + s1) (genChain hash pubSeed a w s1 start x)
  | 0, s2, start, x => by simp [genChain]
  | s1+1, s2, start, x => by
    have : s1 + 1 + s2 = (s1 + s2) + 1 := by omega
    rw [this]
    simp only [genChain]
    by_cases h : start < w
    · rw [if_pos h, if_pos h, genChain_add pubSeed a w s1 s2 (start+1)]
      congr 1; omega
    · rw [if_neg h, if_neg h, genChain_done hash pubSeed a w s2 (start + (s1+1)) x (by omega)]

/-- the verifier's chain from a signature element reaches the public-key element -/
theorem chain_complete (pubSeed : Bytes) (a : Addr) (w d : Nat) (sk : Bytes) (hd : d < w) :
    genChain hash pubSeed a w (w - 1 - d) d (genChain hash pubSeed a w d 0 sk) = genChain hash pubSeed a w (w - 1) 0 sk := by
  have := genChain_add hash pubSeed a w d (w - 1 - d) 0 sk
  rw [Nat.zero_add] at this
  rw [← this]; congr 1; omega

/-- **WOTS**: recomputing the public key from a signature of `msgHash` gives the key-generation public key,
for every seed, index, hash function and message digest of 32 bytes (w ∈ {4, 16, 256}) -/
theorem wots_pk_from_sig (p : WParams) (hp : GoodParams p) (msgHash seed pubSeed : Bytes) (idx : Nat)
    (hlen : msgHash.length = 32) :
    ∃ sig, wotsSign hash p msgHash seed pubSeed idx = .ok sig ∧ sig.length = p.len ∧
      wotsPKFromSig hash p sig msgHash pubSeed idx = .ok (wotsPKGen hash p seed pubSeed idx) := by
  obtain ⟨ds, hds, hdl, hdm⟩ := wotsDigits_ok p hp msgHash hlen
  have hsl : (expandSeed hash seed p.len).length = p.len := by simp [expandSeed]
  refine ⟨_, by simp only [wotsSign, hds, bind, Outcome.bind, pure]; rfl, by simp [hsl, hdl], ?_⟩
  simp only [wotsPKFromSig, hds, bind, Outcome.bind, pure, wotsPKGen]
  congr 1
  apply List.ext_getElem
  · simp [hsl, hdl]
  · intro i h1 h2
    simp only [List.getElem_map, List.getElem_zipIdx, List.getElem_zip, Nat.zero_add]
    have hi : i < ds.length := by simp [hsl, hdl] at h1; omega
    exact chain_complete hash pubSeed (otsAddr idx i) p.w ds[i] _ (hdm _ (List.getElem_mem hi))

end
end Qrl.Xmss
