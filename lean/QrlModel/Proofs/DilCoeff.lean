import QrlModel.Proofs.DilLayout
/-! The coefficient-level heart of `Verify(Sign(m))`: from the three accepting tests of the signing loop to
`UseHint(verifier's value, signer's hint) = signer's w1`, on the int32 values the code manipulates. -/
namespace Qrl.NttBridge
open Gen.Dil Qrl.Dil Qrl.NttTable Qrl.DilProofs

theorem phi_eq_emod {x : Coeff} {n : Int} (h : phi x = ((n : Int) : Fq)) : x.toInt % 8380417 = n % 8380417 :=
  (ZMod.intCast_eq_intCast_iff' x.toInt n 8380417).mp h

theorem hint01 (mh : BitVec 64) (h : mh.toNat ≤ 1) :
    (if BitVec.signExtend 64 (BitVec.setWidth 32 mh) = 0#64 then (0:Int) else 1) = (mh.toNat : Int) := by
  have : mh = 0#64 ∨ mh = 1#64 := by
    rcases Nat.le_one_iff_eq_zero_or_eq_one.mp h with h | h
    · left; exact BitVec.eq_of_toNat_eq (by simpa using h)
    · right; exact BitVec.eq_of_toNat_eq (by simpa using h)
  rcases this with rfl | rfl
  · decide
  · decide

theorem coeff_hint_ok (w cs2 ct0 v : Coeff)
    (hw : 0 ≤ w.toInt ∧ w.toInt ≤ 8380416)
    (hcs2 : -4211198 ≤ cs2.toInt ∧ cs2.toInt ≤ 4211198)
    (hct0 : -4211198 ≤ ct0.toInt ∧ ct0.toInt ≤ 4211198)
    (hv : 0 ≤ v.toInt ∧ v.toInt ≤ 8380416)
    (hphi : phi v = phi w - phi cs2 + phi ct0)
    (hn1 : (polyChkNorm_exit (BitVec.ofNat 32 (GAMMA2 - BETA)) (reduce32 ((decompose w).2 - cs2))).isSome = false)
    (hn2 : (polyChkNorm_exit (BitVec.ofNat 32 GAMMA2) (reduce32 ct0)).isSome = false) :
    useHint v (BitVec.signExtend 64 (BitVec.setWidth 32 (makeHint (reduce32 ((decompose w).2 - cs2) + reduce32 ct0) (decompose w).1))) = (decompose w).1 := by
  have hd := decompose_spec w hw.1 (by omega)
  have hb := decompSpec_bounds w.toInt hw.1 (by omega)
  have e1 : (decompose w).1.toInt = (decompSpec w.toInt).1 := by rw [← hd]
  have e2 : (decompose w).2.toInt = (decompSpec w.toInt).2 := by rw [← hd]
  generalize (decompose w).1 = w1 at *
  generalize (decompose w).2 = w0 at *
  -- the two reductions
  have hd0 : (w0 - cs2).toInt = w0.toInt - cs2.toInt := toInt_sub_exact w0 cs2 (by omega) (by omega)
  obtain ⟨r1c, r1lo, r1hi⟩ := reduce32_spec (w0 - cs2) (by omega)
  obtain ⟨r2c, r2lo, r2hi⟩ := reduce32_spec ct0 (by omega)
  rw [hd0] at r1c
  generalize reduce32 (w0 - cs2) = r1 at *
  generalize reduce32 ct0 = r2 at *
  have q1 : -1073741824 < r1.toInt := by clear r1c r2c hb; omega
  have q2 : r1.toInt < 1073741824 := by clear r1c r2c hb; omega
  have q3 : -1073741824 < r2.toInt := by clear r1c r2c hb; omega
  have q4 : r2.toInt < 1073741824 := by clear r1c r2c hb; omega
  rw [chknorm_lane_spec _ r1 q1 q2] at hn1
  rw [chknorm_lane_spec _ r2 q3 q4] at hn2
  have hB1 : (BitVec.ofNat 32 (GAMMA2 - BETA)).toInt = 261768 := by rfl
  have hB2 : (BitVec.ofNat 32 GAMMA2).toInt = 261888 := by rfl
  rw [hB1] at hn1; rw [hB2] at hn2
  simp only [decide_eq_false_iff_not, not_le] at hn1 hn2
  have hs : (r1 + r2).toInt = r1.toInt + r2.toInt := toInt_add_exact r1 r2 (by clear r1c r2c hb; omega) (by clear r1c r2c hb; omega)
  -- the hint bit
  have hm := makeHint_spec (r1 + r2) w1
  have hm01 : (makeHint (r1 + r2) w1).toNat ≤ 1 := by
    rw [hm]; unfold makeHintSpec; split <;> simp
  have hmi : ((makeHintSpec (r1 + r2).toInt w1.toInt).toNat : Int) = makeHintSpec (r1 + r2).toInt w1.toInt := by
    unfold makeHintSpec; split <;> simp
  apply BitVec.eq_of_toInt_eq
  rw [useHint_spec v _ hv.1 (by omega), hint01 _ hm01, hm, hmi, e1, hs]
  -- the verifier's value as an integer
  have hphi' : phi v = (((w.toInt - cs2.toInt + ct0.toInt : Int)) : Fq) := by
    rw [hphi]; simp only [phi]; push_cast; ring
  have hv' := phi_eq_emod hphi'
  generalize w.toInt = W at *
  generalize hW1 : (decompSpec W).1 = W1 at *
  generalize hW0 : (decompSpec W).2 = W0 at *
  have hvv : v.toInt = (W + (r1.toInt - W0) + r2.toInt) % 8380417 := by
    clear hb hm hm01 hmi hphi hphi' hd hn1 hn2
    omega
  have hc := hint_correct W (r1.toInt - W0) r2.toInt hw.1 (by omega)
    (by rw [hW0]; clear hb r1c r2c hv'; constructor <;> (split at hn1 <;> omega))
    (by clear hb r1c r2c hv'; constructor <;> (split at hn2 <;> omega))
  rw [hW0, hW1] at hc
  have harg : W0 + (r1.toInt - W0) + r2.toInt = r1.toInt + r2.toInt := by omega
  rw [harg] at hc
  rw [hvv]; exact hc

end Qrl.NttBridge
