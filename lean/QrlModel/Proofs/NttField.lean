import Mathlib.Algebra.Ring.Basic
import Mathlib.Tactic.Ring
import Mathlib.Tactic.LinearCombination
/-! Field-level theory of the number-theoretic transform on the CRT tree, over any commutative ring and any
twiddle table satisfying the tree facts: the forward transform evaluates, the inverse transform undoes it up to
2^levels, hence the transform-based product is the negacyclic product. Uses Mathlib (`ring`, `linear_combination`). -/
namespace Qrl.NttF

variable {F : Type} [CommRing F]

def evalPoly (a : List F) (r : F) : F := a.foldr (fun c acc => c + r * acc) 0

@[simp] theorem evalPoly_nil (r : F) : evalPoly ([] : List F) r = 0 := rfl
@[simp] theorem evalPoly_cons (c : F) (a : List F) (r : F) : evalPoly (c :: a) r = c + r * evalPoly a r := rfl

theorem evalPoly_append (a b : List F) (r : F) :
    evalPoly (a ++ b) r = evalPoly a r + r ^ a.length * evalPoly b r := by
  induction a with
  | nil => simp
  | cons x xs ih => simp only [List.cons_append, evalPoly_cons, List.length_cons, ih]; ring

theorem evalPoly_zipWith_add_smul (lo hi : List F) (r d : F) (hl : hi.length = lo.length) :
    evalPoly (List.zipWith (fun x y => x + d * y) lo hi) r = evalPoly lo r + d * evalPoly hi r := by
  induction lo generalizing hi with
  | nil => cases hi <;> simp_all
  | cons x xs ih =>
    cases hi with
    | nil => simp at hl
    | cons y ys =>
      simp only [List.length_cons, Nat.add_right_cancel_iff] at hl
      simp only [List.zipWith_cons_cons, evalPoly_cons, ih ys hl]
      ring

/-- one CRT split: evaluating `lo ++ hi` at a root `r` of `X^m − d` is evaluating `lo + d·hi` -/
theorem crt_split (lo hi : List F) (r d : F) (h : r ^ lo.length = d) (hl : hi.length = lo.length) :
    evalPoly (lo ++ hi) r = evalPoly (List.zipWith (fun x y => x + d * y) lo hi) r := by
  rw [evalPoly_append, h, evalPoly_zipWith_add_smul lo hi r d hl]

/-- forward transform on the CRT tree over a commutative ring, `z k` the twiddle of node `k` -/
def nttF (z : Nat → F) : Nat → Nat → List F → List F
  | 0, _, a => a
  | lvl+1, k, a =>
    let half := a.length / 2
    let lo := a.take half
    let hi := a.drop half
    nttF z lvl (2*k) (List.zipWith (fun x y => x + z k * y) lo hi) ++
    nttF z lvl (2*k+1) (List.zipWith (fun x y => x + (-(z k)) * y) lo hi)

/-- evaluation points below node `k` with `lvl + 1` levels -/
def pts (z : Nat → F) : Nat → Nat → List F
  | 0, k => [z k, -(z k)]
  | lvl+1, k => pts z lvl (2*k) ++ pts z lvl (2*k+1)

theorem pts_length (z : Nat → F) : ∀ (lvl k : Nat), (pts z lvl k).length = 2 ^ (lvl+1)
  | 0, _ => rfl
  | lvl+1, k => by simp only [pts, List.length_append, pts_length z lvl]; rw [pow_succ 2 (lvl+1)]; ring

/-- the twiddle tree: children of node `k` square to `± z k` (nodes 1..127 have children) -/
def TreeOK (z : Nat → F) : Prop :=
  ∀ k, 1 ≤ k → k < 128 → z (2*k) ^ 2 = z k ∧ z (2*k+1) ^ 2 = -(z k)

/-- every evaluation point below node `k` is a root of `X^(2^(lvl+1)) − (z k)^2` -/
theorem pts_pow (z : Nat → F) (hz : TreeOK z) : ∀ (lvl k : Nat), 1 ≤ k → (k+1) * 2 ^ lvl ≤ 256 →
    ∀ r ∈ pts z lvl k, r ^ (2 ^ (lvl+1)) = z k ^ 2
  | 0, k, _, _, r, hr => by
    simp only [pts, List.mem_cons, List.mem_nil_iff, or_false] at hr
    rcases hr with rfl | rfl <;> ring
  | lvl+1, k, hk, hb, r, hr => by
    have hk128 : k < 128 := by
      have : (k+1) * 2 ≤ (k+1) * 2 ^ (lvl+1) := Nat.mul_le_mul_left _ (by
        calc 2 = 2 ^ 1 := rfl
          _ ≤ 2 ^ (lvl+1) := Nat.pow_le_pow_right (by decide) (by omega))
      omega
    obtain ⟨h1, h2⟩ := hz k hk hk128
    have hb' : ∀ c, c ≤ 1 → (2*k + c + 1) * 2 ^ lvl ≤ 256 := by
      intro c hc
      have : (2*k + c + 1) * 2 ^ lvl ≤ (2*k+2) * 2 ^ lvl := Nat.mul_le_mul_right _ (by omega)
      have e : (2*k+2) * 2 ^ lvl = (k+1) * 2 ^ (lvl+1) := by rw [pow_succ]; ring
      omega
    simp only [pts, List.mem_append] at hr
    have e : r ^ (2 ^ (lvl+1+1)) = (r ^ (2 ^ (lvl+1))) ^ 2 := by rw [← pow_mul, pow_succ 2 (lvl+1)]
    rcases hr with hr | hr
    · rw [e, pts_pow z hz lvl (2*k) (by omega) (hb' 0 (by omega)) r hr, h1]
    · rw [e, pts_pow z hz lvl (2*k+1) (by omega) (hb' 1 (by omega)) r hr, h2]; ring

/-- **the forward transform evaluates**: below node `k` the transform of `a` is the list of values of the
polynomial `a` at the evaluation points of that subtree -/
theorem nttF_eval (z : Nat → F) (hz : TreeOK z) : ∀ (lvl k : Nat) (a : List F), 1 ≤ k → (k+1) * 2 ^ lvl ≤ 256 →
    a.length = 2 ^ (lvl+1) → nttF z (lvl+1) k a = (pts z lvl k).map (evalPoly a)
  | 0, k, a, _, _, hl => by
    match a, hl with
    | [a0, a1], _ => simp [nttF, pts]
  | lvl+1, k, a, hk, hb, hl => by
    have hk128 : k < 128 := by
      have : (k+1) * 2 ≤ (k+1) * 2 ^ (lvl+1) := Nat.mul_le_mul_left _ (by
        calc 2 = 2 ^ 1 := rfl
          _ ≤ 2 ^ (lvl+1) := Nat.pow_le_pow_right (by decide) (by omega))
      omega
    obtain ⟨h1, h2⟩ := hz k hk hk128
    have hb' : ∀ c, c ≤ 1 → (2*k + c + 1) * 2 ^ lvl ≤ 256 := by
      intro c hc
      have : (2*k + c + 1) * 2 ^ lvl ≤ (2*k+2) * 2 ^ lvl := Nat.mul_le_mul_right _ (by omega)
      have e : (2*k+2) * 2 ^ lvl = (k+1) * 2 ^ (lvl+1) := by rw [pow_succ]; ring
      omega
    have hhalf : a.length / 2 = 2 ^ (lvl+1) := by rw [hl, pow_succ 2 (lvl+1)]; omega
    have hlo : (a.take (a.length / 2)).length = 2 ^ (lvl+1) := by rw [List.length_take, hhalf, hl, pow_succ 2 (lvl+1)]; omega
    have hhi : (a.drop (a.length / 2)).length = 2 ^ (lvl+1) := by rw [List.length_drop, hhalf, hl, pow_succ 2 (lvl+1)]; omega
    have hsplit : a.take (a.length / 2) ++ a.drop (a.length / 2) = a := List.take_append_drop _ a
    show nttF z (lvl+1) (2*k) (List.zipWith (fun x y => x + z k * y) (a.take (a.length / 2)) (a.drop (a.length / 2))) ++
      nttF z (lvl+1) (2*k+1) (List.zipWith (fun x y => x + (-(z k)) * y) (a.take (a.length / 2)) (a.drop (a.length / 2))) = _
    rw [nttF_eval z hz lvl (2*k) _ (by omega) (hb' 0 (by omega)) (by rw [List.length_zipWith, hlo, hhi]; simp),
        nttF_eval z hz lvl (2*k+1) _ (by omega) (hb' 1 (by omega)) (by rw [List.length_zipWith, hlo, hhi]; simp)]
    simp only [pts, List.map_append]
    congr 1
    · apply List.map_congr_left
      intro r hr
      have hp := pts_pow z hz lvl (2*k) (by omega) (hb' 0 (by omega)) r hr
      rw [h1] at hp
      rw [← crt_split _ _ r (z k) (by rw [hlo]; exact hp) (by rw [hlo, hhi]), hsplit]
    · apply List.map_congr_left
      intro r hr
      have hp := pts_pow z hz lvl (2*k+1) (by omega) (hb' 1 (by omega)) r hr
      rw [h2] at hp
      rw [← crt_split _ _ r (-(z k)) (by rw [hlo]; exact hp) (by rw [hlo, hhi]), hsplit]

theorem nttF_length (z : Nat → F) : ∀ (lvl k : Nat) (a : List F), a.length = 2 ^ lvl → (nttF z lvl k a).length = 2 ^ lvl
  | 0, _, a, h => h
  | lvl+1, k, a, h => by
    have hhalf : a.length / 2 = 2 ^ lvl := by rw [h, pow_succ]; omega
    have h1 : (a.take (a.length / 2)).length = 2 ^ lvl := by rw [List.length_take, hhalf, h, pow_succ]; omega
    have h2 : (a.drop (a.length / 2)).length = 2 ^ lvl := by rw [List.length_drop, hhalf, h, pow_succ]; omega
    simp only [nttF, List.length_append]
    rw [nttF_length z lvl _ _ (by rw [List.length_zipWith, h1, h2]; simp), nttF_length z lvl _ _ (by rw [List.length_zipWith, h1, h2]; simp), pow_succ]
    omega

/-- inverse transform (Gentleman–Sande, bottom-up); node numbering of the Go code's `k--` counter -/
def invF (z : Nat → F) : Nat → Nat → List F → List F
  | 0, _, a => a
  | lvl+1, k, a =>
    let half := a.length / 2
    let lo := invF z lvl (2*k+1) (a.take half)
    let hi := invF z lvl (2*k) (a.drop half)
    List.zipWith (fun x y => x + y) lo hi ++ (List.zipWith (fun x y => x - y) lo hi).map (fun x => x * (-(z k)))

theorem invF_length (z : Nat → F) : ∀ (lvl k : Nat) (a : List F), a.length = 2 ^ lvl → (invF z lvl k a).length = 2 ^ lvl
  | 0, _, a, h => h
  | lvl+1, k, a, h => by
    have hhalf : a.length / 2 = 2 ^ lvl := by rw [h, pow_succ]; omega
    have h1 : (a.take (a.length / 2)).length = 2 ^ lvl := by rw [List.length_take, hhalf, h, pow_succ]; omega
    have h2 : (a.drop (a.length / 2)).length = 2 ^ lvl := by rw [List.length_drop, hhalf, h, pow_succ]; omega
    simp only [invF, List.length_append, List.length_zipWith, List.length_map, invF_length z lvl _ _ h1, invF_length z lvl _ _ h2]
    rw [pow_succ]; omega

/-- Gentleman–Sande undoes Cooley–Tukey up to a factor 2, when the two twiddles multiply to −1 -/
theorem gs_ct (zf zi c : F) (h : zf * zi = -1) : ∀ (lo hi : List F), hi.length = lo.length →
    List.zipWith (fun x y => x + y) ((List.zipWith (fun x y => x + zf * y) lo hi).map (· * c))
        ((List.zipWith (fun x y => x + (-zf) * y) lo hi).map (· * c)) = lo.map (· * (2 * c)) ∧
    (List.zipWith (fun x y => x - y) ((List.zipWith (fun x y => x + zf * y) lo hi).map (· * c))
        ((List.zipWith (fun x y => x + (-zf) * y) lo hi).map (· * c))).map (fun x => x * (-zi)) = hi.map (· * (2 * c))
  | [], [], _ => by simp
  | [], _ :: _, h => by simp at h
  | _ :: _, [], h => by simp at h
  | x :: lo, y :: hi, hl => by
    simp only [List.length_cons, Nat.add_right_cancel_iff] at hl
    obtain ⟨ih1, ih2⟩ := gs_ct zf zi c h lo hi hl
    simp only [List.zipWith_cons_cons, List.map_cons, List.cons.injEq]
    refine ⟨⟨by ring, ih1⟩, ⟨?_, ih2⟩⟩
    linear_combination (-2 * c * y) * h

/-- the forward node `2^ℓ + c` and the inverse node `2^(ℓ+1) − 1 − c` address the same block; their twiddles
multiply to −1 -/
def PairOK (z : Nat → F) : Prop := ∀ ℓ c, ℓ < 8 → c < 2 ^ ℓ → z (2 ^ ℓ + c) * z (2 ^ (ℓ+1) - 1 - c) = -1

/-- **the inverse transform undoes the forward transform up to the factor 2^levels** -/
theorem invF_nttF (z : Nat → F) (hp : PairOK z) : ∀ (lvl ℓ c : Nat) (a : List F), ℓ + lvl < 8 → c < 2 ^ ℓ →
    a.length = 2 ^ (lvl+1) →
    invF z (lvl+1) (2 ^ (ℓ+1) - 1 - c) (nttF z (lvl+1) (2 ^ ℓ + c) a) = a.map (· * 2 ^ (lvl+1))
  | 0, ℓ, c, a, hℓ, hc, hl => by
    match a, hl with
    | [a0, a1], _ =>
      have h := hp ℓ c (by omega) hc
      simp only [nttF, invF]
      simp
      constructor
      · ring
      · linear_combination (-2 * a1) * h
  | lvl+1, ℓ, c, a, hℓ, hc, hl => by
    have hhalf : a.length / 2 = 2 ^ (lvl+1) := by rw [hl, pow_succ 2 (lvl+1)]; omega
    have hlo : (a.take (a.length / 2)).length = 2 ^ (lvl+1) := by rw [List.length_take, hhalf, hl, pow_succ 2 (lvl+1)]; omega
    have hhi : (a.drop (a.length / 2)).length = 2 ^ (lvl+1) := by rw [List.length_drop, hhalf, hl, pow_succ 2 (lvl+1)]; omega
    have hsplit : a.take (a.length / 2) ++ a.drop (a.length / 2) = a := List.take_append_drop _ a
    have h := hp ℓ c (by omega) hc
    -- children blocks
    have ef1 : 2 * (2 ^ ℓ + c) = 2 ^ (ℓ+1) + 2*c := by rw [pow_succ]; ring
    have ef2 : 2 * (2 ^ ℓ + c) + 1 = 2 ^ (ℓ+1) + (2*c+1) := by rw [pow_succ]; ring
    have hpow : 2 * c + 2 ≤ 2 ^ (ℓ+1) := by rw [pow_succ]; omega
    have hpow2 : 2 ^ (ℓ+1) * 2 = 2 ^ (ℓ+1+1) := (pow_succ 2 (ℓ+1)).symm
    have ei1 : 2 * (2 ^ (ℓ+1) - 1 - c) + 1 = 2 ^ (ℓ+1+1) - 1 - 2*c := by omega
    have ei2 : 2 * (2 ^ (ℓ+1) - 1 - c) = 2 ^ (ℓ+1+1) - 1 - (2*c+1) := by omega
    have ih1 := invF_nttF z hp lvl (ℓ+1) (2*c) (List.zipWith (fun x y => x + z (2 ^ ℓ + c) * y) (a.take (a.length / 2)) (a.drop (a.length / 2)))
      (by omega) (by omega) (by rw [List.length_zipWith, hlo, hhi]; simp)
    have ih2 := invF_nttF z hp lvl (ℓ+1) (2*c+1) (List.zipWith (fun x y => x + (-(z (2 ^ ℓ + c))) * y) (a.take (a.length / 2)) (a.drop (a.length / 2)))
      (by omega) (by omega) (by rw [List.length_zipWith, hlo, hhi]; simp)
    -- unfold one level of both transforms
    rw [← ef1, ← ei1] at ih1
    rw [← ef2, ← ei2] at ih2
    generalize hL : nttF z (lvl+1) (2 * (2 ^ ℓ + c)) (List.zipWith (fun x y => x + z (2 ^ ℓ + c) * y) (a.take (a.length / 2)) (a.drop (a.length / 2))) = Lf at ih1
    generalize hR : nttF z (lvl+1) (2 * (2 ^ ℓ + c) + 1) (List.zipWith (fun x y => x + (-(z (2 ^ ℓ + c))) * y) (a.take (a.length / 2)) (a.drop (a.length / 2))) = Rf at ih2
    have hLl : Lf.length = 2 ^ (lvl+1) := by rw [← hL]; exact nttF_length z _ _ _ (by rw [List.length_zipWith, hlo, hhi]; simp)
    have hRl : Rf.length = 2 ^ (lvl+1) := by rw [← hR]; exact nttF_length z _ _ _ (by rw [List.length_zipWith, hlo, hhi]; simp)
    have hfw : nttF z (lvl+1+1) (2 ^ ℓ + c) a = Lf ++ Rf := by rw [← hL, ← hR]; rfl
    rw [hfw]
    have hh2 : (Lf ++ Rf).length / 2 = Lf.length := by rw [List.length_append, hLl, hRl]; omega
    show List.zipWith (fun x y => x + y) (invF z (lvl+1) (2 * (2 ^ (ℓ+1) - 1 - c) + 1) ((Lf ++ Rf).take ((Lf ++ Rf).length / 2)))
          (invF z (lvl+1) (2 * (2 ^ (ℓ+1) - 1 - c)) ((Lf ++ Rf).drop ((Lf ++ Rf).length / 2))) ++
        (List.zipWith (fun x y => x - y) (invF z (lvl+1) (2 * (2 ^ (ℓ+1) - 1 - c) + 1) ((Lf ++ Rf).take ((Lf ++ Rf).length / 2)))
          (invF z (lvl+1) (2 * (2 ^ (ℓ+1) - 1 - c)) ((Lf ++ Rf).drop ((Lf ++ Rf).length / 2)))).map (fun x => x * (-(z (2 ^ (ℓ+1) - 1 - c)))) = _
    rw [hh2, List.take_left, List.drop_left, ih1, ih2]
    obtain ⟨g1, g2⟩ := gs_ct (z (2 ^ ℓ + c)) (z (2 ^ (ℓ+1) - 1 - c)) (2 ^ (lvl+1)) h (a.take (a.length / 2)) (a.drop (a.length / 2)) (by rw [hlo, hhi])
    rw [g1, g2, ← List.map_append, hsplit]
    apply List.map_congr_left
    intro x _
    rw [pow_succ 2 (lvl+1)]; ring

-- ---------------------------------------------------------------- plain polynomial arithmetic

def addL : List F → List F → List F
  | [], b => b
  | a, [] => a
  | x :: a, y :: b => (x + y) :: addL a b

def smulL (c : F) (a : List F) : List F := a.map (c * ·)

/-- schoolbook product of coefficient lists -/
def convF : List F → List F → List F
  | [], _ => []
  | x :: xs, b => addL (smulL x b) (0 :: convF xs b)

theorem evalPoly_addL (r : F) : ∀ (a b : List F), evalPoly (addL a b) r = evalPoly a r + evalPoly b r
  | [], b => by simp [addL]
  | x :: a, [] => by simp [addL]
  | x :: a, y :: b => by simp only [addL, evalPoly_cons, evalPoly_addL r a b]; ring

theorem evalPoly_smulL (c r : F) (a : List F) : evalPoly (smulL c a) r = c * evalPoly a r := by
  induction a with
  | nil => simp [smulL]
  | cons x xs ih => simp only [smulL, List.map_cons, evalPoly_cons] at ih ⊢; rw [ih]; ring

theorem evalPoly_convF (r : F) : ∀ (a b : List F), evalPoly (convF a b) r = evalPoly a r * evalPoly b r
  | [], b => by simp [convF]
  | x :: xs, b => by
    simp only [convF, evalPoly_addL, evalPoly_smulL, evalPoly_cons, evalPoly_convF r xs b]; ring

/-- reduction modulo `X^n + 1`: low part minus high part -/
def negaF (n : Nat) (p : List F) : List F := addL (p.take n) (smulL (-1) (p.drop n))

theorem evalPoly_negaF (n : Nat) (p : List F) (r : F) (hr : r ^ n = -1) (hl : n ≤ p.length) :
    evalPoly (negaF n p) r = evalPoly p r := by
  have : p = p.take n ++ p.drop n := (List.take_append_drop n p).symm
  conv => rhs; rw [this, evalPoly_append, List.length_take, Nat.min_eq_left hl, hr]
  simp only [negaF, evalPoly_addL, evalPoly_smulL]

/-- the negacyclic product `a · b mod (X^n + 1)` -/
def mulNega (n : Nat) (a b : List F) : List F := negaF n (convF a b)

theorem addL_length : ∀ (a b : List F), (addL a b).length = max a.length b.length
  | [], b => by simp [addL]
  | x :: a, [] => by simp [addL]
  | x :: a, y :: b => by simp only [addL, List.length_cons, addL_length a b]; omega

theorem convF_length : ∀ (a b : List F), a ≠ [] → b ≠ [] → (convF a b).length = a.length + b.length - 1
  | [x], b, _, hb => by
    have : 0 < b.length := List.length_pos_iff.mpr hb
    simp [convF, addL_length, smulL]; omega
  | x :: y :: xs, b, _, hb => by
    have ih := convF_length (y :: xs) b (by simp) hb
    have : 0 < b.length := List.length_pos_iff.mpr hb
    simp only [convF] at ih ⊢
    simp only [addL_length, smulL, List.length_map, List.length_cons, ih] at *
    omega

theorem mulNega_length (n : Nat) (a b : List F) (ha : a.length = n) (hb : b.length = n) (hn : 0 < n) :
    (mulNega n a b).length = n := by
  have hane : a ≠ [] := by intro h; rw [h] at ha; simp at ha; omega
  have hbne : b ≠ [] := by intro h; rw [h] at hb; simp at hb; omega
  simp only [mulNega, negaF, addL_length, smulL, List.length_map, List.length_take, List.length_drop,
    convF_length a b hane hbne, ha, hb]
  omega

/-- **field-level NTT theorem**: with a twiddle table satisfying the tree and pairing facts and `(z 1)^2 = −1`,
the inverse transform of the pointwise product of two forward transforms is `256 ·` the negacyclic product -/
theorem ntt_mul (z : Nat → F) (hz : TreeOK z) (hp : PairOK z) (h1 : z 1 ^ 2 = -1) (a b : List F)
    (ha : a.length = 256) (hb : b.length = 256) :
    invF z 8 1 (List.zipWith (· * ·) (nttF z 8 1 a) (nttF z 8 1 b)) = (mulNega 256 a b).map (· * 256) := by
  have hc := mulNega_length 256 a b ha hb (by decide)
  have e256 : (2:Nat) ^ (7+1) = 256 := by norm_num
  have hk : (1 + 1) * 2 ^ 7 ≤ 256 := by norm_num
  have ea := nttF_eval z hz 7 1 a (Nat.le_refl 1) hk (by rw [ha, e256])
  have eb := nttF_eval z hz 7 1 b (Nat.le_refl 1) hk (by rw [hb, e256])
  have ec := nttF_eval z hz 7 1 (mulNega 256 a b) (Nat.le_refl 1) hk (by rw [hc, e256])
  have hprod : List.zipWith (· * ·) (nttF z 8 1 a) (nttF z 8 1 b) = nttF z 8 1 (mulNega 256 a b) := by
    rw [ea, eb, ec, List.zipWith_map_left, List.zipWith_map_right, List.zipWith_self]
    apply List.map_congr_left
    intro r hr
    have hr256 : r ^ 256 = -1 := by
      have := pts_pow z hz 7 1 (Nat.le_refl 1) hk r hr
      rw [e256, h1] at this; exact this
    have hlen : 256 ≤ (convF a b).length := by
      have hane : a ≠ [] := by intro h; rw [h] at ha; simp at ha
      have hbne : b ≠ [] := by intro h; rw [h] at hb; simp at hb
      rw [convF_length a b hane hbne, ha, hb]; norm_num
    simp only [mulNega]
    rw [evalPoly_negaF 256 _ r hr256 hlen, evalPoly_convF]
  rw [hprod]
  have := invF_nttF z hp 7 0 0 (mulNega 256 a b) (by norm_num) (by norm_num) (by rw [hc, e256])
  have e : ((2:F) ^ (7+1)) = 256 := by norm_num
  simp only [e] at this
  simpa using this

end Qrl.NttF
