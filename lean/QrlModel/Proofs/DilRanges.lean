import QrlModel.Proofs.DilBridge
import QrlModel.Proofs.DilPack
import QrlModel.Proofs.DilSigCanon
import QrlModel.Props.C12
import Std.Tactic.BVDecide
/-! Lengths and coefficient ranges of the sampler outputs and of the rounding functions applied to whole polynomials. -/
namespace Qrl.NttBridge
open Gen.Dil Qrl.Dil Qrl.NttTable Qrl.DilProofs

theorem ofNat_toInt_small (t : Nat) (h : t < 2147483648) : (BitVec.ofNat 32 t).toInt = t := by
  rw [BitVec.toInt_eq_toNat_cond]
  simp only [BitVec.toNat_ofNat]
  have : t % 2 ^ 32 = t := Nat.mod_eq_of_lt (by omega)
  rw [this]; split <;> omega

theorem rejUniform_range : ∀ (n : Nat) (buf : Bytes), Rng 0 8380416 (rejUniform n buf) := by
  intro n buf
  fun_induction rejUniform n buf with
  | case1 => intro x hx; simp at hx
  | case2 n b0 b1 b2 rest t ht ih =>
    intro x hx
    simp only [List.mem_cons] at hx
    rcases hx with rfl | hx
    · have hq : Q = 8380417 := rfl
      rw [ofNat_toInt_small t (by omega)]; omega
    · exact ih x hx
  | case3 n b0 b1 b2 rest t ht ih => exact ih
  | case4 => intro x hx; simp at hx

theorem polyUniformLoop_range (stream : Nat → Bytes) : ∀ (fuel consumed : Nat) (acc : List Coeff), Rng 0 8380416 acc →
    Rng 0 8380416 (polyUniformLoop stream fuel consumed acc)
  | 0, _, acc, h => h
  | fuel+1, consumed, acc, h => by
    simp only [polyUniformLoop]
    split
    · apply polyUniformLoop_range stream fuel
      intro x hx
      rcases List.mem_append.mp hx with hx | hx
      · exact h x hx
      · exact rejUniform_range _ _ x hx
    · exact h

theorem polyUniform_range (shake128 : Bytes → Nat → Bytes) (seed : Bytes) (nonce : Nat) : Rng 0 8380416 (polyUniform shake128 seed nonce) :=
  polyUniformLoop_range _ _ _ _ (rejUniform_range _ _)

theorem etaMap_range : ∀ t < 15, -2 ≤ (etaMap t).toInt ∧ (etaMap t).toInt ≤ 2 := by decide

theorem Rng_cons {lo hi : Int} {x : Coeff} {a : Poly} (hx : lo ≤ x.toInt ∧ x.toInt ≤ hi) (ha : Rng lo hi a) : Rng lo hi (x :: a) := by
  intro y hy
  rcases List.mem_cons.mp hy with rfl | hy
  · exact hx
  · exact ha y hy

theorem Rng_nil {lo hi : Int} : Rng lo hi [] := by intro x hx; simp at hx

theorem Rng_append {lo hi : Int} {a b : Poly} (ha : Rng lo hi a) (hb : Rng lo hi b) : Rng lo hi (a ++ b) := by
  intro x hx
  rcases List.mem_append.mp hx with h | h
  · exact ha x h
  · exact hb x h

theorem rejEta_range : ∀ (n : Nat) (buf : Bytes), Rng (-2) 2 (rejEta n buf) := by
  intro n buf
  fun_induction rejEta n buf with
  | case1 => exact Rng_nil
  | case2 => exact Rng_nil
  | case3 n b rest t0 t1 h0 h1 ih => exact Rng_cons (etaMap_range t0 h0) (Rng_cons (etaMap_range t1 h1.1) ih)
  | case4 n b rest t0 t1 h0 h1 ih => exact Rng_cons (etaMap_range t0 h0) ih
  | case5 n b rest t0 t1 h0 h1 ih => exact Rng_cons (etaMap_range t1 h1) ih
  | case6 n b rest t0 t1 h0 h1 ih => exact ih

theorem polyUniformEtaLoop_range (stream : Nat → Bytes) : ∀ (fuel consumed : Nat) (acc : List Coeff), Rng (-2) 2 acc →
    Rng (-2) 2 (polyUniformEtaLoop stream fuel consumed acc)
  | 0, _, acc, h => h
  | fuel+1, consumed, acc, h => by
    simp only [polyUniformEtaLoop]
    split
    · exact polyUniformEtaLoop_range stream fuel _ _ (Rng_append h (rejEta_range _ _))
    · exact h

theorem polyUniformEta_range (shake256 : Bytes → Nat → Bytes) (seed : Bytes) (nonce : Nat) : Rng (-2) 2 (polyUniformEta shake256 seed nonce) :=
  polyUniformEtaLoop_range _ _ _ _ (rejEta_range _ _)

/-- every output of the z-unpacking lane is in (−2^19, 2^19] -/
theorem zUnpack_lane_range (a0 a1 a2 a3 a4 : BitVec 8) : ∀ x ∈ polyZUnpack_lane a0 a1 a2 a3 a4,
    BitVec.slt (BitVec.ofInt 32 (-524288)) x = true ∧ BitVec.sle x 524288#32 = true := by
  intro x hx
  simp only [polyZUnpack_lane, List.mem_cons, List.mem_nil_iff, or_false] at hx
  rcases hx with rfl | rfl
  · constructor <;> bv_decide
  · constructor <;> bv_decide

theorem polyZUnpack_range (b : Bytes) : ∀ x ∈ polyZUnpack b,
    BitVec.slt (BitVec.ofInt 32 (-524288)) x = true ∧ BitVec.sle x 524288#32 = true := by
  intro x hx
  rw [DilPack.polyZUnpack_eq] at hx
  obtain ⟨c, _, hxc⟩ := List.mem_flatMap.mp hx
  unfold DilPack.zU at hxc
  split at hxc
  · exact zUnpack_lane_range _ _ _ _ _ x hxc
  · simp at hxc

theorem polyZUnpack_length (b : Bytes) (hl : 640 ≤ b.length) : (polyZUnpack b).length = 256 := by
  rw [DilPack.polyZUnpack_eq]
  have h5 : (b.take 640).length = 5 * 128 := by rw [List.length_take]; omega
  have := (flatMap_chunks_length 5 2 (by decide) DilPack.zU (by
    intro c hc
    match c, hc with
    | [c0,c1,c2,c3,c4], _ => rfl) 128 (b.take 640) h5).1
  simpa using this

theorem slt_sle_toInt (x : Coeff) (lo hi : Int) (hlo : -2147483648 ≤ lo ∧ lo < 2147483648) (hhi : -2147483648 ≤ hi ∧ hi < 2147483648)
    (h : BitVec.slt (BitVec.ofInt 32 lo) x = true ∧ BitVec.sle x (BitVec.ofInt 32 hi) = true) : lo < x.toInt ∧ x.toInt ≤ hi := by
  obtain ⟨h1, h2⟩ := h
  rw [BitVec.slt_iff_toInt_lt] at h1
  rw [BitVec.sle_iff_toInt_le] at h2
  have n32 : (2:Nat)^32 = 4294967296 := by rfl
  rw [BitVec.toInt_ofInt, n32, bmod32_id lo hlo.1 hlo.2] at h1
  rw [BitVec.toInt_ofInt, n32, bmod32_id hi hhi.1 hhi.2] at h2
  exact ⟨h1, h2⟩

theorem polyUniformGamma1_facts (shake256 : Bytes → Nat → Bytes) (hlen : ∀ x n, (shake256 x n).length = n) (seed : Bytes) (nonce : Nat) :
    (polyUniformGamma1 shake256 seed nonce).length = 256 ∧ Rng (-524287) 524288 (polyUniformGamma1 shake256 seed nonce) := by
  unfold polyUniformGamma1
  refine ⟨polyZUnpack_length _ (by rw [hlen]; omega), ?_⟩
  intro x hx
  have := polyZUnpack_range _ x hx
  have h := slt_sle_toInt x (-524288) 524288 (by omega) (by omega) (by simpa using this)
  omega

theorem Rng_set {lo hi : Int} {c : Poly} (hc : Rng lo hi c) (i : Nat) (v : Coeff) (hv : lo ≤ v.toInt ∧ v.toInt ≤ hi) : Rng lo hi (c.set i v) := by
  intro x hx
  rcases List.mem_or_eq_of_mem_set hx with h | rfl
  · exact hc x h
  · exact hv

theorem Rng_getD {lo hi : Int} {c : Poly} (hc : Rng lo hi c) (i : Nat) (h0 : lo ≤ 0 ∧ 0 ≤ hi) : lo ≤ (c.getD i 0#32).toInt ∧ (c.getD i 0#32).toInt ≤ hi := by
  rw [List.getD_eq_getElem?_getD]
  cases h : c[i]? with
  | none => simpa using h0
  | some v => exact hc v (List.mem_of_getElem? h)

theorem foldl_inv {α β} (P : β → Prop) (f : β → α → β) (hf : ∀ b a, P b → P (f b a)) : ∀ (l : List α) (b : β), P b → P (l.foldl f b)
  | [], _, h => h
  | a :: l, b, h => foldl_inv P f hf l (f b a) (hf b a h)

theorem polyChallenge_facts (shake256 : Bytes → Nat → Bytes) (seed : Bytes) :
    (polyChallenge shake256 seed).length = 256 ∧ Rng (-1) 1 (polyChallenge shake256 seed) := by
  unfold polyChallenge
  dsimp only
  apply foldl_inv (fun (st : Poly × Nat × Nat) => st.1.length = 256 ∧ Rng (-1) 1 st.1)
  · rintro ⟨c, pos, signs⟩ j ⟨hl, hr⟩
    dsimp only
    constructor
    · simp only [List.length_set, hl]
    · apply Rng_set (Rng_set hr _ _ (Rng_getD hr _ (by omega)))
      split
      · have : (BitVec.ofInt 32 (-1)).toInt = -1 := by rfl
        rw [this]; omega
      · have : (1#32 : BitVec 32).toInt = 1 := by rfl
        rw [this]; omega
  · refine ⟨DilHints.zeroPoly_length, ?_⟩
    intro x hx
    have : x = 0#32 := List.eq_of_mem_replicate (n := 256) hx
    subst this
    have : (0#32 : BitVec 32).toInt = 0 := by rfl
    rw [this]; omega

/-- `polyPower2Round` on a polynomial with coefficients in [0, q): exact integer split and ranges -/
theorem power2Round_coeff (a : Coeff) (h0 : 0 ≤ a.toInt) (h1 : a.toInt ≤ 8380416) :
    a.toInt = (power2Round a).1.toInt * 8192 + (power2Round a).2.toInt ∧
    0 ≤ (power2Round a).1.toInt ∧ (power2Round a).1.toInt ≤ 1023 ∧ -4095 ≤ (power2Round a).2.toInt ∧ (power2Round a).2.toInt ≤ 4096 := by
  have hs := power2Round_spec a h0 (by omega)
  generalize (power2Round a).1.toInt = p1 at *
  generalize (power2Round a).2.toInt = p0 at *
  generalize a.toInt = A at *
  have hd := C12.p2r_defining A h0 (by omega)
  rw [← hs] at hd
  dsimp only at hd
  omega

end Qrl.NttBridge
