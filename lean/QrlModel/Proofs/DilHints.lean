import QrlModel.Model.Dilithium
namespace Qrl.DilHints
open Qrl.Dil Gen.Dil

/-- a strictly increasing list of naturals -/
def StrictInc : List Nat → Prop
  | a :: b :: t => a < b ∧ StrictInc (b :: t)
  | _ => True

theorem strictInc_tail {a : Nat} {l : List Nat} (h : StrictInc (a :: l)) : StrictInc l := by
  cases l with
  | nil => trivial
  | cons b t => exact h.2

theorem strictInc_lt {a : Nat} : ∀ {l : List Nat}, StrictInc (a :: l) → ∀ x ∈ l, a < x
  | [], _, x, hx => by cases hx
  | b :: t, h, x, hx => by
    rcases List.mem_cons.mp hx with rfl | hx
    · exact h.1
    · have := strictInc_lt (l := t) (a := b) h.2 x hx
      exact Nat.lt_trans h.1 this

/-- filtering `lo, lo+1, …, lo+n-1` by membership in a strictly increasing list of such numbers gives the list -/
theorem filter_range_mem : ∀ (n lo : Nat) (L : List Nat), StrictInc L → (∀ x ∈ L, lo ≤ x ∧ x < lo + n) →
    (List.range' lo n).filter (fun j => decide (j ∈ L)) = L
  | 0, lo, L, _, hb => by
    cases L with
    | nil => rfl
    | cons a t => have := hb a (by simp); omega
  | n+1, lo, L, hs, hb => by
    rw [List.range'_succ, List.filter_cons]
    by_cases hm : lo ∈ L
    · -- lo must be the head
      cases L with
      | nil => cases hm
      | cons a t =>
        have ha : a = lo := by
          rcases List.mem_cons.mp hm with h | h
          · exact h.symm
          · have := strictInc_lt hs lo h
            have := (hb a (by simp)).1
            omega
        subst ha
        simp only [List.mem_cons, true_or, decide_true, if_true]
        congr 1
        have ht := strictInc_tail hs
        have hbt : ∀ x ∈ t, a + 1 ≤ x ∧ x < a + 1 + n := by
          intro x hx
          have h1 := strictInc_lt hs x hx
          have h2 := (hb x (by simp [hx])).2
          omega
        have ih := filter_range_mem n (a+1) t ht hbt
        have e : (List.range' (a+1) n).filter (fun j => decide (j = a ∨ j ∈ t)) = (List.range' (a+1) n).filter (fun j => decide (j ∈ t)) := by
          apply List.filter_congr
          intro j hj
          have : a + 1 ≤ j := (List.mem_range'_1.mp hj).1
          have hne : j ≠ a := by omega
          simp [hne]
        rw [e, ih]
    · simp only [hm, decide_false, Bool.false_eq_true, if_false]
      apply filter_range_mem n (lo+1) L hs
      intro x hx
      have := hb x hx
      have : x ≠ lo := fun e => hm (e ▸ hx)
      omega

theorem zeroPoly_length : zeroPoly.length = 256 := List.length_replicate

theorem zeroPoly_getD (j : Nat) : zeroPoly.getD j 0#32 = 0#32 := by
  unfold zeroPoly
  rw [List.getD_eq_getElem?_getD, List.getElem?_replicate]
  split <;> rfl

def byteAt (hs : Bytes) (x : Nat) : Nat := (hs.getD x 0).toNat

theorem byteAt_lt (hs : Bytes) (x : Nat) : byteAt hs x < 256 := (hs.getD x 0).toNat_lt

/-- setting the listed coefficients to 1 -/
def mark (p : Poly) (vals : List Nat) : Poly := vals.foldl (fun q v => q.set v 1#32) p

theorem mark_length (p : Poly) (vals : List Nat) : (mark p vals).length = p.length := by
  induction vals generalizing p with
  | nil => rfl
  | cons v t ih => simp only [mark, List.foldl_cons] at ih ⊢; rw [ih]; simp

theorem mark_getD (vals : List Nat) : ∀ (p : Poly) (x : Nat), x < p.length →
    (mark p vals).getD x 0#32 = if x ∈ vals then 1#32 else p.getD x 0#32 := by
  induction vals with
  | nil => intro p x _; simp [mark]
  | cons v t ih =>
    intro p x hx
    simp only [mark, List.foldl_cons]
    have := ih (p.set v 1#32) x (by simpa using hx)
    simp only [mark] at this
    rw [this]
    by_cases hxt : x ∈ t
    · simp [hxt]
    · simp only [hxt, if_false, List.mem_cons, or_false]
      by_cases hxv : x = v
      · subst hxv; simp [List.getD_eq_getElem?_getD, hx]
      · simp [hxv, List.getD_eq_getElem?_getD, List.getElem?_set, Ne.symm hxv]

/-- what `decodeRow` computes, and when it succeeds -/
theorem decodeRow_some (hs : Bytes) (k : Nat) : ∀ (n j : Nat) (p p' : Poly), k ≤ j → decodeRow hs k n j p = some p' →
    p' = mark p ((List.range' j n).map (byteAt hs)) ∧
    StrictInc (if j > k then byteAt hs (j-1) :: (List.range' j n).map (byteAt hs) else (List.range' j n).map (byteAt hs))
  | 0, j, p, p', _, h => by
    simp only [decodeRow, Option.some.injEq] at h
    subst h
    refine ⟨rfl, ?_⟩
    split <;> trivial
  | n+1, j, p, p', hkj, h => by
    simp only [decodeRow] at h
    split at h
    · cases h
    · rename_i hc
      obtain ⟨e, hsi⟩ := decodeRow_some hs k n (j+1) _ p' (by omega) h
      have hj1 : j + 1 > k := by omega
      simp only [hj1, if_true, Nat.add_sub_cancel] at hsi
      refine ⟨by rw [e]; simp [mark, List.range'_succ, byteAt], ?_⟩
      rw [List.range'_succ, List.map_cons]
      by_cases hjk : j > k
      · simp only [hjk, if_true]
        refine ⟨?_, hsi⟩
        have : ¬ (byteAt hs j ≤ byteAt hs (j-1)) := fun hle => hc ⟨hjk, hle⟩
        omega
      · simp only [hjk, if_false]
        exact hsi

theorem strictInc_of_cons_or {b : Nat} {l : List Nat} {c : Prop} [Decidable c] (h : StrictInc (if c then b :: l else l)) : StrictInc l := by
  split at h
  · exact strictInc_tail h
  · exact h

/-- a decoded row lists exactly the positions it was decoded from -/
theorem rowPositions_decodeRow (hs : Bytes) (k n : Nat) (p' : Poly) (h : decodeRow hs k n k zeroPoly = some p') :
    rowPositions p' = (List.range' k n).map (byteAt hs) ∧ p'.length = 256 := by
  obtain ⟨e, hsi⟩ := decodeRow_some hs k n k zeroPoly p' (Nat.le_refl _) h
  have hs' : StrictInc ((List.range' k n).map (byteAt hs)) := by simpa using hsi
  have hlen : p'.length = 256 := by rw [e, mark_length]; exact zeroPoly_length
  refine ⟨?_, hlen⟩
  unfold rowPositions
  have hN : Dil.N = 256 := rfl
  rw [hN, List.range_eq_range']
  have hf : (List.range' 0 256).filter (fun j => p'.getD j 0#32 != 0#32) =
      (List.range' 0 256).filter (fun j => decide (j ∈ (List.range' k n).map (byteAt hs))) := by
    apply List.filter_congr
    intro j hj
    have hj' : j < 256 := by have := (List.mem_range'_1.mp hj).2; omega
    rw [e, mark_getD _ _ _ (by rw [zeroPoly_length]; exact hj')]
    by_cases hm : j ∈ (List.range' k n).map (byteAt hs)
    · simp [hm]
    · rw [if_neg hm, zeroPoly_getD]; simp [hm]
  rw [hf]
  apply filter_range_mem 256 0 _ hs'
  intro x hx
  obtain ⟨y, _, rfl⟩ := List.mem_map.mp hx
  exact ⟨Nat.zero_le _, by have := byteAt_lt hs y; omega⟩

theorem range'_append (a n m : Nat) : List.range' a n ++ List.range' (a + n) m = List.range' a (n + m) := by
  rw [List.range'_append_1]

/-- the row loop, when it succeeds: positions of the decoded rows are the consecutive byte segments, the
counts are the count bytes, and the consumed prefix stays within ω -/
theorem unpackRows_spec (hs : Bytes) : ∀ (rows i k : Nat) (ps : List Poly) (k' : Nat), k ≤ OMEGA →
    unpackRows hs rows i k = some (ps, k') →
    k ≤ k' ∧ k' ≤ OMEGA ∧ ps.length = rows ∧ (∀ p ∈ ps, p.length = 256) ∧
    (ps.map rowPositions).flatten = (List.range' k (k' - k)).map (byteAt hs) ∧
    cumCounts k (ps.map rowPositions) = (List.range' i rows).map (fun r => byteAt hs (OMEGA + r))
  | 0, i, k, ps, k', hk, h => by
    simp only [unpackRows, Option.some.injEq, Prod.mk.injEq] at h
    obtain ⟨rfl, rfl⟩ := h
    simp [cumCounts, hk]
  | rows+1, i, k, ps, k', hk, h => by
    simp only [unpackRows] at h
    have hb : (hs.getD (OMEGA + i) 0).toNat = byteAt hs (OMEGA + i) := rfl
    rw [hb] at h
    have hgoal : (List.range' i (rows+1)).map (fun r => byteAt hs (OMEGA + r)) =
        byteAt hs (OMEGA + i) :: (List.range' (i+1) rows).map (fun r => byteAt hs (OMEGA + r)) := by
      rw [List.range'_succ, List.map_cons]
    rw [hgoal]
    generalize byteAt hs (OMEGA + i) = c at h ⊢
    split at h; · cases h
    rename_i hc
    split at h; · cases h
    rename_i p hp
    split at h; · cases h
    rename_i ps' k'' hr
    simp only [Option.some.injEq, Prod.mk.injEq] at h
    obtain ⟨rfl, rfl⟩ := h
    have hc1 : k ≤ c := by omega
    have hc2 : c ≤ OMEGA := by omega
    obtain ⟨h1, h2, h3, h4, h5, h6⟩ := unpackRows_spec hs rows (i+1) c ps' k'' hc2 hr
    obtain ⟨hpos, hplen⟩ := rowPositions_decodeRow hs k _ p hp
    refine ⟨by omega, h2, by simp [h3], ?_, ?_, ?_⟩
    · intro q hq
      rcases List.mem_cons.mp hq with rfl | hq
      · exact hplen
      · exact h4 q hq
    · simp only [List.map_cons, List.flatten_cons, hpos, h5]
      rw [← List.map_append]
      congr 1
      have := range'_append k (c - k) (k'' - c)
      have e1 : k + (c - k) = c := by omega
      have e2 : c - k + (k'' - c) = k'' - k := by omega
      rw [e1, e2] at this
      exact this
    · simp only [List.map_cons, cumCounts, hpos, List.length_map, List.length_range']
      have e1 : k + (c - k) = c := by omega
      rw [e1, h6]

theorem u8_ofNat_toNat (a : UInt8) : UInt8.ofNat a.toNat = a := by cases a; simp [UInt8.ofNat, UInt8.toNat]

/-- reading consecutive bytes by index is taking a slice -/
theorem map_getD_range' (hs : Bytes) : ∀ (n a : Nat), a + n ≤ hs.length →
    (List.range' a n).map (fun x => hs.getD x 0) = (hs.drop a).take n
  | 0, a, _ => by simp
  | n+1, a, h => by
    rw [List.range'_succ, List.map_cons, map_getD_range' hs n (a+1) (by omega)]
    have ha : a < hs.length := by omega
    rw [List.getD_eq_getElem?_getD, List.getElem?_eq_getElem ha, Option.getD_some]
    conv => rhs; rw [List.drop_eq_getElem_cons ha]
    rfl

theorem bytes_of_byteAt (hs : Bytes) (n a : Nat) (h : a + n ≤ hs.length) :
    ((List.range' a n).map (byteAt hs)).map UInt8.ofNat = (hs.drop a).take n := by
  rw [List.map_map, ← map_getD_range' hs n a h]
  apply List.map_congr_left
  intro x _
  simp [byteAt, u8_ofNat_toNat]

/-- **the hint section is canonical**: whenever the decoder accepts an 83-byte hint section, re-encoding the
decoded hint vector reproduces exactly those bytes -/
theorem hints_canonical (hs : Bytes) (hl : hs.length = OMEGA + K) (rows : List Poly) (h : unpackHints hs = some rows) :
    packHints rows = hs := by
  unfold unpackHints at h
  split at h; · cases h
  rename_i ps k hu
  split at h; · cases h
  rename_i hpad
  injection h with h; subst h
  obtain ⟨_, hk, hlen, _, hflat, hcnt⟩ := unpackRows_spec hs K 0 0 ps k (Nat.zero_le _) hu
  have hOM : OMEGA = 75 := rfl
  have hK : K = 8 := rfl
  unfold packHints
  simp only [hflat, hcnt, Nat.sub_zero, List.length_map, List.length_range']
  rw [bytes_of_byteAt hs k 0 (by omega)]
  have hc : ((List.range' 0 K).map (fun r => byteAt hs (OMEGA + r))).map UInt8.ofNat = hs.drop OMEGA := by
    have := bytes_of_byteAt hs K OMEGA (by omega)
    rw [List.take_of_length_le (by simp; omega)] at this
    rw [← this, List.map_map, List.map_map]
    have hr : List.range' OMEGA K = (List.range' 0 K).map (fun r => OMEGA + r) := by
      rw [hOM, hK]; rfl
    rw [hr, List.map_map]
    rfl
  rw [hc]
  -- the padding bytes are zero
  have hz : zeros (OMEGA - k) = (hs.drop k).take (OMEGA - k) := by
    rw [← map_getD_range' hs (OMEGA - k) k (by omega)]
    unfold zeros
    apply List.ext_getElem
    · simp
    · intro j h1 h2
      simp only [List.getElem_replicate, List.getElem_map, List.getElem_range']
      have hj : j < OMEGA - k := by simpa using h1
      have : ¬ ((List.range (OMEGA - k)).any (fun d => hs.getD (k + d) 0 != 0) = true) := hpad
      simp only [List.any_eq_true, List.mem_range, bne_iff_ne, ne_eq, not_exists, not_and, Decidable.not_not] at this
      have := this j hj
      simp only [Nat.one_mul]
      exact this.symm
  rw [hz, List.drop_zero]
  -- reassemble hs = hs[0..k) ++ hs[k..75) ++ hs[75..83)
  have e1 : hs.take k ++ (hs.drop k).take (OMEGA - k) = hs.take OMEGA := by
    have : OMEGA = k + (OMEGA - k) := by omega
    conv => rhs; rw [this, List.take_add]
  rw [e1, List.take_append_drop]

end Qrl.DilHints
