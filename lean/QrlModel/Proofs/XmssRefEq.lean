import QrlModel.Proofs.XmssE2E
import QrlModel.Spec.XmssRef
/-! The library model equals the full-Merkle-tree reference: levels of the reference are the true tree levels,
the public key and every signature agree byte for byte. -/
namespace Qrl.XmssRef
open Qrl.Xmss Qrl.BdsRel Qrl.BdsLabel Qrl.Bds Qrl.Xmss.C08

section
variable (hash : Bytes → Bytes) (pubSeed : Bytes) (leafF : Nat → Bytes)

/-- hashing adjacent pairs of the true level `t` (from index 2i on) gives the true level `t+1` (from index i on) -/
theorem pairUp_true (t : Nat) : ∀ (m i : Nat),
    pairUp hash pubSeed t i ((List.range' (2*i) (2*m)).map (tree (treeOps hash pubSeed leafF) t)) =
      (List.range' i m).map (tree (treeOps hash pubSeed leafF) (t+1))
  | 0, i => by simp [pairUp]
  | m+1, i => by
    have : 2 * (m+1) = (2*m + 1) + 1 := by omega
    rw [this, List.range'_succ, List.range'_succ, List.range'_succ]
    simp only [List.map_cons, pairUp]
    have h2 : 2 * i + 1 + 1 = 2 * (i+1) := by omega
    rw [h2, pairUp_true t m (i+1)]
    rfl

theorem levels_true : ∀ (fuel t : Nat),
    levelsFrom hash pubSeed fuel t ((List.range (2 ^ fuel)).map (tree (treeOps hash pubSeed leafF) t)) =
      (List.range (fuel+1)).map (fun j => (List.range (2 ^ (fuel - j))).map (tree (treeOps hash pubSeed leafF) (t + j)))
  | 0, t => by simp [levelsFrom]
  | fuel+1, t => by
    simp only [levelsFrom]
    have hp : (List.range (2 ^ (fuel+1))) = List.range' (2*0) (2 * 2^fuel) := by
      rw [List.range_eq_range', Nat.pow_succ, Nat.mul_comm]
    rw [hp, pairUp_true hash pubSeed leafF t (2^fuel) 0]
    have hr : List.range' 0 (2 ^ fuel) = List.range (2 ^ fuel) := (List.range_eq_range' (n := 2 ^ fuel)).symm
    rw [hr, levels_true fuel (t+1)]
    rw [List.range_succ_eq_map (n := fuel+1)]
    simp only [List.map_cons, List.map_map, Nat.sub_zero, Nat.add_zero]
    congr 1
    · rw [← hp]
    · apply List.map_congr_left
      intro j _
      simp only [Function.comp]
      have e1 : fuel + 1 - (j + 1) = fuel - j := by omega
      have e2 : t + 1 + j = t + (j + 1) := by omega
      rw [e1, e2]

end

section
variable (hashOf : Nat → Bytes → Bytes) (shake256 : Bytes → Nat → Bytes)

theorem sib_lt (n m : Nat) (h : n < 2 * m) : sib n < 2 * m := by
  unfold sib; split <;> omega

/-- the levels of the reference key are the true levels of the tree of this (seed, height, hash function) -/
theorem refKey_levels (seed : Bytes) (d : Desc) (j : Nat) (hj : j ≤ d.height) :
    (refKeyD hashOf shake256 seed d).levels.getD j [] =
      (List.range (2 ^ (d.height - j))).map (tree (treeOps (hashOf d.hashFn) (((shake256 seed 96).drop 64).take 32)
        (fun i => genLeafWOTS (hashOf d.hashFn) wp16 ((shake256 seed 96).take 32) (((shake256 seed 96).drop 64).take 32) i)) j) := by
  simp only [refKeyD]
  have := levels_true (hashOf d.hashFn) (((shake256 seed 96).drop 64).take 32)
    (fun i => genLeafWOTS (hashOf d.hashFn) wp16 ((shake256 seed 96).take 32) (((shake256 seed 96).drop 64).take 32) i) d.height 0
  simp only [Nat.zero_add] at this
  have h0 : (List.range (2 ^ d.height)).map (fun i => genLeafWOTS (hashOf d.hashFn) wp16 ((shake256 seed 96).take 32) (((shake256 seed 96).drop 64).take 32) i)
      = (List.range (2 ^ d.height)).map (tree (treeOps (hashOf d.hashFn) (((shake256 seed 96).drop 64).take 32)
        (fun i => genLeafWOTS (hashOf d.hashFn) wp16 ((shake256 seed 96).take 32) (((shake256 seed 96).drop 64).take 32) i)) 0) := rfl
  rw [h0, this]
  simp [List.getD_eq_getElem?_getD, Nat.lt_succ_of_le hj]

/-- **PK_lib = PK_ref** and **Sign_lib@i(msg) = Sign_ref(i, msg)**, byte for byte, for every seed, hash function
(32-byte output), index and message, at a height whose label-level whole-life check holds -/
theorem lib_eq_ref (h : Nat) (hc : TraversalCorrect h) (hlen : ∀ hf x, (hashOf hf x).length = 32)
    (seed : Bytes) (hs : (shake256 seed 96).length = 96) (d : Desc) (hh : d.height = h) (h4 : 4 ≤ h) (h30 : h ≤ 30)
    (k0 : Key) (hg : Generated hashOf k0 d (shake256 seed 96)) :
    (refKeyD hashOf shake256 seed d).pk = k0.pk ∧
    ∀ i, i < 2 ^ h → ∀ msg k' sig, sign hashOf (keyAt hashOf k0 i) msg = .ok (k', sig) →
      refSign hashOf (refKeyD hashOf shake256 seed d) i msg = .ok sig := by
  generalize hrb : shake256 seed 96 = rb at *
  let hash := hashOf d.hashFn
  let pubSeed := (rb.drop 64).take 32
  let skSeed := rb.take 32
  let leafF := fun j => genLeafWOTS hash wp16 skSeed pubSeed j
  obtain ⟨troot, tauth⟩ := traversal_transfer (treeOps hash pubSeed leafF) h hc
  have hroot : k0.root = tree (treeOps hash pubSeed leafF) h 0 := by rw [hg.root, hh]; exact troot
  have hlev : ∀ j, j ≤ h → (refKeyD hashOf shake256 seed d).levels.getD j [] =
      (List.range (2 ^ (h - j))).map (tree (treeOps hash pubSeed leafF) j) := by
    intro j hj
    have := refKey_levels hashOf shake256 seed d j (hh ▸ hj)
    rw [hrb, hh] at this
    exact this
  have hrefroot : (refKeyD hashOf shake256 seed d).root = k0.root := by
    have hl := hlev h (Nat.le_refl _)
    have hRh : (refKeyD hashOf shake256 seed d).h = h := hh
    simp only [RefKey.root, hRh, hl, Nat.sub_self, Nat.pow_zero]
    rw [hroot]; rfl
  have hrefps : (refKeyD hashOf shake256 seed d).pubSeed = k0.pubSeed := by rw [hg.pubSeed]; simp [refKeyD, hrb]
  refine ⟨?_, ?_⟩
  · simp only [RefKey.pk, Key.pk, hrefroot, hrefps, hg.desc]; rfl
  · intro i hi msg k' sig hsign
    obtain ⟨fS, fP, fPub, fR, fH, fHf⟩ := keyAt_fields hashOf k0 i
    have hk0h : k0.h = h := by rw [hg.h, hh]
    have hp := pow_le30 h h30
    have hKidx : (keyAt hashOf k0 i).index = i := keyAt_index hashOf k0 i (by omega)
    obtain ⟨wsig, k'', hsign', hw⟩ := sign_explicit hashOf hlen (keyAt hashOf k0 i) msg (by rw [fH, hk0h]; exact h30) (by rw [hKidx, fH, hk0h]; exact hi)
    rw [hsign] at hsign'
    injection hsign' with hsign'
    have hsig := congrArg Prod.snd hsign'
    simp only at hsig
    -- the traversal state of keyAt
    obtain ⟨tal, tag⟩ := tauth i hi
    have hops : k0.ops hashOf = treeOps hash pubSeed leafF := by
      simp only [Key.ops, hg.hf, hg.skSeed, hg.pubSeed]; rfl
    have hbds : (keyAt hashOf k0 i).bds = Bds.fastForward (treeOps hash pubSeed leafF) h i 0 (Bds.treeHashSetup (treeOps hash pubSeed leafF) h).1 := by
      have hopsd : opsFor hashOf d.hashFn (rb.take 32) ((rb.drop 64).take 32) = treeOps hash pubSeed leafF := rfl
      have : min i (2 ^ h - 1) = i := by omega
      simp only [keyAt, stateAt, hops, hk0h, hg.bds, hh, hopsd, this]
    simp only [hKidx, fP, fR, fS, fPub, fH, fHf, hk0h, hg.hf, hbds] at hw hsig
    generalize hA : (Bds.fastForward (treeOps hash pubSeed leafF) h i 0 (Bds.treeHashSetup (treeOps hash pubSeed leafF) h).1).auth = A at *
    have hAt : A.take h = A := List.take_of_length_le (by omega)
    rw [hAt] at hsig
    -- the reference signature
    have hRh : (refKeyD hashOf shake256 seed d).h = h := hh
    have hRhf : (refKeyD hashOf shake256 seed d).hf = d.hashFn := rfl
    have hRprf : (refKeyD hashOf shake256 seed d).skPRF = k0.skPRF := by rw [hg.skPRF]; simp [refKeyD, hrb]
    have hRsk : (refKeyD hashOf shake256 seed d).skSeed = k0.skSeed := by rw [hg.skSeed]; simp [refKeyD, hrb]
    unfold refSign
    simp only [bind, Outcome.bind, pure, hRh, hRhf, hRprf, hRsk, hrefroot, hrefps, hw]
    rw [hsig]
    congr 3
    -- authentication path: read off the reference tree = kept by the traversal
    apply List.ext_getElem
    · simp [tal]
    · intro j h1 h2
      have hj : j < h := by simpa using h1
      simp only [List.getElem_map, List.getElem_range]
      rw [hlev j (by omega)]
      have hs2 : sib (i >>> j) < 2 ^ (h - j) := by
        have e : 2 ^ (h - j) = 2 * 2 ^ (h - j - 1) := by
          have : h - j = (h - j - 1) + 1 := by omega
          rw [this, Nat.pow_succ]; simp; omega
        rw [e]
        apply sib_lt
        rw [← e, Nat.shiftRight_eq_div_pow]
        apply Nat.div_lt_of_lt_mul
        rw [← Nat.pow_add]
        have : j + (h - j) = h := by omega
        rw [this]; exact hi
      have := tag j hj
      simp only [List.getD_eq_getElem?_getD, List.getElem?_eq_getElem h2, Option.getD_some] at this
      simp [List.getD_eq_getElem?_getD, hs2, this]

end
end Qrl.XmssRef
