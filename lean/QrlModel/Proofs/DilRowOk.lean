import QrlModel.Proofs.DilRow
namespace Qrl.NttBridge
open Gen.Dil Qrl.Dil Qrl.NttTable Qrl.DilProofs Qrl.VecF

/-- the coefficient lemma lifted to whole polynomials -/
theorem useHint_lists : ∀ (Vv W CS2 CT0 : Poly), Vv.length = W.length → CS2.length = W.length → CT0.length = W.length →
    Rng 0 8380416 Vv → Rng 0 8380416 W → Rng (-4211198) 4211198 CS2 → Rng (-4211198) 4211198 CT0 →
    V Vv = List.zipWith (· + ·) (List.zipWith (· - ·) (V W) (V CS2)) (V CT0) →
    (∀ x ∈ (List.zipWith (· - ·) (W.map fun x => (decompose x).2) CS2).map reduce32,
      (polyChkNorm_exit (BitVec.ofNat 32 (GAMMA2 - BETA)) x).isSome = false) →
    (∀ x ∈ CT0.map reduce32, (polyChkNorm_exit (BitVec.ofNat 32 GAMMA2) x).isSome = false) →
    List.zipWith (fun x y => useHint x (BitVec.signExtend 64 y)) Vv
      (List.zipWith (fun x y => BitVec.setWidth 32 (makeHint x y))
        (List.zipWith (· + ·) ((List.zipWith (· - ·) (W.map fun x => (decompose x).2) CS2).map reduce32) (CT0.map reduce32))
        (W.map fun x => (decompose x).1)) = W.map fun x => (decompose x).1
  | [], [], _, _, _, _, _, _, _, _, _, _, _, _ => by simp
  | [], _ :: _, _, _, h, _, _, _, _, _, _, _, _, _ => by simp at h
  | _ :: _, [], _, _, h, _, _, _, _, _, _, _, _, _ => by simp at h
  | _ :: _, _ :: _, [], _, _, h, _, _, _, _, _, _, _, _ => by simp at h
  | _ :: _, _ :: _, _ :: _, [], _, _, h, _, _, _, _, _, _, _ => by simp at h
  | v :: Vv, w :: W, a :: CS2, b :: CT0, l1, l2, l3, rv, rw', ra, rb, hV, c1, c2 => by
    simp only [List.length_cons, Nat.add_right_cancel_iff] at l1 l2 l3
    simp only [V, List.map_cons, List.zipWith_cons_cons, List.cons.injEq] at hV
    simp only [List.map_cons, List.zipWith_cons_cons, List.mem_cons, forall_eq_or_imp] at c1 c2
    have ih := useHint_lists Vv W CS2 CT0 l1 l2 l3 (fun x hx => rv x (by simp [hx])) (fun x hx => rw' x (by simp [hx]))
      (fun x hx => ra x (by simp [hx])) (fun x hx => rb x (by simp [hx])) hV.2 c1.2 c2.2
    simp only [List.map_cons, List.zipWith_cons_cons, List.cons.injEq]
    exact ⟨coeff_hint_ok w a b v (rw' w (by simp)) (ra a (by simp)) (rb b (by simp)) (rv v (by simp)) hV.1 c1.1 c2.1, ih⟩

set_option maxRecDepth 4000 in
/-- **one row of `Verify(Sign(m))`**: if the signer's two low-part tests pass on this row, then applying the signer's
hints to the verifier's `A·z − c·t1·2^d` gives back the signer's high bits `w1` -/
theorem row_ok (row s1 y : List Poly) (s2i c : Poly)
    (hrow : ∀ p ∈ row, Good 0 8380416 p) (hrl : row.length ≤ 8)
    (hs1 : ∀ p ∈ s1, Good (-2) 2 p) (hy : ∀ p ∈ y, Good (-524287) 524288 p) (hly : s1.length = y.length)
    (hs2 : Good (-2) 2 s2i) (hc : Good (-1) 1 c)
    (hn1 : polyChkNorm (polyReduce (polySub (polyDecompose (sigW row y)).2 (invNTTToMont (polyPointwise (ntt c) (ntt s2i)))))
      (BitVec.ofNat 32 (GAMMA2 - BETA)) = false)
    (hn2 : polyChkNorm (polyReduce (invNTTToMont (polyPointwise (ntt c) (ntt (polyPower2Round (keyT row s1 s2i)).2))))
      (BitVec.ofNat 32 GAMMA2) = false) :
    polyUseHint (verV row (ntt c) (sigZ (ntt c) s1 y) (polyPower2Round (keyT row s1 s2i)).1)
      (polyMakeHint (polyAdd (polyReduce (polySub (polyDecompose (sigW row y)).2 (invNTTToMont (polyPointwise (ntt c) (ntt s2i)))))
                             (polyReduce (invNTTToMont (polyPointwise (ntt c) (ntt (polyPower2Round (keyT row s1 s2i)).2)))))
                    (polyDecompose (sigW row y)).1)
    = (polyDecompose (sigW row y)).1 := by
  have hV := row_V row s1 y s2i c hrow hrl hs1 hy hly hs2 hc
  obtain ⟨_, gcp⟩ := G_ntt c 1 hc (by norm_num) (by norm_num)
  have gcp' : Good (-(1 + 8 * 8380417)) (1 + 8 * 8380417) (ntt c) := gcp
  obtain ⟨_, gt⟩ := keyT_facts row s1 s2i hrow hrl hs1 hs2
  obtain ⟨_, g1, g0⟩ := p2r_facts _ gt
  obtain ⟨_, _, lz⟩ := sigZ_facts (ntt c) gcp' s1 y hs1 hy
  obtain ⟨_, gw⟩ := sigW_facts row y hrow hrl hy
  obtain ⟨_, gcs⟩ := cmul_facts (ntt c) s2i 2 gcp' hs2 (by norm_num) (by norm_num)
  obtain ⟨_, gct⟩ := cmul_facts (ntt c) _ 4096 gcp' (g0.mono (by norm_num) (by norm_num)) (by norm_num) (by norm_num)
  obtain ⟨_, gv⟩ := verV_facts row (ntt c) (sigZ (ntt c) s1 y) _ hrow hrl gcp' lz g1
  have c1 := chk_false hn1
  have c2 := chk_false hn2
  have e1 := useHint_lists _ _ _ _ (by rw [gv.1, gw.1]) (by rw [gcs.1, gw.1]) (by rw [gct.1, gw.1]) gv.2 gw.2 gcs.2 gct.2 hV
  clear hV hn1 hn2 lz g1 g0 gt gcp gcp'
  generalize verV row (ntt c) (sigZ (ntt c) s1 y) (polyPower2Round (keyT row s1 s2i)).1 = Vv at *
  generalize invNTTToMont (polyPointwise (ntt c) (ntt (polyPower2Round (keyT row s1 s2i)).2)) = CT0 at *
  generalize invNTTToMont (polyPointwise (ntt c) (ntt s2i)) = CS2 at *
  generalize sigW row y = W at *
  unfold polyUseHint polyMakeHint polyAdd polyReduce polySub polyDecompose at *
  dsimp only at *
  exact e1 c1 c2

end Qrl.NttBridge
