import QrlModel.Proofs.DilE2E
namespace Qrl.NttBridge
open Gen.Dil Qrl.Dil Qrl.NttTable Qrl.DilProofs Qrl.VecF

section
variable (shake128 shake256 : Bytes → Nat → Bytes)

/-- coefficients passing the z-norm test lie in the range the 20-bit packing is lossless on -/
theorem z_range_of_chk (p : Poly) (hp : Good (-6283009) 6283008 p) (h : polyChkNorm p (BitVec.ofNat 32 (GAMMA1 - BETA)) = false) :
    Good (-524287) 524288 p := by
  refine ⟨hp.1, ?_⟩
  intro x hx
  have hc := chk_false h x hx
  have hr := hp.2 x hx
  rw [chknorm_lane_spec _ x (by omega) (by omega)] at hc
  have hB : (BitVec.ofNat 32 (GAMMA1 - BETA)).toInt = 524168 := by rfl
  rw [hB] at hc
  simp only [decide_eq_false_iff_not, not_le] at hc
  split at hc <;> omega

/-- the verifier on a signature assembled from an accepted attempt -/
theorem verify_core (pk msg mu ctil : Bytes) (mat : List (List Poly)) (s1 s2 y z hint w1 : List Poly) (c : Poly)
    (hx : XofLen shake128 shake256)
    (hmu : mu = shake256 (shake256 pk 32 ++ msg) 64)
    (hmat : matrixExpand shake128 (pk.take 32) = mat)
    (ht1 : (chunks 320 ((pk.drop 32).take (K*320))).map polyT1Unpack =
      (List.zipWith (fun row s2i => keyT row s1 s2i) mat s2).map fun p => (polyPower2Round p).1)
    (lM : mat.length = K) (l2 : s2.length = K) (l1 : s1.length = L) (ly : y.length = L)
    (gM : ∀ row ∈ mat, (∀ p ∈ row, Good 0 8380416 p) ∧ row.length ≤ 8)
    (g1 : ∀ p ∈ s1, Good (-2) 2 p) (g2 : ∀ p ∈ s2, Good (-2) 2 p) (gy : ∀ p ∈ y, Good (-524287) 524288 p)
    (hw1 : w1 = (mat.map fun row => sigW row y).map fun p => (polyDecompose p).1)
    (hctil : ctil = shake256 (mu ++ w1.flatMap polyW1Pack) 32)
    (hc : c = polyChallenge shake256 ctil)
    (hzd : z = sigZ (ntt c) s1 y)
    (hhd : hint = List.zipWith polyMakeHint
        (List.zipWith polyAdd
          ((List.zipWith polySub ((mat.map fun row => sigW row y).map fun p => (polyDecompose p).2)
              ((s2.map ntt).map fun p => invNTTToMont (polyPointwise (ntt c) p))).map polyReduce)
          ((((List.zipWith (fun row s2i => keyT row s1 s2i) mat s2).map fun p => (polyPower2Round p).2).map ntt).map
              fun p => polyReduce (invNTTToMont (polyPointwise (ntt c) p))))
        w1)
    (hz : vecChkNorm z (BitVec.ofNat 32 (GAMMA1 - BETA)) = false)
    (hw : vecChkNorm ((List.zipWith polySub ((mat.map fun row => sigW row y).map fun p => (polyDecompose p).2)
              ((s2.map ntt).map fun p => invNTTToMont (polyPointwise (ntt c) p))).map polyReduce) (BitVec.ofNat 32 (GAMMA2 - BETA)) = false)
    (hct : vecChkNorm ((((List.zipWith (fun row s2i => keyT row s1 s2i) mat s2).map fun p => (polyPower2Round p).2).map ntt).map
              fun p => polyReduce (invNTTToMont (polyPointwise (ntt c) p))) (BitVec.ofNat 32 GAMMA2) = false)
    (hwt : (hint.map hintWeight).foldl (· + ·) 0 ≤ OMEGA) :
    verify shake128 shake256 (packSig ctil z hint) msg pk = true ∧ (packSig ctil z hint).length = CryptoBytes := by
  have gc : Good (-1) 1 c := by rw [hc]; exact polyChallenge_facts shake256 ctil
  obtain ⟨_, gcp⟩ := G_ntt c 1 gc (by norm_num) (by norm_num)
  have gcp' : Good (-(1 + 8 * 8380417)) (1 + 8 * 8380417) (ntt c) := gcp
  obtain ⟨_, gz, _⟩ := sigZ_facts (ntt c) gcp' s1 y g1 gy
  have lz : z.length = L := by rw [hzd]; simp [sigZ, l1, ly]
  have gz' : ∀ p ∈ z, p.length = 256 ∧ Rng (-524287) 524288 p := by
    intro p hp
    have := z_range_of_chk p (by rw [hzd] at hp; exact gz p hp) (vecChk_false hz p hp)
    exact this
  obtain ⟨lh, vh⟩ := rows_hint_valid s1 y c g1 gy gc mat s2 (by rw [lM, l2]) gM g2
  rw [← hw1, ← hhd] at lh vh
  have hwt' : ((hint.map rowPositions).flatten).length ≤ OMEGA := by
    have := DilHints.total_weight hint 0 vh
    omega
  have hU := unpackSig_packSig ctil z hint (by rw [hctil, hx.h256]) lz gz' (by rw [lh, lM]) vh hwt'
  have R := rows_ok s1 y c g1 gy (by rw [l1, ly]) gc mat s2 (by rw [lM, l2]) gM g2 (vecChk_false hw) (vecChk_false hct)
  rw [← hw1, ← hhd, ← hzd] at R
  constructor
  · unfold verify
    dsimp only
    rw [hU]
    dsimp only
    rw [hz, hmat, ht1, ← hmu, ← hc]
    simp only [Bool.false_eq_true, ↓reduceIte]
    unfold matVec
    rw [R, ← hctil]
    exact beq_self_eq_true ctil
  · unfold packSig packHints
    have hzl : (z.flatMap polyZPack).length = 640 * z.length :=
      flatMap_length_const 640 polyZPack z (fun p hp => polyZPack_length p (gz' p hp).1)
    simp only [List.length_append, List.length_map, hzl, lz, DilHints.cumCounts_length, lh, lM, zeros, List.length_replicate]
    rw [hctil, hx.h256]
    have : OMEGA = 75 := rfl
    have hK : K = 8 := rfl
    have hL : L = 7 := rfl
    have hC : CryptoBytes = 4595 := rfl
    omega

/-- **`Verify(Sign(m)) = true`** for the model of the library: for every seed whose key-generation sampling completes,
every message, and arbitrary extendable-output functions with the right output lengths — whenever the signing loop
returns a signature, the verifier accepts it under the public key of the same seed. -/
theorem verify_sign (hx : XofLen shake128 shake256) (seed msg : Bytes) (hE : Expanded shake128 shake256 seed)
    (sig : Bytes) (ex : List Exit) (viol : List String)
    (hs : signDetached shake128 shake256 {} (keypair shake128 shake256 seed).sk msg = some (sig, ex, viol)) :
    verify shake128 shake256 sig msg (keypair shake128 shake256 seed).pk = true ∧ sig.length = CryptoBytes := by
  obtain ⟨hrho, hkey, htr, l1, g1, l2, g2, lM, gM⟩ := key_facts shake128 shake256 hx seed hE
  obtain ⟨lT1, gT1, lT0, gT0⟩ := kT_facts shake128 shake256 hx seed hE
  rw [keypair_eq] at hs ⊢
  dsimp only at hs ⊢
  obtain ⟨u1, u2, u3, u4, u5, u6⟩ := sk_unpack (kRho shake256 seed) (kKey shake256 seed) (kTr shake128 shake256 seed)
    (kS1 shake256 seed) (kS2 shake256 seed) (kT0 shake128 shake256 seed) hrho hkey htr l1 l2 lT0 g1 g2 gT0
  unfold signDetached at hs
  dsimp only at hs
  rw [u1, u2, u3, u4, u5, u6] at hs
  obtain ⟨n, ha⟩ := signLoop_some shake256 _ _ _ _ _ _ _ _ _ _ _ _ _ hs
  have A := signAttempt_accept shake256 _ _ _ _ _ _ _ _ _ ha
  dsimp only at A
  obtain ⟨hz, hw, hct, hwt, rfl⟩ := A
  obtain ⟨p1, p2⟩ := pk_unpack (kRho shake256 seed) (kT1 shake128 shake256 seed) hrho lT1 gT1
  have hwm : ∀ (yy : List Poly), (matVec (matrixExpand shake128 (kRho shake256 seed)) (yy.map ntt)).map (fun p => polyCAddQ (invNTTToMont (polyReduce p))) =
      (kMat shake128 shake256 seed).map fun row => sigW row yy := by
    intro yy; unfold matVec kMat; rw [List.map_map]; apply List.map_congr_left; intro row _; simp only [Function.comp, sigW]
  rw [hwm] at hz hw hct hwt ⊢
  refine verify_core shake128 shake256 (kPk shake128 shake256 seed) msg (shake256 (kTr shake128 shake256 seed ++ msg) 64) _
    (kMat shake128 shake256 seed) (kS1 shake256 seed) (kS2 shake256 seed) _ _ _ _ _ hx rfl ?_ ?_ lM l2 l1 (by simp) gM g1 g2 ?_ rfl rfl rfl rfl rfl hz hw hct hwt
  · unfold kPk; rw [p1]; rfl
  · unfold kPk; rw [p2]; rfl
  · intro p hp
    simp only [List.mem_map] at hp
    obtain ⟨i, _, rfl⟩ := hp
    exact polyUniformGamma1_facts shake256 hx.h256 _ _

end
end Qrl.NttBridge
