import QrlModel.Proofs.WordList
/-! Lemmas for C10: lookup/word-list inversion, split/join inversion, the 12-bit regrouping. -/
namespace Qrl.Mnemonic

-- ---------------------------------------------------------------- lookup

def lookF (w : Bytes) : Option Nat → Bytes × Nat → Option Nat :=
  fun acc (x, i) => if x = w then some i else acc

theorem lookup_eq (w : Bytes) : lookup w = wordsB.zipIdx.foldl (lookF w) none := rfl

theorem look_absent (w : Bytes) : ∀ (l : List Bytes) (k : Nat) (acc : Option Nat), w ∉ l →
    (l.zipIdx k).foldl (lookF w) acc = acc
  | [], _, _, _ => rfl
  | x :: t, k, acc, h => by
    simp only [List.zipIdx_cons, List.foldl_cons]
    have hx : x ≠ w := fun e => h (by simp [e])
    have ht : w ∉ t := fun e => h (List.mem_cons_of_mem _ e)
    simp only [lookF, hx, if_false]
    exact look_absent w t (k+1) acc ht

theorem look_present (w : Bytes) : ∀ (l : List Bytes) (k : Nat) (acc : Option Nat) (j : Nat), l.Nodup → l[j]? = some w →
    (l.zipIdx k).foldl (lookF w) acc = some (k + j)
  | [], _, _, _, _, h => by simp at h
  | x :: t, k, acc, j, hn, h => by
    simp only [List.zipIdx_cons, List.foldl_cons]
    have hn' := List.nodup_cons.mp hn
    cases j with
    | zero =>
      simp only [List.getElem?_cons_zero, Option.some.injEq] at h
      subst h
      simp only [lookF, if_true]
      rw [look_absent x t (k+1) _ hn'.1]; rfl
    | succ j =>
      simp only [List.getElem?_cons_succ] at h
      have hx : x ≠ w := fun e => hn'.1 (e ▸ List.mem_of_getElem? h)
      simp only [lookF, hx, if_false]
      rw [look_present w t (k+1) acc j hn'.2 h]
      congr 1; omega

theorem look_sound (w : Bytes) : ∀ (l : List Bytes) (k : Nat) (acc : Option Nat) (i : Nat),
    (l.zipIdx k).foldl (lookF w) acc = some i → acc = some i ∨ (k ≤ i ∧ l[i - k]? = some w)
  | [], _, _, _, h => Or.inl h
  | x :: t, k, acc, i, h => by
    simp only [List.zipIdx_cons, List.foldl_cons] at h
    rcases look_sound w t (k+1) _ i h with h1 | ⟨h1, h2⟩
    · by_cases hx : x = w
      · simp only [lookF, hx, if_true, Option.some.injEq] at h1
        subst h1; right; simp [hx]
      · simp only [lookF, hx, if_false] at h1; exact Or.inl h1
    · right
      refine ⟨by omega, ?_⟩
      have : i - k = (i - (k+1)) + 1 := by omega
      rw [this, List.getElem?_cons_succ]; exact h2

/-- looking up the i-th word of the (duplicate-free) table gives i -/
theorem lookup_word {i : Nat} {w : Bytes} (h : wordsB[i]? = some w) : lookup w = some i := by
  rw [lookup_eq, look_present w wordsB 0 none i words_nodup h]; simp

/-- a successful lookup returns the index of that very word -/
theorem lookup_sound {w : Bytes} {i : Nat} (h : lookup w = some i) : wordsB[i]? = some w := by
  rcases look_sound w wordsB 0 none i (by rw [← lookup_eq]; exact h) with h1 | ⟨_, h2⟩
  · cases h1
  · simpa using h2

theorem lookup_none_iff (w : Bytes) : lookup w = none ↔ w ∉ wordsB := by
  constructor
  · intro h hm
    obtain ⟨i, hi⟩ := List.getElem?_of_mem hm
    rw [lookup_word hi] at h; cases h
  · intro h; rw [lookup_eq, look_absent w wordsB 0 none h]

-- ---------------------------------------------------------------- split / join

def splitF : List Bytes × Bytes → UInt8 → List Bytes × Bytes :=
  fun acc c => if c = space then (acc.2.reverse :: acc.1, []) else (acc.1, c :: acc.2)

theorem split_eq (s : Bytes) : splitOnSpace s =
    (let r := s.foldl splitF ([], []); (r.2.reverse :: r.1).reverse) := rfl

theorem splitF_word (w : Bytes) (hw : space ∉ w) (acc : List Bytes) (cur : Bytes) :
    w.foldl splitF (acc, cur) = (acc, w.reverse ++ cur) := by
  induction w generalizing cur with
  | nil => rfl
  | cons c t ih =>
    have hc : c ≠ space := fun e => hw (by simp [e])
    have ht : space ∉ t := fun e => hw (List.mem_cons_of_mem _ e)
    simp only [List.foldl_cons, splitF, hc, if_false]
    rw [ih ht]; simp

theorem splitF_join : ∀ (ws : List Bytes) (w : Bytes) (acc : List Bytes),
    (∀ x ∈ w :: ws, space ∉ x) →
    (joinWords (w :: ws)).foldl splitF (acc, []) =
      ((w :: ws).dropLast.reverse ++ acc, ((w :: ws).getLast (by simp)).reverse) := by
  intro ws; induction ws with
  | nil =>
    intro w acc h
    simp only [joinWords, List.dropLast_singleton, List.reverse_nil, List.nil_append, List.getLast_singleton]
    rw [splitF_word w (h w (by simp)) acc []]; simp
  | cons v rest ih =>
    intro w acc h
    have hw := h w (by simp)
    simp only [joinWords, List.foldl_append, List.foldl_cons]
    rw [splitF_word w hw]
    simp only [splitF, if_true, List.append_nil, List.reverse_reverse]
    rw [ih v (w :: acc) (fun x hx => h x (List.mem_cons_of_mem _ hx))]
    simp [List.getLast_cons]

/-- `strings.Split(strings.Join(ws, " "), " ") = ws` for space-free words. -/
theorem split_join (w : Bytes) (ws : List Bytes) (h : ∀ x ∈ w :: ws, space ∉ x) :
    splitOnSpace (joinWords (w :: ws)) = w :: ws := by
  rw [split_eq, splitF_join ws w [] h]
  simp only [List.append_nil, List.reverse_cons, List.reverse_reverse]
  exact List.dropLast_concat_getLast (by simp)

-- ---------------------------------------------------------------- the decode loop

attribute [local irreducible] wordsB lookup

/-- what one word does to the accumulator when no bounds check fails -/
def stepPure (s : DecSt) (v : Nat) : DecSt :=
  let cur := (s.current <<< 12) + v
  if s.buffering = 0 then { current := cur % 16, buffering := 1, out := s.out ++ [UInt8.ofNat (cur >>> 4)] }
  else if s.buffering = 1 then { current := cur % 256, buffering := 2, out := s.out ++ [UInt8.ofNat (cur >>> 8)] }
  else { current := (cur % 4096) % 16, buffering := 1,
         out := s.out ++ [UInt8.ofNat (cur >>> 12)] ++ [UInt8.ofNat ((cur % 4096) >>> 4)] }

theorem drain_step (cap : Nat) (s : DecSt) (v : Nat) (hb : s.buffering ≤ 2) (hc : s.out.length + 2 ≤ cap) :
    drain cap 4 { s with buffering := s.buffering + 3, current := (s.current <<< 12) + v } = .ok (stepPure s v) := by
  obtain ⟨cur, buf, out⟩ := s
  simp only at hb hc
  have : buf = 0 ∨ buf = 1 ∨ buf = 2 := by omega
  have h1 : out.length < cap := by omega
  have h2 : out.length + 1 < cap := by omega
  rcases this with rfl | rfl | rfl <;>
    simp [drain, stepPure, h1, h2, List.length_append]

/-- invariant of the accumulator after `i` words -/
def Inv (s : DecSt) (i : Nat) : Prop :=
  (i = 0 ∧ s.buffering = 0 ∧ s.current = 0 ∧ s.out.length = 0) ∨
  (∃ k, i = 2*k+1 ∧ s.buffering = 1 ∧ s.current < 16 ∧ s.out.length = 3*k+1) ∨
  (∃ k, i = 2*k+2 ∧ s.buffering = 2 ∧ s.current < 256 ∧ s.out.length = 3*k+2)

theorem inv_init : Inv {} 0 := Or.inl ⟨rfl, rfl, rfl, rfl⟩

theorem inv_step (s : DecSt) (i v : Nat) (h : Inv s i) : Inv (stepPure s v) (i+1) := by
  rcases h with ⟨rfl, hb, hc, hl⟩ | ⟨k, rfl, hb, hc, hl⟩ | ⟨k, rfl, hb, hc, hl⟩
  · right; left
    refine ⟨0, rfl, ?_, ?_, ?_⟩ <;> simp [stepPure, hb, hl]
    exact Nat.mod_lt _ (by decide)
  · right; right
    refine ⟨k, rfl, ?_, ?_, ?_⟩ <;> simp [stepPure, hb, hl]
    exact Nat.mod_lt _ (by decide)
  · right; left
    refine ⟨k+1, by omega, ?_, ?_, ?_⟩ <;> simp [stepPure, hb, hl]
    · exact Nat.mod_lt _ (by decide)
    · omega

theorem inv_buffering_le {s : DecSt} {i : Nat} (h : Inv s i) : s.buffering ≤ 2 := by
  rcases h with ⟨_, hb, _⟩ | ⟨_, _, hb, _⟩ | ⟨_, _, hb, _⟩ <;> omega

theorem inv_room {s : DecSt} {i n cap : Nat} (h : Inv s i) (hi : i < n) (hcap : 3 * n ≤ 2 * cap) :
    s.out.length + 2 ≤ cap := by
  rcases h with ⟨_, _, _, hl⟩ | ⟨_, _, _, _, hl⟩ | ⟨_, _, _, _, hl⟩ <;> omega

theorem decWord_refuse (cap : Nat) (c : String) (ws : List Bytes) :
    ws.foldl (decWord cap) (.refuse c) = .refuse c := by
  induction ws with
  | nil => rfl
  | cons w t ih => rw [List.foldl_cons]; exact ih

def val (w : Bytes) : Nat := (lookup w).getD 0

theorem decWord_ok (cap : Nat) (s : DecSt) (w : Bytes) : decWord cap (.ok s) w =
    (match lookup w with
     | none => .refuse "mnemonic-word"
     | some v => drain cap 4 { s with buffering := s.buffering + 3, current := (s.current <<< 12) + v }) := rfl

/-- the loop either consumes every word (all known) or stops with the library's refusal at the first
unknown word; it never faults as long as the result buffer holds `3n/2` bytes for `n` words. -/
theorem fold_words (cap : Nat) : ∀ (ws : List Bytes) (s : DecSt) (i : Nat), Inv s i → 3 * (i + ws.length) ≤ 2 * cap →
    (ws.foldl (decWord cap) (.ok s) = .refuse "mnemonic-word" ∧ ∃ w ∈ ws, lookup w = none) ∨
    ((∀ w ∈ ws, lookup w ≠ none) ∧
        ws.foldl (decWord cap) (.ok s) = .ok ((ws.map val).foldl stepPure s) ∧
        Inv ((ws.map val).foldl stepPure s) (i + ws.length))
  | [], s, i, h, _ => Or.inr ⟨by simp, rfl, by simpa using h⟩
  | w :: t, s, i, h, hc => by
    rw [List.foldl_cons]
    rw [List.length_cons] at hc
    cases hl : lookup w with
    | none =>
      left
      refine ⟨?_, w, by simp, hl⟩
      have : decWord cap (.ok s) w = .refuse "mnemonic-word" := by rw [decWord_ok, hl]
      rw [this]
      exact decWord_refuse cap _ t
    | some v =>
      have hv : val w = v := by simp [val, hl]
      have hstep : decWord cap (.ok s) w = .ok (stepPure s v) := by
        rw [decWord_ok, hl]
        exact drain_step cap s v (inv_buffering_le h) (inv_room h (by omega : i < i + (t.length + 1)) hc)
      rw [hstep]
      rcases fold_words cap t (stepPure s v) (i+1) (inv_step s i v h) (by omega) with ⟨h1, w', hw', hn⟩ | ⟨hf, he, hi⟩
      · exact Or.inl ⟨h1, w', List.mem_cons_of_mem _ hw', hn⟩
      · refine Or.inr ⟨?_, ?_, ?_⟩
        · intro x hx
          rcases List.mem_cons.mp hx with rfl | hx
          · rw [hl]; simp
          · exact hf x hx
        · rw [he, List.map_cons, List.foldl_cons, hv]
        · rw [List.map_cons, List.foldl_cons, hv, List.length_cons]
          have : i + (t.length + 1) = i + 1 + t.length := by omega
          rw [this]; exact hi

-- ---------------------------------------------------------------- content of the decoded bytes

/-- the three bytes carried by two 12-bit values -/
def pairBytes (v1 v2 : Nat) : Bytes :=
  [UInt8.ofNat (v1 >>> 4), UInt8.ofNat ((((v1 % 16) <<< 12) + v2) >>> 8), UInt8.ofNat ((((v1 % 16) <<< 12) + v2) % 256)]

def decPairs : List Nat → Bytes
  | v1 :: v2 :: rest => pairBytes v1 v2 ++ decPairs rest
  | _ => []

/-- bytes written so far plus the byte still pending in the accumulator -/
def flushView (s : DecSt) : Bytes := s.out ++ (if s.buffering = 2 then [UInt8.ofNat (s.current % 256)] else [])

def ValidEven (s : DecSt) : Prop := (s.buffering = 0 ∧ s.current = 0) ∨ (s.buffering = 2 ∧ s.current < 256)

theorem pair_step (s : DecSt) (v1 v2 : Nat) (hs : ValidEven s) (h1 : v1 < 4096) (_h2 : v2 < 4096) :
    flushView (stepPure (stepPure s v1) v2) = flushView s ++ pairBytes v1 v2 ∧ ValidEven (stepPure (stepPure s v1) v2) := by
  obtain ⟨cur, buf, out⟩ := s
  rcases hs with ⟨hb, hc⟩ | ⟨hb, hc⟩
  · simp only at hb hc; subst hb; subst hc
    refine ⟨?_, Or.inr ⟨by simp [stepPure], by simp [stepPure]; exact Nat.mod_lt _ (by decide)⟩⟩
    simp [stepPure, flushView, pairBytes]
  · simp only at hb hc; subst hb
    refine ⟨?_, Or.inr ⟨by simp [stepPure], by simp [stepPure]; exact Nat.mod_lt _ (by decide)⟩⟩
    have e1 : (cur <<< 12 + v1) >>> 12 = cur := by
      simp only [Nat.shiftLeft_eq, Nat.shiftRight_eq_div_pow]; omega
    have e2 : (cur <<< 12 + v1) % 4096 = v1 := by
      simp only [Nat.shiftLeft_eq]; omega
    have e3 : cur % 256 = cur := Nat.mod_eq_of_lt hc
    simp [stepPure, flushView, pairBytes, e1, e2, e3]

theorem fold_pairs : ∀ (n : Nat) (vs : List Nat) (s : DecSt), vs.length = 2 * n → ValidEven s → (∀ v ∈ vs, v < 4096) →
    flushView (vs.foldl stepPure s) = flushView s ++ decPairs vs
  | 0, vs, s, hl, _, _ => by
    have : vs = [] := List.eq_nil_of_length_eq_zero (by omega)
    subst this; simp [decPairs]
  | n+1, vs, s, hl, hs, hv => by
    match vs, hl with
    | v1 :: v2 :: rest, hl =>
      have h1 := hv v1 (by simp)
      have h2 := hv v2 (by simp)
      obtain ⟨hp, hval⟩ := pair_step s v1 v2 hs h1 h2
      simp only [List.foldl_cons, decPairs]
      rw [fold_pairs n rest _ (by simp at hl; omega) hval (fun v hx => hv v (by simp [hx])), hp]
      simp

theorem u8_ofNat_toNat (a : UInt8) : UInt8.ofNat a.toNat = a := by
  cases a; simp [UInt8.ofNat, UInt8.toNat]

theorem triple_roundtrip (a b c : UInt8) :
    pairBytes ((a.toNat <<< 4) + (b.toNat >>> 4)) (((b.toNat % 16) <<< 8) + c.toNat) = [a, b, c] := by
  have ha := a.toNat_lt; have hb := b.toNat_lt; have hc := c.toNat_lt
  have e1 : ((a.toNat <<< 4) + (b.toNat >>> 4)) >>> 4 = a.toNat := by
    simp only [Nat.shiftLeft_eq, Nat.shiftRight_eq_div_pow]; omega
  have e2 : (((((a.toNat <<< 4) + (b.toNat >>> 4)) % 16) <<< 12) + (((b.toNat % 16) <<< 8) + c.toNat)) >>> 8 = b.toNat := by
    simp only [Nat.shiftLeft_eq, Nat.shiftRight_eq_div_pow]; omega
  have e3 : (((((a.toNat <<< 4) + (b.toNat >>> 4)) % 16) <<< 12) + (((b.toNat % 16) <<< 8) + c.toNat)) % 256 = c.toNat := by
    simp only [Nat.shiftLeft_eq, Nat.shiftRight_eq_div_pow]; omega
  simp only [pairBytes, e1, e2, e3, u8_ofNat_toNat]

/-- regrouping 3 bytes → two 12-bit values → 3 bytes is the identity, for every byte string -/
theorem decPairs_groups : ∀ (n : Nat) (b : Bytes), b.length = 3 * n → decPairs (groups b) = b
  | 0, b, h => by
    have : b = [] := List.eq_nil_of_length_eq_zero (by omega)
    subst this; rfl
  | n+1, b, h => by
    match b, h with
    | a :: b' :: c :: rest, h =>
      simp only [groups, decPairs, triple_roundtrip]
      rw [decPairs_groups n rest (by simp at h; omega)]; rfl

theorem groups_lt : ∀ (n : Nat) (b : Bytes), b.length = 3 * n → ∀ v ∈ groups b, v < 4096
  | 0, b, h => by
    have : b = [] := List.eq_nil_of_length_eq_zero (by omega)
    subst this; simp [groups]
  | n+1, b, h => by
    match b, h with
    | a :: b' :: c :: rest, h =>
      intro v hv
      simp only [groups, List.mem_cons] at hv
      have ha := a.toNat_lt; have hb := b'.toNat_lt; have hc := c.toNat_lt
      rcases hv with rfl | rfl | hv
      · simp only [Nat.shiftLeft_eq, Nat.shiftRight_eq_div_pow]; omega
      · simp only [Nat.shiftLeft_eq]; omega
      · exact groups_lt n rest (by simp at h; omega) v hv

theorem groups_length : ∀ (n : Nat) (b : Bytes), b.length = 3 * n → (groups b).length = 2 * n
  | 0, b, h => by
    have : b = [] := List.eq_nil_of_length_eq_zero (by omega)
    subst this; rfl
  | n+1, b, h => by
    match b, h with
    | a :: b' :: c :: rest, h =>
      simp only [groups, List.length_cons]
      rw [groups_length n rest (by simp at h; omega)]; omega

theorem u8_toNat_ofNat (n : Nat) : (UInt8.ofNat n).toNat = n % 256 := by
  simp [UInt8.ofNat, UInt8.toNat]

theorem pair_regroup (v1 v2 : Nat) (h1 : v1 < 4096) (h2 : v2 < 4096) (rest : Bytes) :
    groups (pairBytes v1 v2 ++ rest) = v1 :: v2 :: groups rest := by
  simp only [pairBytes, List.cons_append, List.nil_append, groups, u8_toNat_ofNat]
  have e1 : (((v1 >>> 4) % 256) <<< 4) + ((((((v1 % 16) <<< 12) + v2) >>> 8) % 256) >>> 4) = v1 := by
    simp only [Nat.shiftLeft_eq, Nat.shiftRight_eq_div_pow]; omega
  have e2 : ((((((v1 % 16) <<< 12) + v2) >>> 8) % 256 % 16) <<< 8) + ((((v1 % 16) <<< 12) + v2) % 256 % 256) = v2 := by
    simp only [Nat.shiftLeft_eq, Nat.shiftRight_eq_div_pow]; omega
  rw [e1, e2]

theorem groups_decPairs : ∀ (n : Nat) (vs : List Nat), vs.length = 2 * n → (∀ v ∈ vs, v < 4096) → groups (decPairs vs) = vs
  | 0, vs, hl, _ => by
    have : vs = [] := List.eq_nil_of_length_eq_zero (by omega)
    subst this; rfl
  | n+1, vs, hl, hv => by
    match vs, hl with
    | v1 :: v2 :: rest, hl =>
      simp only [decPairs]
      rw [pair_regroup v1 v2 (hv v1 (by simp)) (hv v2 (by simp)),
          groups_decPairs n rest (by simp at hl; omega) (fun v hx => hv v (by simp [hx]))]

theorem decPairs_length : ∀ (n : Nat) (vs : List Nat), vs.length = 2 * n → (decPairs vs).length = 3 * n
  | 0, vs, hl => by
    have : vs = [] := List.eq_nil_of_length_eq_zero (by omega)
    subst this; rfl
  | n+1, vs, hl => by
    match vs, hl with
    | v1 :: v2 :: rest, hl =>
      simp only [decPairs, pairBytes, List.cons_append, List.nil_append, List.length_cons]
      rw [decPairs_length n rest (by simp at hl; omega)]; omega

theorem val_lt {w : Bytes} (h : w ∈ wordsB) : val w < 4096 := by
  obtain ⟨i, hi⟩ := List.getElem?_of_mem h
  have hlt : i < wordsB.length := (List.getElem?_eq_some_iff.mp hi).1
  rw [words_length] at hlt
  simp [val, lookup_word hi, hlt]

theorem word_val {w : Bytes} (h : w ∈ wordsB) : wordsB.getD (val w) [] = w := by
  obtain ⟨i, hi⟩ := List.getElem?_of_mem h
  simp [val, lookup_word hi, List.getD_eq_getElem?_getD, hi]

/-- decoding a phrase of `2(n+1)` list words joined by single spaces yields the regrouped bytes -/
theorem dec_join (n : Nat) (ws : List Bytes) (hwl : ws.length = 2 * (n+1)) (hmem : ∀ w ∈ ws, w ∈ wordsB) :
    mnemonicToBin (joinWords ws) = .ok (decPairs (ws.map val)) := by
  obtain ⟨w0, wr, hws⟩ : ∃ w0 wr, ws = w0 :: wr := by
    cases hws : ws with
    | nil => rw [hws] at hwl; simp at hwl
    | cons a t => exact ⟨a, t, rfl⟩
  have hsplit : splitOnSpace (joinWords ws) = ws := by
    rw [hws]; exact split_join w0 wr (fun x hx => word_no_space (hmem x (hws ▸ hx)))
  have hcap : ws.length * 15 / 10 = 3 * (n+1) := by rw [hwl]; omega
  have hvl : (ws.map val).length = 2 * (n+1) := by simp [hwl]
  have hvlt : ∀ v ∈ ws.map val, v < 4096 := by
    intro v hv
    obtain ⟨w, hw, rfl⟩ := List.mem_map.mp hv
    exact val_lt (hmem w hw)
  unfold mnemonicToBin
  simp only [hsplit]
  have hev : ¬ (ws.length % 2 ≠ 0) := by rw [hwl]; omega
  rw [if_neg hev, hcap]
  rcases fold_words (3 * (n+1)) ws {} 0 inv_init (by rw [hwl]; omega) with ⟨_, w, hw, hn⟩ | ⟨_, hfold, hinv⟩
  · exact absurd ((lookup_none_iff w).mp hn) (fun h => h (hmem w hw))
  · rw [hfold]
    have hcontent := fold_pairs (n+1) (ws.map val) {} hvl (Or.inl ⟨rfl, rfl⟩) hvlt
    rw [hwl] at hinv
    rcases hinv with ⟨h0, _⟩ | ⟨k, hk, _⟩ | ⟨k, hk, hb, _, hl⟩
    · omega
    · omega
    · have hkn : k = n := by omega
      subst hkn
      simp only [flushView, hb, if_true] at hcontent
      simp only [decFlush, hb]
      have h1 : (0 : Nat) < 2 := by decide
      rw [if_pos h1, if_pos (by rw [hl]; omega)]
      have : 3 * (k + 1) - ((ws.map val).foldl stepPure {}).out.length - 1 = 0 := by rw [hl]; omega
      rw [this]
      simp only [zeros, List.replicate_zero, List.append_nil]
      simp at hcontent
      rw [hcontent]

end Qrl.Mnemonic
