import QrlModel.Proofs.XmssSignVerify
import QrlModel.Props.C04
/-! End-to-end: Verify(msg, Sign(msg), PK) = true at every index of a height whose label-level whole-life check
succeeds — composition of the traversal transfer, the WOTS theorem, the authentication-path lemma and the
acceptance decision of the verifier. -/
namespace Qrl.Xmss
open Qrl.BdsRel Qrl.BdsLabel Qrl.Xmss.C02 Qrl.Xmss.C08

section
variable (hashOf : Nat → Bytes → Bytes) (shake256 : Bytes → Nat → Bytes)

/-- the facts about a freshly generated key that the end-to-end theorem uses (`rb` = SHAKE256(seed, 96)) -/
structure Generated (k0 : Key) (d : Desc) (rb : Bytes) : Prop where
  h : k0.h = d.height
  hf : k0.hf = d.hashFn
  desc : k0.desc = d
  skSeed : k0.skSeed = rb.take 32
  skPRF : k0.skPRF = (rb.drop 32).take 32
  pubSeed : k0.pubSeed = (rb.drop 64).take 32
  root : k0.root = (Bds.treeHashSetup (opsFor hashOf d.hashFn (rb.take 32) ((rb.drop 64).take 32)) d.height).2
  bds : k0.bds = (Bds.treeHashSetup (opsFor hashOf d.hashFn (rb.take 32) ((rb.drop 64).take 32)) d.height).1
  skz : k0.sk = zeros 4 ++ k0.sk.drop 4

theorem generated_of_init (d : Desc) (seed : Bytes) (k0 : Key) (hs : (shake256 seed 96).length = 96)
    (hk : initializeTree hashOf shake256 d seed = .ok k0)
    (hrl : ((Bds.treeHashSetup (opsFor hashOf d.hashFn ((shake256 seed 96).take 32) (((shake256 seed 96).drop 64).take 32)) d.height).2).length = 32) :
    Generated hashOf k0 d (shake256 seed 96) := by
  unfold initializeTree at hk
  simp only at hk
  split at hk; · cases hk
  injection hk with hk
  subst hk
  generalize shake256 seed 96 = rb at *
  generalize hR : (Bds.treeHashSetup (opsFor hashOf d.hashFn (rb.take 32) ((rb.drop 64).take 32)) d.height).2 = root at *
  have e4 : (zeros 4 ++ rb ++ root).drop 4 = rb ++ root := by
    rw [List.append_assoc, List.drop_left' (by simp [zeros])]
  refine ⟨rfl, rfl, rfl, ?_, ?_, ?_, ?_, rfl, ?_⟩
  · simp only [Key.skSeed]
    rw [e4, List.take_append_of_le_length (by omega)]
  · simp only [Key.skPRF]
    have : (zeros 4 ++ rb ++ root).drop 36 = rb.drop 32 ++ root := by
      have : (36 : Nat) = 4 + 32 := rfl
      rw [this, ← List.drop_drop, e4, List.drop_append_of_le_length (by omega)]
    rw [this, List.take_append_of_le_length (by simp; omega)]
  · simp only [Key.pubSeed]
    have : (zeros 4 ++ rb ++ root).drop 68 = rb.drop 64 ++ root := by
      have : (68 : Nat) = 4 + 64 := rfl
      rw [this, ← List.drop_drop, e4, List.drop_append_of_le_length (by omega)]
    rw [this, List.take_append_of_le_length (by simp; omega)]
  · simp only [Key.root]
    have : (zeros 4 ++ rb ++ root).drop 100 = root := by
      have : (100 : Nat) = 4 + 96 := rfl
      rw [this, ← List.drop_drop, e4, List.drop_left' hs]
    rw [this, List.take_of_length_le (by omega), hR]
  · show zeros 4 ++ rb ++ root = zeros 4 ++ (zeros 4 ++ rb ++ root).drop 4
    rw [e4, List.append_assoc]


theorem keyAt_fields (k0 : Key) (i : Nat) :
    (keyAt hashOf k0 i).skSeed = k0.skSeed ∧ (keyAt hashOf k0 i).skPRF = k0.skPRF ∧ (keyAt hashOf k0 i).pubSeed = k0.pubSeed ∧
    (keyAt hashOf k0 i).root = k0.root ∧ (keyAt hashOf k0 i).h = k0.h ∧ (keyAt hashOf k0 i).hf = k0.hf := by
  refine ⟨?_, ?_, ?_, ?_, rfl, rfl⟩
  · simp [keyAt, Key.skSeed, setIdxBytes_drop]
  · simp [keyAt, Key.skPRF, drop_setIdxBytes k0.sk i 32]
  · simp [keyAt, Key.pubSeed, drop_setIdxBytes k0.sk i 64]
  · simp [keyAt, Key.root, drop_setIdxBytes k0.sk i 96]

/-- **Verify(msg, Sign(msg), PK) = true** at index `i` of a key of height `h`, for every seed, hash function
(32-byte output), message — given the label-level whole-life check of that height -/
theorem verify_sign_at (h : Nat) (hc : TraversalCorrect h) (hlen : ∀ hf x, (hashOf hf x).length = 32)
    (k0 : Key) (d : Desc) (rb : Bytes) (hrb : rb.length = 96) (hg : Generated hashOf k0 d rb)
    (hh : d.height = h) (h4 : 4 ≤ h) (heven : h % 2 = 0) (h30 : h ≤ 30)
    (hst : d.sigType = 0) (hhf : supportedHash d.hashFn = true) (haf : d.addrFmt < 16)
    (i : Nat) (hi : i < 2 ^ h) (msg : Bytes) :
    ∃ sig k', sign hashOf (keyAt hashOf k0 i) msg = .ok (k', sig) ∧ verify hashOf msg sig k0.pk = .ok true := by
  obtain ⟨fS, fP, fPub, fR, fH, fHf⟩ := keyAt_fields hashOf k0 i
  have hk0h : k0.h = h := by rw [hg.h, hh]
  have hp := pow_le30 h h30
  have hKidx : (keyAt hashOf k0 i).index = i := keyAt_index hashOf k0 i (by omega)
  -- the node operations of this key
  let hash := hashOf d.hashFn
  let pubSeed := (rb.drop 64).take 32
  let skSeed := rb.take 32
  let leafF := fun j => genLeafWOTS hash wp16 skSeed pubSeed j
  have hops : k0.ops hashOf = treeOps hash pubSeed leafF := by
    simp only [Key.ops, hg.hf, hg.skSeed, hg.pubSeed]; rfl
  have hpsl : pubSeed.length = 32 := by simp [pubSeed, hrb]
  -- the traversal theorem, transferred to this key
  obtain ⟨troot, tauth⟩ := traversal_transfer (treeOps hash pubSeed leafF) h hc
  obtain ⟨tal, tag⟩ := tauth i hi
  have hleaf32 : ∀ j, (leafF j).length = 32 := fun j => genLeafWOTS_len hash (hlen _) wp16 skSeed pubSeed j
  have htree32 := tree_len hash (hlen _) pubSeed leafF hleaf32
  have hroot : k0.root = tree (treeOps hash pubSeed leafF) h 0 := by
    rw [hg.root, hh]; exact troot
  have hbds : (keyAt hashOf k0 i).bds = Bds.fastForward (treeOps hash pubSeed leafF) h i 0 (Bds.treeHashSetup (treeOps hash pubSeed leafF) h).1 := by
    have hopsd : opsFor hashOf d.hashFn (rb.take 32) ((rb.drop 64).take 32) = treeOps hash pubSeed leafF := rfl
    have : min i (2 ^ h - 1) = i := by omega
    simp only [keyAt, stateAt, hops, hk0h, hg.bds, hh, hopsd, this]
  -- the signature
  obtain ⟨wsig, k', hsign, hw⟩ := sign_explicit hashOf hlen (keyAt hashOf k0 i) msg (by rw [fH, hk0h]; exact h30) (by rw [hKidx, fH, hk0h]; exact hi)
  simp only [hKidx, fP, fR, fS, fPub, fH, fHf, hk0h, hg.hf, hbds, hg.pubSeed, hg.skSeed] at hw hsign
  refine ⟨_, k', hsign, ?_⟩
  generalize hA : (Bds.fastForward (treeOps hash pubSeed leafF) h i 0 (Bds.treeHashSetup (treeOps hash pubSeed leafF) h).1).auth = A at *
  have hAt : A.take h = A := List.take_of_length_le (by omega)
  rw [hAt]
  have hA32 : ∀ x ∈ A, x.length = 32 := by
    intro x hx
    obtain ⟨j, hj, rfl⟩ := List.getElem_of_mem hx
    have := tag j (by omega)
    simp only [List.getD_eq_getElem?_getD, List.getElem?_eq_getElem hj, Option.getD_some] at this
    rw [this]; exact htree32 _ _
  -- WOTS: the verifier recomputes the key-generation public key, hence the leaf
  obtain ⟨ws, hws, hwl, hwpk⟩ := wots_pk_from_sig hash wp16 (Or.inl rfl)
    (hMsg hash msg (prf hash (toBytesBE i 32) k0.skPRF ++ k0.root ++ toBytesBE i 32)) (getSeed hash skSeed i) pubSeed i (hlen _ _)
  have hwe : wsig = ws := by
    have := hw.symm.trans hws
    injection this
  subst hwe
  have hW32 : ∀ x ∈ wsig, x.length = 32 := by
    intro x hx
    simp only [wotsSign, bind, Outcome.bind] at hw
    split at hw
    · injection hw with hw
      subst hw
      simp only [List.mem_map] at hx
      obtain ⟨⟨⟨sk, dd⟩, j⟩, hm, rfl⟩ := hx
      apply genChain_len hash (hlen _)
      have := List.fst_mem_of_mem_zipIdx hm
      exact expandSeed_len hash (hlen _) _ _ sk (List.of_mem_zip this).1
    · cases hw
    · cases hw
  -- the acceptance decision
  unfold verify
  rw [C04.accept_iff]
  have hdesc : Desc.ofPrefix k0.pk = d := by
    simp only [Key.pk, hg.desc]
    rw [List.append_assoc, C11.ofPrefix_append]
    exact C11.desc_roundtrip d (by unfold supportedHash at hhf; simp at hhf; omega) (by omega) haf (by omega) (by omega)
  have hrl : k0.root.length = 32 := by rw [hroot]; exact htree32 _ _
  have hrl' : (prf hash (toBytesBE i 32) k0.skPRF).length = 32 := hlen _ _
  have hWf := flatten_len32 wsig hW32
  have hAf := flatten_len32 A hA32
  refine ⟨wp16, ⟨rfl, by rw [hdesc]; exact hst, by rw [hdesc]; exact hhf, ?_, by rw [hdesc]; omega, by rw [hdesc]; omega, by rw [hdesc]; omega⟩, ?_⟩
  · rw [hdesc, hh]
    have e1 : (prf (hashOf d.hashFn) (toBytesBE i 32) k0.skPRF).length = 32 := hrl'
    simp only [List.length_append, toBytesBE_length, e1, hWf, hAf, hwl, tal, WParams.keySize, WParams.len, wp16]
  · rw [hdesc, hh]
    have hpk : k0.pk.drop 3 = k0.root ++ pubSeed := by
      simp only [Key.pk, hg.pubSeed]
      rw [List.append_assoc, List.drop_left' (by simp [Desc.bytes])]
    rw [hpk, verifySig_explicit hashOf d.hashFn wp16 msg _ k0.root pubSeed wsig A i h (by omega) hrl' hrl hpsl hwl hW32 tal hA32]
    rw [hwpk]
    simp only
    have hl : lTree hash pubSeed i wp16.len 0 (wotsPKGen hash wp16 (getSeed hash skSeed i) pubSeed i) = leafF i := rfl
    rw [hl, validateAuthPath_true hash pubSeed leafF h i hi A tal (fun j hj => tag j hj), hroot]
    simp

end
end Qrl.Xmss
